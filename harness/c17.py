"""C17 — the connection parameters in effect are the ones resolved and reported.

proof: coq/proofs/Resolve_Proofs.v + coq/proofs/SshArgv_Proofs.v, props/C17.v.
tie  : Gen_Resolve.v regenerated from the source (transport table, defaults, magic strings, candidate
       files, str whitespace, the real _build_open_cmd over the product of its branches) + correspondence of
       model/Resolve.v [resolve] and model/SshArgv.v [build_open_cmd, ssh_parse] against the real constructors
       (sync Driver / AsyncDriver / Generic / IOSXE) over a real temporary file system, + an independent oracle
       (precedence spec, reported-vs-dialled on the transport OBJECT, argv read by an independent Python
       getopt, by the real `ssh -G`, and as received by a stand-in ssh binary)
       + dial suite (c17_dial.py): histories over SEVERAL driver objects of one process (open / close / re-open /
       direct _build_open_cmd in generated orders) through the real open() of every transport with the connect
       entry points replaced by recorders; every recorded spawn / socket / auth / asyncssh.connect call — absent
       keywords resolved the way the library resolves them — against what THAT driver reports; the system
       histories and the asyncssh keywords also against model/OpenHist.v by vm_compute.  Histories in which 2-3
       drivers are constructed with ONE transport_options object (or distinct dicts holding the same inner
       objects; equal-but-distinct copies as control), for system / paramiko / asyncssh, opened in every order:
       same oracle + the user's transport_options object is, deep-compared, what it was at construction after
       every operation + the user's own options are in the call; the asyncssh ones also against OpenHist.v
       as_run (objects with the address of the user dict they hold)."""
import copy
import itertools
import json
import os
import re
import shutil
import stat
import subprocess
import sys
import time

from . import c17_dial as dial
from . import common
from .c17_env import SshUsage, _plain, coq_opt, coq_str, ensure_ssh2_importable, o_get, py_ssh_parse, set_prefix
from .common import coq_bool, coq_list

LEVEL = "proof"
SOURCES = ["scrapli/driver/base/base_driver.py", "scrapli/transport/plugins/system/transport.py",
           "scrapli/transport/plugins/paramiko/transport.py", "scrapli/transport/plugins/asyncssh/transport.py",
           "scrapli/transport/plugins/ssh2/transport.py", "scrapli/transport/plugins/telnet/transport.py",
           "scrapli/transport/plugins/asynctelnet/transport.py", "scrapli/transport/base/base_socket.py",
           "scrapli/transport/base/base_transport.py", "scrapli/ssh_config.py", "scrapli/helper.py"]

TRANSPORTS = ["system", "paramiko", "ssh2", "telnet", "asynctelnet", "asyncssh"]
ASYNC = {"asynctelnet", "asyncssh"}
LIBRARY = {"paramiko", "ssh2", "asyncssh"}
COQ_T = {"system": "System", "paramiko": "Paramiko", "ssh2": "Ssh2", "telnet": "Telnet",
         "asynctelnet": "Asynctelnet", "asyncssh": "Asyncssh"}
MAGIC_CFG = "SYSTEM_TRANSPORT_SSH_CONFIG_TRUE"
MAGIC_KH = "SYSTEM_TRANSPORT_KNOWN_HOSTS_TRUE"
CFG_DEFAULTS = ["~/.ssh/config", "/etc/ssh/ssh_config"]
KH_DEFAULTS = ["~/.ssh/known_hosts", "/etc/ssh/ssh_known_hosts"]

# ssh config files written into the fixture: host -> {port,user,identity}; "*" = the Host * block
CFG_SPECS = [
    {},
    {"r1": {"port": 2222}},
    {"r1": {"port": 2222, "user": "carl", "identity": "~/.ssh/cfgkey"}},
    {"r1": {"user": "carl"}, "*": {"port": 2200}},
    {"r1": {"identity": "/abs/idfile"}, "core-sw.example.net": {"port": 830, "user": "netops"}},
    {"*": {"user": "staruser", "identity": "~/.ssh/starkey"}},
    {"r1": {"port": 0, "user": "zero"}},
]
HOME_A_CFG = {"r1": {"port": 2300, "user": "homeuser"}}
# config files of the dial suite only: a User that asyncssh's own config reader accepts for the host and
# scrapli's does not fold into the driver (the driver then reports no username)
DIAL_CFGS = {"d0": "Host r1\n  User net-admin\n", "d1": "Host zz9 r1\n  User ops.team\n  Port 2022\n"}

PLAIN_HOSTS = ["r1", "core-sw.example.net", "10.0.0.1", "zz9"]
BLANK_HOSTS = [" r1 ", "r1\n", "\tr1", "  core-sw.example.net", "zz9 \r\n", "\xa0r1", "r1 ", "\x1fzz9\x1c"]
EMBEDDED_HOSTS = ["zz 9", "zz9 -oProxyCommand=x", "a\tb"]
DASH_HOSTS = ["-zz9", "-oProxyCommand=touch /tmp/c17", " -zz9", "--", "-", "-F/dev/null"]
ODD_HOSTS = ["  ", "zz9@", "été"]


# ------------------------------------------------------------------------------------------------
# fixture: a real temporary file system
# ------------------------------------------------------------------------------------------------
def render_cfg(spec):
    out = []
    for h, o in spec.items():
        out.append("Host %s" % h)
        if "port" in o:
            out.append("  Port %d" % o["port"])
        if "user" in o:
            out.append("  User %s" % o["user"])
        if "identity" in o:
            out.append("  IdentityFile %s" % o["identity"])
    return "\n".join(out) + ("\n" if out else "")


def make_fixture(workdir):
    root = os.path.join(workdir, "fx")
    shutil.rmtree(root, ignore_errors=True)
    os.makedirs(os.path.join(root, "home_a", ".ssh"))
    os.makedirs(os.path.join(root, "home_b", ".ssh"))
    os.makedirs(os.path.join(root, "cfgs"))
    for i, spec in enumerate(CFG_SPECS):
        open(os.path.join(root, "cfgs", "c%d" % i), "w").write(render_cfg(spec))
    for name, txt in DIAL_CFGS.items():
        open(os.path.join(root, "cfgs", name), "w").write(txt)
    open(os.path.join(root, "home_a", ".ssh", "config"), "w").write(render_cfg(HOME_A_CFG))
    open(os.path.join(root, "home_a", ".ssh", "known_hosts"), "w").write("r1 ssh-ed25519 AAAA\n")
    open(os.path.join(root, "home_a", ".ssh", "id_k"), "w").write("key\n")
    open(os.path.join(root, "kh1"), "w").write("r1 ssh-ed25519 AAAA\n")
    open(os.path.join(root, "key1"), "w").write("key\n")
    open(os.path.join(root, "key with blank"), "w").write("key\n")
    return root


def sym(root, s):
    """symbolic path of a case -> concrete ("$FX/..." is under the fixture root)"""
    return s.replace("$FX", root) if isinstance(s, str) else s


def spec_of_file(root, path, home):
    """the intended content of a config file (None: not one of ours)"""
    for i, spec in enumerate(CFG_SPECS):
        if path == os.path.join(root, "cfgs", "c%d" % i):
            return spec
    if path == os.path.join(root, "home_a", ".ssh", "config"):
        return HOME_A_CFG
    if path == "":
        return {}
    if os.path.isfile(path):
        # a system file (e.g. /etc/ssh/ssh_config): empty as far as C17 goes unless it sets one of the three
        txt = open(path, errors="replace").read()
        if not re.search(r"^\s*(port|user|identityfile)\b", txt, re.I | re.M):
            return {}
    return None


def spec_lookup(spec, host, home):
    """independent reading of `the entry for this host`: exact block first, then Host * (per attribute)"""
    out = {"port": None, "user": "", "identity": ""}
    for blk in (spec.get(host), spec.get("*")):
        if not blk:
            continue
        if not out["port"] and blk.get("port"):
            out["port"] = blk["port"]
        if not out["user"] and blk.get("user"):
            out["user"] = blk["user"]
        if not out["identity"] and blk.get("identity"):
            ident = blk["identity"]
            out["identity"] = os.path.join(home, ident[2:]) if ident.startswith("~/") else ident
    return out


# ------------------------------------------------------------------------------------------------
# cases
# ------------------------------------------------------------------------------------------------
def gen_case(rng, malformed=False):
    t = rng.choice(TRANSPORTS)
    r = rng.random()
    if r < 0.40:
        host = rng.choice(PLAIN_HOSTS)
    elif r < 0.62:
        host = rng.choice(BLANK_HOSTS)
    elif r < 0.74:
        host = rng.choice(EMBEDDED_HOSTS)
    elif r < 0.90:
        host = rng.choice(DASH_HOSTS)
    else:
        host = rng.choice(ODD_HOSTS)
    port = rng.choice(["omit", "omit", "omit", 22, 23, 2022, 0, 65535, 830, 2222])
    user = rng.choice(["", "", "admin", "-x", "a b"])
    key = rng.choice(["", "", "$FX/key1", "$FX/key with blank", "~/.ssh/id_k"])
    strict = rng.random() < 0.5
    cfg = rng.choice([False, False, True, "", "$FX/nonexistent", "~/.ssh/config"] + ["$FX/cfgs/c%d" % i for i in range(len(CFG_SPECS))] * 2)
    kh = rng.choice([False, True, "", "$FX/kh1", "$FX/nonexistent_kh", "~/.ssh/known_hosts"])
    home = rng.choice(["home_a", "home_b"])
    c = {"transport": t, "host": host, "port": port, "user": user, "key": key, "strict": strict, "cfg": cfg, "kh": kh,
         "home": home, "cls": "base", "extra": None, "tsock": 15.0, "ttrans": 30.0}
    if rng.random() < 0.15:
        c["cls"] = rng.choice(["generic", "iosxe"])
    if t == "system" and rng.random() < 0.15:
        c["extra"] = rng.choice([["-v"], "-4", ["-o", "ProxyCommand=none"], ["-p", "9"]])
    if rng.random() < 0.1:
        c["tsock"], c["ttrans"] = rng.choice([(5, 10), (2.9, 0.5), (0, 100)])
    if malformed:
        kind = rng.choice(["emptyhost", "portstr", "portfloat", "nokey", "cfgbad", "khbad", "two"])
        if kind in ("emptyhost", "two"):
            c["host"] = ""
        if kind == "portstr":
            c["port"] = "str:22"
        if kind in ("portfloat", "two"):
            c["port"] = "float:2.5"
        if kind == "nokey":
            c["key"] = "$FX/no_such_key"
        if kind == "cfgbad":
            c["cfg"] = rng.choice(["none", "int:5"])
        if kind == "khbad":
            c["kh"] = rng.choice(["none", "int:5"])
    return c


CORPUS = [
    # the baseline defects (DESIGN section 6 rows 11, 24)
    {"transport": "paramiko", "host": "r1", "port": "omit", "cfg": "$FX/cfgs/c1"},
    {"transport": "asyncssh", "host": "r1", "port": "omit", "cfg": "$FX/cfgs/c2"},
    {"transport": "ssh2", "host": "r1", "port": "omit", "cfg": "$FX/cfgs/c3"},
    {"transport": "paramiko", "host": "r1", "port": 2022, "cfg": "$FX/cfgs/c1"},
    {"transport": "asyncssh", "host": "r1", "port": 22, "cfg": "$FX/cfgs/c1"},
    {"transport": "system", "host": " r1 ", "port": "omit"},
    {"transport": "telnet", "host": "r1\n", "port": "omit"},
    {"transport": "asynctelnet", "host": "\tr1 ", "port": 2323},
    {"transport": "paramiko", "host": " r1 ", "port": "omit", "cfg": "$FX/cfgs/c2"},
    {"transport": "system", "host": "-oProxyCommand=touch /tmp/c17", "port": "omit", "strict": False},
    {"transport": "system", "host": " -zz9", "port": "omit"},
    # boundary shapes
    {"transport": "system", "host": "r1", "port": "omit", "cfg": True, "kh": True, "strict": True},
    {"transport": "system", "host": "r1", "port": 0, "cfg": "", "kh": "", "user": "-x", "key": "$FX/key with blank"},
    {"transport": "asyncssh", "host": "r1", "port": "omit", "cfg": True, "kh": True, "home": "home_a"},
    {"transport": "paramiko", "host": "r1", "port": "omit", "cfg": "$FX/cfgs/c6", "user": "admin"},
    {"transport": "telnet", "host": "r1", "port": "omit", "cfg": "$FX/cfgs/c1", "kh": True},
]


def full_case(c):
    d = {"transport": "system", "host": "r1", "port": "omit", "user": "", "key": "", "strict": True, "cfg": False,
         "kh": False, "home": "home_b", "cls": "base", "extra": None, "tsock": 15.0, "ttrans": 30.0}
    d.update(c)
    return d


def py_value(root, v):
    """case field -> the python value handed to the constructor"""
    if isinstance(v, str):
        if v == "none":
            return None
        if v.startswith("int:"):
            return int(v[4:])
        if v.startswith("str:"):
            return v[4:]
        if v.startswith("float:"):
            return float(v[6:])
        return sym(root, v)
    return v


def kwargs_of(root, c):
    kw = {"host": c["host"], "transport": c["transport"], "auth_username": c["user"],
          "auth_private_key": sym(root, c["key"]), "auth_strict_key": c["strict"],
          "ssh_config_file": py_value(root, c["cfg"]), "ssh_known_hosts_file": py_value(root, c["kh"]),
          "timeout_socket": c["tsock"], "timeout_transport": c["ttrans"]}
    if c["port"] != "omit":
        kw["port"] = py_value(root, c["port"])
    if c["extra"] is not None:
        kw["transport_options"] = {"open_cmd": copy.deepcopy(c["extra"])}     # the case stays what it is
    if c.get("topts") is not None:
        # a whole transport_options dict (dial suite); its open_cmd entry, if any, is what `extra` says
        if c["topts"].get("open_cmd") != c["extra"]:
            raise ValueError("case: topts['open_cmd'] and extra differ: %r" % (c,))
        kw["transport_options"] = copy.deepcopy(c["topts"])
    return kw


def driver_class(c):
    a = c["transport"] in ASYNC
    if c["cls"] == "generic":
        from scrapli.driver.generic import AsyncGenericDriver, GenericDriver
        return AsyncGenericDriver if a else GenericDriver
    if c["cls"] == "iosxe":
        from scrapli.driver.core import AsyncIOSXEDriver, IOSXEDriver
        return AsyncIOSXEDriver if a else IOSXEDriver
    from scrapli.driver.base import AsyncDriver, Driver
    return AsyncDriver if a else Driver


def reset_state():
    from scrapli.ssh_config import SSHConfig
    SSHConfig._config_files = {}


def run_impl(root, c):
    """construct the real driver; observation = reported values, the TRANSPORT OBJECT's arguments, open_cmd"""
    home = os.path.join(root, c["home"])
    os.environ["HOME"] = home
    reset_state()
    try:
        d = driver_class(c)(**kwargs_of(root, c))
    except Exception as e:  # noqa
        return {"exc": type(e).__name__}
    tr = d.transport
    bta = tr._base_transport_args
    obs = {"exc": None,
           "reported": {"host": d.host, "port": d.port, "user": d.auth_username, "key": d.auth_private_key,
                        "strict": d.auth_strict_key, "cfg": d.ssh_config_file, "kh": d.ssh_known_hosts_file},
           "base": {"host": bta.host, "port": bta.port},
           "same_object": bta is d._base_transport_args and tr.plugin_transport_args is d._plugin_transport_args,
           "plugin": None, "open_cmd": None}
    pta = tr.plugin_transport_args
    if hasattr(pta, "auth_username"):
        obs["plugin"] = {"user": pta.auth_username, "key": pta.auth_private_key, "strict": pta.auth_strict_key,
                         "cfg": pta.ssh_config_file, "kh": pta.ssh_known_hosts_file}
    if c["transport"] == "system":
        tr._build_open_cmd()
        obs["open_cmd"] = list(tr.open_cmd)
    return obs


# ------------------------------------------------------------------------------------------------
# environment tables for the model (observed through pathlib / SSHConfig, not through the driver)
# ------------------------------------------------------------------------------------------------
def env_tables(root, c):
    from pathlib import Path
    from scrapli.ssh_config import SSHConfig
    home = os.path.join(root, c["home"])
    os.environ["HOME"] = home
    cands = {""} | set(CFG_DEFAULTS) | set(KH_DEFAULTS)
    for f in ("cfg", "kh", "key"):
        v = py_value(root, c[f])
        if isinstance(v, str):
            cands.add(v)
    files, plain = {}, {}
    for p in sorted(cands):
        fp = Path(p).expanduser()
        files[p] = str(fp) if fp.is_file() else None
        plain[p] = str(Path(p)) if Path(p).is_file() else None
    host = c["host"].strip() if isinstance(c["host"], str) else ""
    lookups = {}
    for f in sorted({v for v in files.values() if v} | {""}):
        reset_state()
        try:
            h = SSHConfig(f).lookup(host)
            lookups[f] = {"port": h.port, "user": h.user or "", "identity": h.identity_file or ""}
        except Exception as e:  # noqa  (C16 territory: a config the parser cannot read)
            lookups[f] = None
    reset_state()
    return files, plain, lookups, host


def coq_farg(root, v):
    if v is False:
        return "FFalse"
    if v is True:
        return "FTrue"
    pv = py_value(root, v)
    if isinstance(pv, str):
        return "(FPath %s)" % coq_str(pv)
    return "FBad"


def coq_port(root, v):
    if v == "omit":
        return "PNone"
    pv = py_value(root, v)
    if isinstance(pv, int) and not isinstance(pv, bool) and pv >= 0:
        return "(PInt %d)" % pv
    return "PNotInt"


def coq_outcome(obs):
    if obs["exc"] is not None:
        e = {"ScrapliValueError": "EValue", "ScrapliTypeError": "EType"}.get(obs["exc"])
        return None if e is None else "(Raised %s)" % e
    r, b, p = obs["reported"], obs["base"], obs["plugin"]
    for x in (r["host"], r["user"], r["key"], r["cfg"], r["kh"], b["host"]):
        if not isinstance(x, str):
            return None
    for x in (r["port"], b["port"]):
        if not isinstance(x, int) or isinstance(x, bool) or x < 0:
            return None
    rr = "(mkR %s %d %s %s %s %s %s)" % (coq_str(r["host"]), r["port"], coq_str(r["user"]), coq_str(r["key"]),
                                          coq_bool(r["strict"]), coq_str(r["cfg"]), coq_str(r["kh"]))
    bb = "(mkB %s %d)" % (coq_str(b["host"]), b["port"])
    pp = "None" if p is None else "(Some (mkP %s %s %s %s %s))" % (
        coq_str(p["user"]), coq_str(p["key"]), coq_bool(p["strict"]), coq_str(p["cfg"]), coq_str(p["kh"]))
    return "(Built %s %s %s)" % (rr, bb, pp)


def case_term(root, c, obs, tables):
    files, plain, lookups, host = tables
    a = "(mkA %s %s %s %s %s %s %s %s)" % (
        COQ_T[c["transport"]], coq_str(c["host"]), coq_port(root, c["port"]), coq_str(c["user"]),
        coq_str(sym(root, c["key"])), coq_bool(c["strict"]), coq_farg(root, c["cfg"]), coq_farg(root, c["kh"]))
    ft = coq_list(["(%s, %s)" % (coq_str(k), coq_str(v)) for k, v in files.items() if v is not None])
    pt = coq_list(["(%s, %s)" % (coq_str(k), coq_str(v)) for k, v in plain.items() if v is not None])
    lt = coq_list(["(%s, mkC %s %s %s)" % (coq_str(k), coq_opt(v["port"], str), coq_str(v["user"]), coq_str(v["identity"]))
                   for k, v in lookups.items() if v is not None and (v["port"] is not None or v["user"] or v["identity"])])
    oc = coq_outcome(obs)
    if oc is None:
        return None
    if obs.get("open_cmd") is not None:
        ex = c["extra"]
        ex = [] if ex is None else ([ex] if isinstance(ex, str) else ex)
        cmd = "(Some (%d, %d, %s, %s))" % (int(c["tsock"]), int(c["ttrans"]), coq_list([coq_str(x) for x in ex]),
                                           coq_list([coq_str(x) for x in obs["open_cmd"]]))
    else:
        cmd = "None"
    return ("(%s, (%s : list (str * str)), (%s : list (str * str)), (%s : list (str * cfg_entry)), %s, "
            "(%s : option (N * N * list str * list str)))" % (a, ft, pt, lt, oc, cmd))


HEADER = """From Coq Require Import String.
From Verif Require Import Bytes Resolve SshArgv.
Definition FX : str := %s.
Definition obeq (a b : option str) : bool :=
  match a, b with Some x, Some y => beq x y | None, None => true | _, _ => false end.
Fixpoint assoc {A} (d : A) (k : str) (l : list (str * A)) : A :=
  match l with [] => d | (k', v) :: r => if beq k k' then v else assoc d k r end.
Fixpoint assoc_o (k : str) (l : list (str * str)) : option str :=
  match l with [] => None | (k', v) :: r => if beq k k' then Some v else assoc_o k r end.
Definition mk_env (files plain : list (str * str)) (lk : list (str * cfg_entry)) : env :=
  mkE (fun p => assoc_o p files) (fun p => assoc_o p plain) (fun f _ => assoc (mkC None [] []) f lk).
Definition req (a b : reported) : bool :=
  beq (r_host a) (r_host b) && (r_port a =? r_port b) && beq (r_user a) (r_user b) && beq (r_key a) (r_key b)
  && Bool.eqb (r_strict a) (r_strict b) && beq (r_cfg a) (r_cfg b) && beq (r_kh a) (r_kh b).
Definition beqb (a b : base_targs) : bool := beq (b_host a) (b_host b) && (b_port a =? b_port b).
Definition peq (a b : option plugin_targs) : bool :=
  match a, b with
  | Some x, Some y => beq (p_user x) (p_user y) && beq (p_key x) (p_key y) && Bool.eqb (p_strict x) (p_strict y)
                      && beq (p_cfg x) (p_cfg y) && beq (p_kh x) (p_kh y)
  | None, None => true | _, _ => false end.
Definition oeq (a b : outcome) : bool :=
  match a, b with
  | Built r1 b1 p1, Built r2 b2 p2 => req r1 r2 && beqb b1 b2 && peq p1 p2
  | Raised EValue, Raised EValue | Raised EType, Raised EType => true
  | _, _ => false end.
Definition chk (c : args * list (str * str) * list (str * str) * list (str * cfg_entry) * outcome
                    * option (N * N * list str * list str)) : bool :=
  let '(a, files, plain, lk, obs, cmd) := c in
  oeq (resolve true (mk_env files plain lk) a) obs &&
  match cmd, obs with
  | None, _ => true
  | Some (tsk, ttr, extra, argv), Built _ b (Some p) => lbeq (build_open_cmd b tsk ttr p extra) argv
  | Some _, _ => false
  end.
(* ssh_parse against an independent reading of the same argv *)
Definition oseq (a b : list str) := lbeq a b.
Definition chk_parse (c : list str * option (str * option str * option str * list str * option str * list str * list str)) : bool :=
  let '(argv, want) := c in
  match ssh_parse argv, want with
  | Usage, None => true
  | Parsed d o cmd, Some (wd, wp, wu, wi, wf, wo, wc) =>
      beq d wd && obeq (s_port o) wp && obeq (s_user o) wu && lbeq (s_ids o) wi && obeq (s_cfgfile o) wf
      && lbeq (s_o o) wo && lbeq cmd wc
  | _, _ => false
  end.
"""


# ------------------------------------------------------------------------------------------------
# property oracle on the implementation (independent of the Coq model)
# ------------------------------------------------------------------------------------------------
def expected_file(root, c, which):
    v = py_value(root, c[which])
    t = c["transport"]
    if "telnet" in t or v is False:
        return ""
    magic, defaults = (MAGIC_CFG, CFG_DEFAULTS) if which == "cfg" else (MAGIC_KH, KH_DEFAULTS)
    p = "" if v is True else v
    if p == "" and t == "system":
        return magic
    for cand in [p] + defaults:
        if cand == "":
            continue
        full = os.path.expanduser(cand)
        if os.path.isfile(full):
            return full
    return ""


def malformed_reasons(root, c):
    os.environ["HOME"] = os.path.join(root, c["home"])
    out = []
    if not c["host"]:
        out.append("ScrapliValueError")
    pv = "omit" if c["port"] == "omit" else py_value(root, c["port"])
    if pv != "omit" and not isinstance(pv, int):
        out.append("ScrapliTypeError")
    key = sym(root, c["key"])
    if key and not (os.path.isfile(key) or os.path.isfile(os.path.expanduser(key))):
        out.append("ScrapliValueError")
    if "telnet" not in c["transport"]:
        for f in ("cfg", "kh"):
            v = py_value(root, c[f])
            if not isinstance(v, (str, bool)):
                out.append("ScrapliTypeError")
    return out


def oracle(root, c, obs, tables):
    """-> (list of (kind, message), entry_known); empty list = the property holds on this case"""
    bad = []
    home = os.path.join(root, c["home"])
    os.environ["HOME"] = home
    mal = malformed_reasons(root, c)
    stripped = c["host"].strip()
    dash = stripped.startswith("-")
    if obs["exc"] is not None:
        if obs["exc"] in mal:
            return bad, True
        if dash and obs["exc"] == "ScrapliValueError":
            return bad, True      # a host that ssh would read as an option may be refused
        return [("valid-input-rejected", "constructor raised %s on a valid argument combination" % obs["exc"])], True
    if mal:
        return bad, True          # accepted although malformed: outside the property (the model still has to agree)
    r, b, p = obs["reported"], obs["base"], obs["plugin"]
    # (1) reported == dialled, on the transport object itself
    if b["host"] != r["host"]:
        bad.append(("host-reported-vs-dialled", "driver.host=%r but the transport dials %r" % (r["host"], b["host"])))
    if b["port"] != r["port"]:
        bad.append(("port-reported-vs-dialled", "driver.port=%r but the transport dials %r" % (r["port"], b["port"])))
    if p is not None:
        for k in ("user", "key", "strict", "cfg", "kh"):
            if p[k] != r[k]:
                bad.append(("%s-reported-vs-dialled" % k, "driver reports %s=%r, transport holds %r" % (k, r[k], p[k])))
    elif "telnet" not in c["transport"]:
        bad.append(("plugin-args-missing", "ssh transport without plugin ssh arguments"))
    # (2) precedence: explicit argument, then ssh config (library transports), then default
    if r["host"] != stripped:
        bad.append(("host-resolution", "driver.host=%r, expected %r" % (r["host"], stripped)))
    exp_cfg, exp_kh = expected_file(root, c, "cfg"), expected_file(root, c, "kh")
    if r["cfg"] != exp_cfg:
        bad.append(("cfgfile-resolution", "ssh_config_file=%r expected %r" % (r["cfg"], exp_cfg)))
    if r["kh"] != exp_kh:
        bad.append(("khfile-resolution", "ssh_known_hosts_file=%r expected %r" % (r["kh"], exp_kh)))
    if r["strict"] is not c["strict"]:
        bad.append(("strict-resolution", "auth_strict_key=%r given %r" % (r["strict"], c["strict"])))
    entry = {"port": None, "user": "", "identity": ""}
    entry_known = True
    if c["transport"] in LIBRARY:
        spec = spec_of_file(root, exp_cfg, home)
        lk = tables[2].get(exp_cfg)
        if spec is None or lk is None:
            entry_known = False
        else:
            entry = spec_lookup(spec, stripped, home)
            seen = {"port": lk["port"] or None, "user": lk["user"], "identity": lk["identity"]}
            if seen != {"port": entry["port"] or None, "user": entry["user"], "identity": entry["identity"]}:
                entry_known = False      # scrapli's lookup differs from the intended entry: C16's business
    if entry_known:
        default = 23 if "telnet" in c["transport"] else 22
        pv = None if c["port"] == "omit" else py_value(root, c["port"])
        exp_port = pv if pv is not None else (entry["port"] or default)
        if r["port"] != exp_port:
            why = "explicit" if pv is not None else ("ssh config" if entry["port"] else "default")
            bad.append(("port-precedence-" + why, "driver.port=%r, expected %r (%s)" % (r["port"], exp_port, why)))
        exp_user = c["user"] or entry["user"]
        if r["user"] != exp_user:
            bad.append(("user-precedence", "auth_username=%r expected %r" % (r["user"], exp_user)))
        key = sym(root, c["key"])
        exp_key = (key if os.path.isfile(key) else os.path.expanduser(key)) if key else entry["identity"]
        if r["key"] != exp_key:
            bad.append(("key-precedence", "auth_private_key=%r expected %r" % (r["key"], exp_key)))
    # (3) system transport: the argv as ssh reads it
    if c["transport"] == "system":
        bad += argv_oracle(c, r, obs["open_cmd"])
    return bad, entry_known


def argv_oracle(c, r, argv):
    bad = []
    if not (isinstance(argv, list) and all(isinstance(x, str) for x in argv) and argv and argv[0] == "ssh"):
        return [("argv-shape", "open_cmd is not a list of str starting with ssh: %r" % (argv,))]
    try:
        ps = py_ssh_parse(argv)
    except SshUsage as e:
        return [("argv-host-as-option" if r["host"].startswith("-") else "argv-usage",
                 "ssh would reject the command line (%s): %r" % (e, argv))]
    if ps["dest"] != r["host"]:
        kind = "argv-host-as-option" if r["host"].startswith("-") else "argv-destination"
        bad.append((kind, "ssh's destination is %r, the driver reports host %r: %r" % (ps["dest"], r["host"], argv)))
        return bad
    extra = c["extra"]
    extra = [] if extra is None else ([extra] if isinstance(extra, str) else list(extra))
    if ps["port"] != str(r["port"]):
        bad.append(("argv-port", "ssh's port is %r, reported %r" % (ps["port"], r["port"])))
    want_user = r["user"] or None
    if not extra and ps["user"] != want_user:
        bad.append(("argv-user", "ssh's login name is %r, reported %r" % (ps["user"], r["user"])))
    if r["user"] and ps["user"] != r["user"]:
        bad.append(("argv-user", "ssh's login name is %r, reported %r" % (ps["user"], r["user"])))
    ids = [x for x in ps["ids"]]
    if (r["key"] and r["key"] not in ids) or (not r["key"] and not extra and ids):
        bad.append(("argv-identity", "ssh's identity files %r, reported key %r" % (ids, r["key"])))
    if not extra:
        want_f = "/dev/null" if r["cfg"] == "" else (None if r["cfg"] == MAGIC_CFG else r["cfg"])
        if ps["cfgfile"] != want_f:
            bad.append(("argv-configfile", "ssh's -F is %r, reported ssh_config_file %r" % (ps["cfgfile"], r["cfg"])))
        if ps["command"]:
            bad.append(("argv-command", "ssh would run a remote command: %r" % (ps["command"],)))
    shk = o_get(ps["o"], "StrictHostKeyChecking")
    if shk != ("yes" if r["strict"] else "no"):
        bad.append(("argv-strict", "StrictHostKeyChecking=%r with auth_strict_key=%r" % (shk, r["strict"])))
    ukh = o_get(ps["o"], "UserKnownHostsFile")
    want_kh = "/dev/null" if not r["strict"] else (None if r["kh"] in ("", MAGIC_KH) else r["kh"])
    if not (extra and want_kh is None) and ukh != want_kh:
        bad.append(("argv-knownhosts", "UserKnownHostsFile=%r, reported %r strict=%r" % (ukh, r["kh"], r["strict"])))
    if o_get(ps["o"], "ConnectTimeout") != str(int(c["tsock"])) or o_get(ps["o"], "ServerAliveInterval") != str(int(c["ttrans"])):
        bad.append(("argv-timeouts", "ConnectTimeout/ServerAliveInterval wrong in %r" % (ps["o"],)))
    return bad


# ------------------------------------------------------------------------------------------------
# the real ssh binary as a reader of the argv (`ssh -G` prints what it understood, connects nowhere)
# ------------------------------------------------------------------------------------------------
SSH_BIN = "/usr/bin/ssh"
PLAIN_RE = re.compile(r"^[A-Za-z0-9][A-Za-z0-9.-]*$")


def real_ssh_G(argv, home):
    env = dict(os.environ, HOME=home)
    try:
        p = subprocess.run([SSH_BIN, "-G"] + argv[1:], env=env, stdout=subprocess.PIPE, stderr=subprocess.PIPE,
                           timeout=20, text=True, errors="replace")
    except Exception:  # noqa
        return None
    if p.returncode != 0:
        return {"rc": p.returncode}
    out = {"rc": 0, "identityfile": []}
    for line in p.stdout.splitlines():
        k, _, v = line.partition(" ")
        if k == "identityfile":
            out["identityfile"].append(v)
        elif k in ("host", "hostname", "port", "user", "stricthostkeychecking", "userknownhostsfile", "connecttimeout"):
            out[k] = v
    return out


def ssh_G_oracle(root, c, obs):
    """only for hosts the real ssh accepts as host names; compares what the real binary understood"""
    r = obs["reported"]
    g = real_ssh_G(obs["open_cmd"], os.path.join(root, c["home"]))
    if g is None:
        return None, []
    if g["rc"] != 0:
        return "rejected", []
    bad = []
    if "host" in g and g["host"] != r["host"]:
        bad.append(("realssh-destination", "real ssh understood host %r, reported %r" % (g["host"], r["host"])))
    if g.get("port") != str(r["port"]) and 0 < r["port"] < 65536:
        bad.append(("realssh-port", "real ssh understood port %r, reported %r" % (g.get("port"), r["port"])))
    if r["user"] and g.get("user") != r["user"]:
        bad.append(("realssh-user", "real ssh understood user %r, reported %r" % (g.get("user"), r["user"])))
    if r["key"] and r["key"] not in g["identityfile"]:
        bad.append(("realssh-identity", "real ssh identity files %r lack %r" % (g["identityfile"], r["key"])))
    want = "true" if r["strict"] else "false"
    if g.get("stricthostkeychecking") not in (want, "yes" if r["strict"] else "no"):
        bad.append(("realssh-strict", "real ssh StrictHostKeyChecking %r, auth_strict_key %r" % (g.get("stricthostkeychecking"), r["strict"])))
    return "ok", bad


# ------------------------------------------------------------------------------------------------
# stand-in ssh binary: what a spawned `ssh` really receives from SystemTransport.open()
# ------------------------------------------------------------------------------------------------
STANDIN = """#!%s
import json, os, sys, time
out = os.environ.get("C17_ARGV_OUT")
if out:
    with open(out + ".tmp", "w") as f:
        json.dump(sys.argv, f)
    os.rename(out + ".tmp", out)
time.sleep(0.2)
"""


def make_standin(root):
    d = os.path.join(root, "bin")
    os.makedirs(d, exist_ok=True)
    p = os.path.join(d, "ssh")
    open(p, "w").write(STANDIN % sys.executable)
    os.chmod(p, os.stat(p).st_mode | stat.S_IXUSR | stat.S_IXGRP | stat.S_IXOTH)
    return d


def run_standin(root, c, bindir, n):
    """open the real SystemTransport with the stand-in first on PATH; returns (open_cmd before spawn, argv received)"""
    home = os.path.join(root, c["home"])
    os.environ["HOME"] = home
    reset_state()
    out = os.path.join(root, "argv_%d.json" % n)
    if os.path.exists(out):
        os.unlink(out)
    old_path = os.environ.get("PATH", "")
    os.environ["PATH"] = bindir + os.pathsep + old_path
    os.environ["C17_ARGV_OUT"] = out
    try:
        d = driver_class(c)(**kwargs_of(root, c))
        d.transport._build_open_cmd()
        before = list(d.transport.open_cmd)
        d.transport.open()
        t0 = time.time()
        while not os.path.exists(out) and time.time() - t0 < 15:
            time.sleep(0.01)
        got = json.load(open(out)) if os.path.exists(out) else None
        try:
            d.transport.close()
        except Exception:  # noqa
            pass
        return before, got, {"host": d.host, "port": d.port}
    finally:
        os.environ["PATH"] = old_path
        os.environ.pop("C17_ARGV_OUT", None)


# ------------------------------------------------------------------------------------------------
# ssh grammar suite: the Coq ssh_parse, the independent Python getopt and the real binary on option soups
# ------------------------------------------------------------------------------------------------
SAFE_FLAGS = "46aACgkKnNqtTvxXYy"
SAFE_ARGS = {"p": ["22", "2022", "65535"], "l": ["bob", "-x", "a b"], "i": ["/nonexistent/id", "idfile"],
             "o": ["ConnectTimeout=5", "StrictHostKeyChecking=no", "ServerAliveInterval=3", "stricthostkeychecking=yes"],
             "F": ["/dev/null"], "c": ["aes128-ctr"], "m": ["hmac-sha2-256"], "b": ["127.0.0.1"], "e": ["none"], "S": ["none"]}


def gen_argv(rng):
    def opts(k):
        out = []
        for _ in range(k):
            r = rng.random()
            if r < 0.25:
                out.append("-" + "".join(rng.choice(SAFE_FLAGS) for _ in range(rng.randint(1, 3))))
            elif r < 0.85:
                o = rng.choice(list(SAFE_ARGS))
                v = rng.choice(SAFE_ARGS[o])
                pre = "".join(rng.choice(SAFE_FLAGS) for _ in range(rng.choice([0, 0, 0, 1, 2])))
                if rng.random() < 0.4:
                    out.append("-" + pre + o + v)
                else:
                    out += ["-" + pre + o, v]
            elif r < 0.90:
                out.append(rng.choice(["-Z", "-:", "-p", "--x", "-o"]))      # errors (when last / unknown)
            else:
                out.append(rng.choice(["--", "-", ""]))
        return out
    host = rng.choice(["r1", "h.example.net", "10.1.2.3", "r1", "-r1", "u@r1", "a b"])
    argv = ["ssh"] + opts(rng.choice([0, 1, 2, 4])) + ([host] if rng.random() < 0.93 else []) + opts(rng.choice([0, 0, 1, 3]))
    if rng.random() < 0.25:
        argv += rng.choice([["uptime"], ["ls", "-l"], ["--", "x"], ["-v"]])
    return argv


def parse_term(argv):
    try:
        ps = py_ssh_parse(argv)
        want = "(Some (%s, %s, %s, %s, %s, %s, %s))" % (
            coq_str(ps["dest"]), coq_opt(ps["port"], coq_str), coq_opt(ps["user"], coq_str),
            coq_list([coq_str(x) for x in ps["ids"]]), coq_opt(ps["cfgfile"], coq_str),
            coq_list([coq_str(x) for x in ps["o"]]), coq_list([coq_str(x) for x in ps["command"]]))
    except SshUsage:
        ps, want = None, "None"
    return ("((%s : list str), (%s : option (str * option str * option str * list str * option str * list str * list str)))"
            % (coq_list([coq_str(x) for x in argv]), want)), ps


def real_vs_py(argv, ps, home):
    """real `ssh -G` against the independent Python reading, where the real binary's value checks cannot interfere"""
    if ps is not None:
        # the real binary also validates VALUES (host / user characters, port range, -o syntax): compare only where
        # every value is one it accepts, so that a rejection can only come from the grammar
        if (not PLAIN_RE.match(ps["dest"]) or "" in argv or (ps["port"] is not None and not ps["port"].isdigit())
                or (ps["user"] is not None and not re.match(r"^[a-z]+$", ps["user"]))
                or any(x not in SAFE_ARGS["o"] for x in ps["o"])
                or (ps["cfgfile"] not in (None, "/dev/null"))):
            return "skip"
    g = real_ssh_G(argv, home)
    if g is None:
        return "skip"
    if ps is None:
        return None if g["rc"] != 0 else "real ssh accepted %r, the grammar model says usage error" % (argv,)
    if g["rc"] != 0:
        return "real ssh rejected %r, the grammar model parses it" % (argv,)
    if g.get("host") != ps["dest"]:
        return "real ssh host %r vs model destination %r for %r" % (g.get("host"), ps["dest"], argv)
    want_port = ps["port"] or o_get(ps["o"], "Port") or "22"
    if g.get("port") != want_port:
        return "real ssh port %r vs %r for %r" % (g.get("port"), want_port, argv)
    want_user = ps["user"] or o_get(ps["o"], "User")
    if want_user and g.get("user") != want_user:
        return "real ssh user %r vs %r for %r" % (g.get("user"), want_user, argv)
    return None



# ------------------------------------------------------------------------------------------------
# dial suite: multi-object histories through the real open(), connect entry points replaced by recorders
# ------------------------------------------------------------------------------------------------
DIAL_TRANSPORTS = ["system", "paramiko", "asyncssh", "telnet", "asynctelnet"]
HEADER_DIAL = """From Coq Require Import String.
From Verif Require Import Bytes Resolve SshArgv OpenHist.
Definition FX : str := %s.
Fixpoint spawns_beq (a b : list (nat * list str)) : bool :=
  match a, b with
  | [], [] => true
  | (i, x) :: a', (j, y) :: b' => Nat.eqb i j && lbeq x y && spawns_beq a' b'
  | _, _ => false
  end.
Definition chk_hist (c : list sys_obj * list hop * list (nat * list str)) : bool :=
  let '(objs, ops, seen) := c in spawns_beq (hist_spawns objs ops) seen.
Definition oseq (a b : option str) : bool :=
  match a, b with Some x, Some y => beq x y | None, None => true | _, _ => false end.
Definition oneq (a b : option N) : bool :=
  match a, b with Some x, Some y => x =? y | None, None => true | _, _ => false end.
Definition chk_kw (c : base_targs * plugin_targs * conn_kwargs * lib_env * (str * N * str)) : bool :=
  let '(b, p, seen, l, (rh, rp, ru)) := c in
  let k := asyncssh_kwargs b p in
  oseq (k_host k) (k_host seen) && oneq (k_port k) (k_port seen) && oseq (k_user k) (k_user seen)
  && let '(mh, mp, mu) := lib_resolve l seen in beq mh rh && (mp =? rp) && beq mu ru.
Definition kw_beq (a b : conn_kwargs) : bool :=
  oseq (k_host a) (k_host b) && oneq (k_port a) (k_port b) && oseq (k_user a) (k_user b).
Fixpoint heap_beq (a b : uheap) : bool :=
  match a, b with [], [] => true | x :: a', y :: b' => kw_beq x y && heap_beq a' b' | _, _ => false end.
Fixpoint conns_beq (a b : list (nat * conn_kwargs)) : bool :=
  match a, b with
  | [], [] => true
  | (i, x) :: a', (j, y) :: b' => Nat.eqb i j && kw_beq x y && conns_beq a' b'
  | _, _ => false
  end.
(* asyncssh objects with the address of the user dict each holds, the dicts at construction, the opens that reached
   connect, the dicts afterwards, the host / port / username keywords of the recorded connect calls *)
Definition chk_as (c : list as_obj * uheap * list nat * uheap * list (nat * conn_kwargs)) : bool :=
  let '(objs, hp, opens, hp1, seen) := c in
  let '(h, ev) := as_run as_open objs hp opens in heap_beq h hp1 && conns_beq ev seen.
Definition chk_dial (c : (list sys_obj * list hop * list (nat * list str))
                         + ((base_targs * plugin_targs * conn_kwargs * lib_env * (str * N * str))
                            + (list as_obj * uheap * list nat * uheap * list (nat * conn_kwargs)))) : bool :=
  match c with inl h => chk_hist h | inr (inl k) => chk_kw k | inr (inr a) => chk_as a end.
"""


def gen_dial_obj(rng, root, t):
    """one valid argument combination for transport t (nothing the constructor refuses)"""
    for _ in range(100):
        c = gen_case(rng)
        c["transport"] = t
        r = rng.random()
        c["host"] = (rng.choice(PLAIN_HOSTS) if r < 0.6 else rng.choice(BLANK_HOSTS) if r < 0.85
                     else rng.choice(EMBEDDED_HOSTS))
        c["extra"] = None
        if t == "system":
            if rng.random() < 0.15:
                c["extra"] = rng.choice([["-v"], "-4", ["-o", "ProxyCommand=none"], ["-p", "9"]])
        else:
            c["tsock"], c["ttrans"] = 15.0, 30.0       # wait_for(connect, timeout_socket): 0 would never run it
        if t in LIBRARY:
            if rng.random() < 0.35:
                c["strict"], c["kh"], c["host"] = True, "$FX/kh1", rng.choice(["r1", " r1 ", "r1\n"])
            else:
                c["strict"] = False
            if rng.random() < 0.3:
                c["cfg"] = rng.choice(["$FX/cfgs/d0", "$FX/cfgs/d1"])
        if not malformed_reasons(root, c):
            return c
    raise RuntimeError("dial suite: no valid object generated")


def gen_history(rng, root):
    """objects (argument combinations) + a schedule of open / close / build over them"""
    r = rng.random()
    k = rng.choice([1, 2, 2, 3, 3, 4])
    if r < 0.5:
        ts = ["system"] * max(k, 2)
    elif r < 0.75:
        ts = [rng.choice(DIAL_TRANSPORTS)] * k
    else:
        ts = [rng.choice(DIAL_TRANSPORTS) for _ in range(k)]
    objs = []
    for t in ts:
        c = gen_dial_obj(rng, root, t)
        if objs and objs[-1]["transport"] == t and rng.random() < 0.4:
            # a neighbour of the previous object: same device, one or two arguments differ (other port,
            # fallback credentials)
            n = dict(objs[-1])
            for f in rng.sample(["host", "port", "user", "key", "cfg"], rng.randint(1, 2)):
                n[f] = c[f]
            if not malformed_reasons(root, n):
                c = n
        objs.append(c)
    order = list(range(len(objs)))
    rng.shuffle(order)
    ops = []
    for i in order:
        if objs[i]["transport"] == "system" and rng.random() < 0.1:
            ops.append(["build", i])
        ops.append(["open", i])
    is_open = set(order)
    for _ in range(rng.randint(0, 2 * len(objs))):
        i = rng.randrange(len(objs))
        if objs[i]["transport"] == "system" and rng.random() < 0.15:
            ops.append(["build", i])
        elif i in is_open:
            ops.append(["close", i])
            is_open.discard(i)
        else:
            ops.append(["open", i])
            is_open.add(i)
    return {"objects": objs, "ops": ops}


def structured_histories():
    """library transports: no username x (no config / config without User / with a User the driver folds /
    with a User only the library's reader accepts / Host * User / the user's own config), explicit username
    as control; and the system transport's plain multi-device shapes"""
    out = []
    for t in ("asyncssh", "paramiko"):
        for user in ("", "admin"):
            for cfg, home in ((False, "home_b"), ("$FX/cfgs/c1", "home_b"), ("$FX/cfgs/c2", "home_b"),
                              ("$FX/cfgs/c5", "home_b"), ("$FX/cfgs/d0", "home_b"), ("$FX/cfgs/d1", "home_b"),
                              (True, "home_a")):
                for host in ("r1", "zz9"):
                    out.append({"objects": [full_case({"transport": t, "host": host, "user": user, "cfg": cfg,
                                                       "home": home, "strict": False})], "ops": [["open", 0]]})
        # an explicit port that equals the library's default, with a config that has a Port for the host
        for user in ("", "admin"):
            for cfg in ("$FX/cfgs/c1", "$FX/cfgs/c2", "$FX/cfgs/d1"):
                out.append({"objects": [full_case({"transport": t, "host": "r1", "port": 22, "user": user, "cfg": cfg,
                                                   "strict": False})], "ops": [["open", 0]]})
    devs = [full_case({"host": "core-sw.example.net", "port": 22, "user": "admin", "strict": False}),
            full_case({"host": "10.0.0.1", "port": 2222, "user": "a b", "strict": False}),
            full_case({"host": "zz9", "user": "-x", "strict": True, "kh": "$FX/kh1", "cfg": "$FX/cfgs/c1"})]
    out.append({"objects": devs, "ops": [["open", 0], ["open", 1], ["open", 2]]})
    out.append({"objects": devs, "ops": [["open", 2], ["close", 2], ["open", 0], ["close", 0], ["open", 1], ["open", 2]]})
    out.append({"objects": [devs[0], dict(devs[0], port=830, user="a b")],
                "ops": [["open", 0], ["close", 0], ["open", 1], ["open", 0]]})
    out.append({"objects": [devs[0], dict(devs[0], user="")], "ops": [["build", 1], ["open", 1], ["open", 0], ["close", 1], ["open", 1]]})
    for t in ("telnet", "asynctelnet", "paramiko", "asyncssh"):
        a = full_case({"transport": t, "host": "r1", "port": 2022, "user": "admin", "strict": False})
        b = full_case({"transport": t, "host": " zz9 ", "user": "", "strict": False})
        out.append({"objects": [a, b], "ops": [["open", 0], ["open", 1], ["close", 0], ["open", 0]]})
    return out


# transport_options a site passes for a whole inventory, per transport that reads them (system: open_cmd, ptyprocess;
# paramiko: enable_rsa2; asyncssh: the asyncssh dict) — none of them names a host / port / user / key / file
SHARE_MODES = ("same", "inner", "copies")
SHARED_TOPTS = {
    "system": [{"open_cmd": ["-o", "KexAlgorithms=+diffie-hellman-group14-sha1"], "ptyprocess": {"rows": 24, "cols": 132}},
               {"ptyprocess": {"echo": False}}],
    "paramiko": [{"enable_rsa2": True}],
    "asyncssh": [{"asyncssh": {"kex_algs": ["ecdh-sha2-nistp256"], "encryption_algs": ["aes256-ctr"], "keepalive_interval": 30}},
                 {"asyncssh": {}}],
    "telnet": [{"site": {"rack": "b2"}}],
    "asynctelnet": [{"site": {"rack": "b2"}}],
}
ASYNCSSH_OPT_POOL = [("kex_algs", ["ecdh-sha2-nistp256"]), ("encryption_algs", ["aes256-ctr", "aes128-ctr"]),
                     ("mac_algs", ["hmac-sha2-256"]), ("keepalive_interval", 30), ("login_timeout", 20),
                     ("agent_path", "/nonexistent/agent.sock"), ("compression_algs", ["none"])]


def with_topts(c, topts):
    d = dict(c)
    d["topts"] = copy.deepcopy(topts)
    d["extra"] = d["topts"].get("open_cmd")
    return d


def shared_devs(t):
    """three devices of one inventory: differ in host, port, username, key, strictness / known-hosts and config"""
    return [full_case({"transport": t, "host": "core-sw.example.net", "port": 22, "user": "admin", "strict": False}),
            full_case({"transport": t, "host": "10.0.0.1", "port": 2222, "user": "netops", "key": "$FX/key1", "strict": False}),
            full_case({"transport": t, "host": "r1", "user": "", "strict": True, "kh": "$FX/kh1",
                       "cfg": "$FX/cfgs/c1" if t in LIBRARY else False})]


def shared_histories():
    """2-3 drivers constructed with the SAME transport_options object ("same"), with distinct outer dicts holding the
    same inner objects ("inner": dict(defaults) / **defaults), and with equal-but-distinct copies ("copies", the
    control) — for every transport that reads transport_options, opened in every order, then the first one opened is
    closed and opened again (after all the others have been through open())"""
    out = []
    for t in ("system", "paramiko", "asyncssh"):
        for topts in SHARED_TOPTS[t]:
            for n in (2, 3):
                objs = [with_topts(c, topts) for c in shared_devs(t)[:n]]
                perms = list(itertools.permutations(range(n)))
                for mode in SHARE_MODES:
                    for order in (perms if mode != "copies" else [perms[0], perms[-1]]):
                        ops = [["open", i] for i in order] + [["close", order[0]], ["open", order[0]]]
                        out.append({"objects": objs, "ops": ops, "share": [[mode, list(range(n))]]})
    return out


def gen_shared_history(rng, root):
    """random neighbours of the above: any transport, random devices and option dicts, all or two of three objects in
    the group, shuffled opens then random close / re-open"""
    t = rng.choice(["asyncssh"] * 3 + ["system"] * 2 + ["paramiko"] * 2 + ["telnet", "asynctelnet"])
    n = rng.choice([2, 2, 3])
    if t == "asyncssh" and rng.random() < 0.7:
        topts = {"asyncssh": dict(rng.sample(ASYNCSSH_OPT_POOL, rng.randint(0, 4)))}
    elif t == "system" and rng.random() < 0.5:
        topts = {"open_cmd": rng.choice([["-v"], "-4", ["-o", "ProxyCommand=none"], ["-o", "Ciphers=aes256-ctr", "-C"]])}
        if rng.random() < 0.5:
            topts["ptyprocess"] = {"rows": rng.choice([24, 80]), "cols": rng.choice([80, 256])}
    else:
        topts = rng.choice(SHARED_TOPTS[t])
    objs = []
    for _ in range(n):
        c = gen_dial_obj(rng, root, t)
        c["extra"] = None
        objs.append(with_topts(c, topts))
    members = list(range(n))
    if n == 3 and rng.random() < 0.3:
        members = sorted(rng.sample(members, 2))
    rng.shuffle(members)                       # the first member's object is the one the others are given
    mode = rng.choice(["same"] * 9 + ["inner"] * 7 + ["copies"] * 4)
    order = list(range(n))
    rng.shuffle(order)
    ops = [["open", i] for i in order]
    is_open = set(order)
    for _ in range(rng.randint(0, 2 * n)):
        i = rng.randrange(n)
        if i in is_open:
            ops.append(["close", i])
            is_open.discard(i)
        else:
            ops.append(["open", i])
            is_open.add(i)
    return {"objects": objs, "ops": ops, "share": [[mode, members]]}


def user_options(root, h):
    """the transport_options OBJECT each constructor is handed (None = argument omitted).  h["share"] = [[mode,
    [members]]]: "same" = the members are given ONE dict object (the first member's), "inner" = each its own outer dict
    whose values are the SAME objects, "copies" = equal but distinct deep copies (what every object gets anyway)"""
    outs = [kwargs_of(root, c).get("transport_options") for c in h["objects"]]
    for mode, members in h.get("share", []):
        if (mode not in SHARE_MODES or len(set(members)) != len(members) or not members
                or not all(isinstance(m, int) and 0 <= m < len(outs) for m in members)):
            raise ValueError("history: bad share group %r" % ((mode, members),))
        first = outs[members[0]]
        if first is None or any(outs[m] != first for m in members):
            raise ValueError("history: share group %r over objects without / with different transport_options" % (members,))
        for m in members[1:]:
            if mode == "same":
                outs[m] = first
            elif mode == "inner":
                outs[m] = dict(first)
    return outs


def reported_of(d):
    return {"host": d.host, "port": d.port, "user": d.auth_username, "key": d.auth_private_key,
            "strict": d.auth_strict_key, "cfg": d.ssh_config_file, "kh": d.ssh_known_hosts_file}


def held_of(d):
    """the arguments the transport OBJECT holds (the model's input for the history / keyword theorems)"""
    tr = d.transport
    bta, pta = tr._base_transport_args, tr.plugin_transport_args
    if not hasattr(pta, "auth_username"):
        return None
    ex = bta.transport_options.get("open_cmd", [])
    return {"host": bta.host, "port": bta.port, "tsock": int(bta.timeout_socket), "ttrans": int(bta.timeout_transport),
            "user": pta.auth_username, "key": pta.auth_private_key, "strict": pta.auth_strict_key,
            "cfg": pta.ssh_config_file, "kh": pta.ssh_known_hosts_file, "extra": [ex] if isinstance(ex, str) else list(ex)}


def run_history(root, h, loop, users_out=None):
    """-> (steps, drivers) ; must run inside dial.patched().  A step = one operation on one object with the
    records the recorders made during it, what the driver reports at that moment, and which of the
    transport_options objects the user passed (all objects of the history) no longer are what they were."""
    drivers = []
    dial.restore_process_state()
    uopts = user_options(root, h)
    # what the user wrote, taken before any constructor has seen the object
    users = [{"obj": o, "was": copy.deepcopy(o)} for o in uopts]
    for c, o in zip(h["objects"], uopts):
        os.environ["HOME"] = os.path.join(root, c["home"])
        reset_state()
        kw = kwargs_of(root, c)
        kw.pop("transport_options", None)
        if o is not None:
            kw["transport_options"] = o
        kw["auth_password"] = "pw"
        drivers.append(driver_class(c)(**kw))
    if users_out is not None:
        users_out.extend(users)
    last = [copy.deepcopy(u["was"]) for u in users]      # a constructor that wrote into the object shows at the first step
    steps = []
    for op, i in h["ops"]:
        c, d = h["objects"][i], drivers[i]
        os.environ["HOME"] = os.path.join(root, c["home"])
        recs, exc = [], None
        if op == "open":
            recs, exc = dial.do_open(d.transport, loop)
        elif op == "close":
            exc = dial.do_close(d.transport)
        else:
            d.transport._build_open_cmd()
        changed = []
        for j, u in enumerate(users):
            if u["obj"] != last[j]:
                changed.append([j, u["was"], copy.deepcopy(u["obj"])])
                last[j] = copy.deepcopy(u["obj"])
        steps.append({"op": op, "i": i, "records": [[k, p] for k, p in recs], "exc": exc, "reported": reported_of(d),
                      "options_given": users[i]["was"], "options_changed": changed})
    return steps, drivers


def dial_oracle(root, c, r, recs, exc, first_open, stats=None, given=None):
    """one open() of one object: every recorded connect / spawn / auth call against what THAT driver reports (and,
    given = the transport_options the user wrote for this object: the options addressed to the transport are in the
    call as written)"""
    bad = []
    t = c["transport"]
    os.environ["HOME"] = os.path.join(root, c["home"])

    def cmp(kind, what, got, want):
        if got != want or type(got) is not type(want):
            bad.append((kind, "%s: the transport connects with %r, the driver reports %r" % (what, got, want)))

    if not recs:
        if t in LIBRARY and r["strict"] and exc == "ScrapliAuthenticationFailed":
            if stats is not None:
                stats["not_reached_strict"] += 1          # host key refused before anything is dialled
        elif first_open or t in ("system", "telnet", "asynctelnet", "asyncssh"):
            bad.append(("dial-nothing-recorded", "open() of a %s transport reached no connect entry point (%s)" % (t, exc)))
        return bad
    n_main = 0
    for kind, p in recs:
        if kind == "spawn":
            n_main += 1
            if t != "system":
                bad.append(("dial-foreign-spawn", "a %s transport spawned %r" % (t, p["argv"])))
                continue
            bad += [("dial-" + k, m) for k, m in argv_oracle(c, r, p["argv"])]
            ex = (given or {}).get("open_cmd", [])
            ex = [ex] if isinstance(ex, str) else list(ex)
            if ex and not (isinstance(p["argv"], list) and p["argv"][-len(ex):] == ex):
                bad.append(("dial-user-option", "the user's open_cmd arguments %r are not the end of the ssh command line %r"
                            % (ex, p["argv"])))
        elif kind in ("socket", "open_connection"):
            n_main += 1
            cmp("dial-host", kind + " host", p["host"], r["host"])
            cmp("dial-port", kind + " port", p["port"], r["port"])
        elif kind == "paramiko_auth":
            cmp("dial-user", p["call"] + " username", p["username"], r["user"])
            if p["call"] == "auth_publickey":
                cmp("dial-key", "auth_publickey key file", p["key_file"], r["key"])
        elif kind == "asyncssh_connect":
            n_main += 1
            kw = p["kwargs"]
            if p["args"]:
                bad.append(("dial-positional", "asyncssh.connect called with positional arguments %r" % (p["args"],)))
                continue
            res, err = dial.resolve_asyncssh(kw)
            if res is None:
                missing = [k for k in ("host", "port", "username", "client_keys", "config") if k not in kw]
                if stats is not None:
                    stats["asyncssh_unresolved"] += 1
                if missing:
                    bad.append(("dial-unresolvable", "asyncssh.connect without %s; the library's own resolution fails with %s"
                                % (missing, err)))
                continue
            if stats is not None:
                stats["asyncssh_resolved"] += 1
            p["resolved"] = res
            absent = [k for k in ("host", "port", "username") if k not in kw]
            note = (" (keyword%s %s absent: resolved by asyncssh itself)" % ("s" if len(absent) > 1 else "", ", ".join(absent))) if absent else ""
            cmp("dial-host", "asyncssh host" + note, res["host"], r["host"])
            cmp("dial-port", "asyncssh port" + note, res["port"], r["port"])
            cmp("dial-user", "asyncssh username" + note, res["username"], r["user"])
            ck = kw.get("client_keys", dial.ABSENT)
            if isinstance(ck, str) and ck not in ("", dial.ABSENT):
                cmp("dial-key", "asyncssh client_keys", ck, r["key"])
            elif ck == "" or ck == dial.ABSENT:
                if r["key"] or res["loads_own_keys"]:
                    bad.append(("dial-key", "asyncssh client_keys %s: the library %s, the driver reports key %r"
                                % ("absent" if ck == dial.ABSENT else "''",
                                   "loads keys of its own choice" if res["loads_own_keys"] else "uses none", r["key"])))
            else:
                bad.append(("dial-key", "asyncssh client_keys=%r, the driver reports %r" % (ck, r["key"])))
            want_kh = r["kh"] if r["strict"] else None
            if kw.get("known_hosts", dial.ABSENT) != want_kh:
                bad.append(("dial-knownhosts", "asyncssh known_hosts=%r, the driver reports strict=%r known hosts %r"
                            % (kw.get("known_hosts", dial.ABSENT), r["strict"], r["kh"])))
            if kw.get("config", dial.ABSENT) != r["cfg"]:
                bad.append(("dial-config", "asyncssh config=%r, the driver reports ssh_config_file %r"
                            % (kw.get("config", dial.ABSENT), r["cfg"])))
            for ok, ov in sorted(((given or {}).get("asyncssh") or {}).items()):
                if ok not in kw or kw[ok] != ov:
                    bad.append(("dial-user-option", "the user's asyncssh option %s=%r reaches asyncssh.connect as %r"
                                % (ok, ov, kw.get(ok, dial.ABSENT))))
        else:
            bad.append(("dial-unknown-record", "%r" % ((kind, p),)))
    if t in ("system", "telnet", "asynctelnet", "asyncssh") and n_main != 1:
        bad.append(("dial-count", "one open() of a %s transport made %d connect calls" % (t, n_main)))
    return bad


def check_history(root, h, loop, stats=None, users_out=None):
    """-> (steps, drivers, failures [(step index, kind, msg)])"""
    steps, drivers = run_history(root, h, loop, users_out)
    fails, opened = [], set()
    for n, st in enumerate(steps):
        for j, was, now in st["options_changed"]:
            # whatever the operation: the user's object is the user's
            fails.append((n, "dial-options-mutated", "object %d of %d [%s]: %s() changed the transport_options object the user "
                          "passed to object %d: was %r, is now %r" % (st["i"], len(h["objects"]), h["objects"][st["i"]]["transport"],
                                                                    st["op"], j, was, now)))
        if stats is not None:
            stats["options_objects_compared"] += sum(1 for c in h["objects"] if c.get("topts") is not None or c["extra"] is not None)
        if st["op"] != "open":
            if st["exc"]:
                fails.append((n, "dial-%s-raised" % st["op"], "%s() raised %s" % (st["op"], st["exc"])))
            continue
        c = h["objects"][st["i"]]
        recs = [(k, p) for k, p in st["records"]]
        for kind, msg in dial_oracle(root, c, st["reported"], recs, st["exc"], st["i"] not in opened, stats, st["options_given"]):
            fails.append((n, kind, "object %d of %d [%s]: %s" % (st["i"], len(h["objects"]), c["transport"], msg)))
        opened.add(st["i"])
    return steps, drivers, fails


def shrink_history(root, h, kind, loop):
    """greedy: drop operations and objects while a failure of the same kind remains"""
    def fails(x):
        try:
            return any(k == kind for _, k, _ in check_history(root, x, loop)[2])
        except Exception:  # noqa
            return False
    cur = {"objects": list(h["objects"]), "ops": [list(o) for o in h["ops"]],
           "share": [[m, list(ms)] for m, ms in h.get("share", [])]}
    changed = True
    while changed:
        changed = False
        for n in range(len(cur["ops"]) - 1, -1, -1):
            cand = dict(cur, ops=cur["ops"][:n] + cur["ops"][n + 1:])
            if cand["ops"] and fails(cand):
                cur, changed = cand, True
        for j in range(len(cur["objects"]) - 1, -1, -1):
            if len(cur["objects"]) < 2:
                break
            ops = [[o, i - (1 if i > j else 0)] for o, i in cur["ops"] if i != j]
            share = [[m, [i - (1 if i > j else 0) for i in ms if i != j]] for m, ms in cur["share"]]
            cand = {"objects": cur["objects"][:j] + cur["objects"][j + 1:], "ops": ops, "share": [g for g in share if g[1]]}
            if ops and fails(cand):
                cur, changed = cand, True
    if not cur["share"]:
        del cur["share"]
    return cur


def hist_term(h, steps, drivers):
    """the system objects of a history, as the transports hold them, + the schedule + the observed spawns"""
    idx = {}
    objs = []
    for i, (c, d) in enumerate(zip(h["objects"], drivers)):
        if c["transport"] != "system":
            continue
        hd = held_of(d)
        if (hd is None or not all(isinstance(hd[k], str) for k in ("host", "user", "key", "cfg", "kh"))
                or not isinstance(hd["port"], int) or isinstance(hd["port"], bool) or hd["port"] < 0
                or not all(isinstance(x, str) for x in hd["extra"])):
            return None
        idx[i] = len(objs)
        objs.append("(mkSO (mkB %s %d) %d %d (mkP %s %s %s %s %s) %s)" % (
            coq_str(hd["host"]), hd["port"], hd["tsock"], hd["ttrans"], coq_str(hd["user"]), coq_str(hd["key"]),
            coq_bool(hd["strict"]), coq_str(hd["cfg"]), coq_str(hd["kh"]), coq_list([coq_str(x) for x in hd["extra"]])))
    if not objs:
        return None
    ops, seen = [], []
    for st in steps:
        if st["i"] not in idx:
            continue
        ops.append("(%s %d%%nat)" % ({"open": "HOpen", "close": "HClose", "build": "HBuild"}[st["op"]], idx[st["i"]]))
        for k, p in st["records"]:
            if k == "spawn":
                if not (isinstance(p["argv"], list) and all(isinstance(x, str) for x in p["argv"])):
                    return None
                seen.append("(%d%%nat, %s)" % (idx[st["i"]], coq_list([coq_str(x) for x in p["argv"]])))
    return "((%s : list sys_obj), (%s : list hop), (%s : list (nat * list str)))" % (coq_list(objs), coq_list(ops), coq_list(seen))


def kw_terms(root, h, steps, drivers):
    """asyncssh connect calls: keywords present / absent + the library's resolution, for the model's
    asyncssh_kwargs / lib_resolve"""
    out = []
    for st in steps:
        c, d = h["objects"][st["i"]], drivers[st["i"]]
        if c["transport"] != "asyncssh":
            continue
        hd = held_of(d)
        for k, p in st["records"]:
            if k != "asyncssh_connect" or "resolved" not in p or hd is None:
                continue
            kw, res = p["kwargs"], p["resolved"]
            vals = [kw.get("host", ""), kw.get("username", ""), res["host"], res["username"], hd["host"], hd["user"]]
            ints = [kw.get("port", 0), res["port"], hd["port"]]
            if not all(isinstance(x, str) for x in vals) or not all(isinstance(x, int) and not isinstance(x, bool) and x >= 0 for x in ints):
                continue
            # what the library takes where a keyword is absent: ask it, with host / port / username left out
            os.environ["HOME"] = os.path.join(root, c["home"])
            bare = {x: v for x, v in kw.items() if x not in ("port", "username")}
            lres, _ = dial.resolve_asyncssh(bare)
            if lres is None or not isinstance(lres["username"], str) or not isinstance(lres["port"], int):
                continue
            seen = "(mkK %s %s %s)" % (coq_opt(kw.get("host"), coq_str), coq_opt(kw.get("port"), str), coq_opt(kw.get("username"), coq_str))
            out.append("(mkB %s %d, mkP %s %s %s %s %s, %s, mkL [] %d %s, (%s, %d, %s))" % (
                coq_str(hd["host"]), hd["port"], coq_str(hd["user"]), coq_str(hd["key"]), coq_bool(hd["strict"]),
                coq_str(hd["cfg"]), coq_str(hd["kh"]), seen, lres["port"], coq_str(lres["username"]),
                coq_str(res["host"]), res["port"], coq_str(res["username"])))
    return out


def as_term(h, steps, drivers, users):
    """the asyncssh objects of a history as the transports hold them, each with the ADDRESS of the dict its open()
    reads as transport_options["asyncssh"] (identity of the held object: two objects holding one dict get one address),
    the dicts as the user wrote them, the opens that reached connect, the dicts afterwards, the host / port / username
    keywords of the recorded calls — for model/OpenHist.v as_run as_open"""
    def kdict(d):
        hv, pv, uv = d.get("host"), d.get("port"), d.get("username")
        if not ((hv is None or isinstance(hv, str)) and (uv is None or isinstance(uv, str))
                and (pv is None or (isinstance(pv, int) and not isinstance(pv, bool) and pv >= 0))):
            return None
        return "(mkK %s %s %s)" % (coq_opt(hv, coq_str), coq_opt(pv, str), coq_opt(uv, coq_str))
    idx, objs, heap0, heap1, addr = {}, [], [], [], {}
    for i, (c, d) in enumerate(zip(h["objects"], drivers)):
        if c["transport"] != "asyncssh":
            continue
        hd = held_of(d)
        if (hd is None or not all(isinstance(hd[k], str) for k in ("host", "user", "key", "cfg", "kh"))
                or not isinstance(hd["port"], int) or isinstance(hd["port"], bool) or hd["port"] < 0):
            return None
        inner = d.transport._base_transport_args.transport_options.get("asyncssh")
        if inner is None:
            a = len(heap0)                       # no dict: open() reads a fresh empty one
            heap0.append("kw_empty")
            heap1.append("kw_empty")
        else:
            uo = users[i]["obj"]
            if not (isinstance(inner, dict) and isinstance(uo, dict) and uo.get("asyncssh") is inner):
                return None                      # the transport holds a dict that is not the user's
            if id(inner) not in addr:
                k0, k1 = kdict(users[i]["was"]["asyncssh"]), kdict(inner)
                if k0 is None or k1 is None:
                    return None
                addr[id(inner)] = len(heap0)
                heap0.append(k0)
                heap1.append(k1)
            a = addr[id(inner)]
        idx[i] = len(objs)
        objs.append("(mkAO (mkB %s %d) (mkP %s %s %s %s %s) %d%%nat)" % (
            coq_str(hd["host"]), hd["port"], coq_str(hd["user"]), coq_str(hd["key"]), coq_bool(hd["strict"]),
            coq_str(hd["cfg"]), coq_str(hd["kh"]), a))
    if not objs:
        return None
    opens, seen = [], []
    for st in steps:
        if st["i"] not in idx or st["op"] != "open":
            continue
        calls = [p for k, p in st["records"] if k == "asyncssh_connect"]
        if not calls:
            continue                             # refused before the dial (strict key)
        if len(calls) != 1 or calls[0]["args"]:
            return None
        k = kdict(calls[0]["kwargs"])
        if k is None:
            return None
        opens.append("%d%%nat" % idx[st["i"]])
        seen.append("(%d%%nat, %s)" % (idx[st["i"]], k))
    if not opens:
        return None
    return "((%s : list as_obj), (%s : uheap), (%s : list nat), (%s : uheap), (%s : list (nat * conn_kwargs)))" % (
        coq_list(objs), coq_list(heap0), coq_list(opens), coq_list(heap1), coq_list(seen))


def run_dial_suite(rep, root, rng, header_dial, oracle_fail_out):
    """returns coverage dict; appends violations itself (with a shrunk history as the replay input)"""
    thorough = rep.tier == "thorough"
    hists = structured_histories()
    n_struct = len(hists)
    hists += [gen_history(rng, root) for _ in range(1500 if thorough else 170)]
    # transport_options objects shared between the objects of a history (drawn after the above: same stream as before)
    sh = shared_histories()
    n_struct += len(sh)
    hists += sh + [gen_shared_history(rng, root) for _ in range(400 if thorough else 40)]
    stats = {"histories": len(hists), "structured": n_struct, "class_or_module_level_containers_reset": dial.snapshot_process_state(), "objects": 0, "opens": 0, "reopens": 0, "builds": 0,
             "by_transport": {}, "objects_per_history": {}, "records": {}, "not_reached_strict": 0,
             "asyncssh_resolved": 0, "asyncssh_unresolved": 0, "asyncssh_no_username": 0,
             "asyncssh_no_username_config_has_user": 0, "failures": 0, "constructor_raised": 0,
             "shared_options": {"histories": 0, "by_mode": {}, "by_transport": {}, "opens_of_a_later_member": 0},
             "options_objects_compared": 0, "model_shared_dict_skipped": 0}
    hterms, kterms, aterms, reported_kinds = [], [], [], set()
    t_start = time.time()
    loop = dial.Loop()
    try:
        with dial.patched():
            for h in hists:
                try:
                    users = []
                    steps, drivers, fails = check_history(root, h, loop, stats, users)
                except Exception as e:  # noqa  (a constructor refused a valid combination: the resolve suite reports that)
                    stats["constructor_raised"] += 1
                    rep.notes.append("dial suite: history not run (%s: %s) %r" % (type(e).__name__, e, h))
                    continue
                stats["objects"] += len(h["objects"])
                k = str(len(h["objects"]))
                stats["objects_per_history"][k] = stats["objects_per_history"].get(k, 0) + 1
                seen_open = set()
                for st in steps:
                    t = h["objects"][st["i"]]["transport"]
                    if st["op"] == "open":
                        stats["opens"] += 1
                        stats["by_transport"][t] = stats["by_transport"].get(t, 0) + 1
                        if st["i"] in seen_open:
                            stats["reopens"] += 1
                        seen_open.add(st["i"])
                        if t == "asyncssh" and st["reported"]["user"] == "":
                            stats["asyncssh_no_username"] += 1
                            if os.path.basename(str(st["reported"]["cfg"])) in DIAL_CFGS:
                                stats["asyncssh_no_username_config_has_user"] += 1
                    elif st["op"] == "build":
                        stats["builds"] += 1
                    for kk, _ in st["records"]:
                        stats["records"][kk] = stats["records"].get(kk, 0) + 1
                rep.case("dial:" + json.dumps(h, sort_keys=True), nontrivial=len(h["objects"]) > 1 or len(h["ops"]) > 1
                         or h["objects"][0]["transport"] in LIBRARY)
                ht = hist_term(h, steps, drivers)
                if ht is not None:
                    hterms.append(ht)
                kterms += kw_terms(root, h, steps, drivers)
                if any(c["transport"] == "asyncssh" for c in h["objects"]):
                    at = as_term(h, steps, drivers, users)
                    if at is not None:
                        aterms.append(at)
                    else:
                        stats["model_shared_dict_skipped"] += 1
                for mode, members in h.get("share", []):
                    so = stats["shared_options"]
                    so["histories"] += 1
                    so["by_mode"][mode] = so["by_mode"].get(mode, 0) + 1
                    t0 = h["objects"][members[0]]["transport"]
                    so["by_transport"][t0] = so["by_transport"].get(t0, 0) + 1
                    first_opened = next((st["i"] for st in steps if st["op"] == "open" and st["i"] in members), None)
                    so["opens_of_a_later_member"] += sum(1 for st in steps if st["op"] == "open" and st["i"] in members
                                                         and st["i"] != first_opened)
                if fails:
                    stats["failures"] += 1
                for n, kind, msg in fails:
                    key = (kind, h["objects"][steps[n]["i"]]["transport"])
                    if key in reported_kinds or len(reported_kinds) >= 4:
                        continue
                    reported_kinds.add(key)
                    small = shrink_history(root, h, kind, loop)
                    s_steps, _, s_fails = check_history(root, small, loop)
                    s_msg = next((m for _, k2, m in s_fails if k2 == kind), msg)
                    rep.violation("%s: %s" % (kind, s_msg),
                                  {"suite": "dial", "kind": kind, "history": small, "observed": s_steps,
                                   "found_in": h, "rerun": "./check C17 --replay <this file>"}, signature="c17-" + kind)
                    oracle_fail_out.append(kind)
    finally:
        loop.close()
    stats["wall_s_python"] = round(time.time() - t_start, 2)
    if stats["asyncssh_resolved"] == 0 or not hterms or not aterms or not stats["shared_options"]["opens_of_a_later_member"]:
        rep.broken.append("dial suite: nothing resolved / no system history / no shared options (vacuous)")
    # one evaluation for both kinds of case; elaborating the terms is what costs, so they are dealt by size into
    # ~8 shards of similar weight (the shards run in parallel)
    tagged = sorted([(len(x), 0, i, "(inl %s)" % x) for i, x in enumerate(hterms)]
                    + [(len(x), 1, i, "(inr (inl %s))" % x) for i, x in enumerate(kterms)]
                    + [(len(x), 2, i, "(inr (inr %s))" % x) for i, x in enumerate(aterms)], reverse=True)
    n_sh = 16 if thorough else 8
    order = [tg for k in range(n_sh) for tg in tagged[k::n_sh]]
    allb, alog = common.eval_cases(rep.workdir, "cases_c17_dial", header_dial, [tg[3] for tg in order], "chk_dial",
                                   shard=max(1, -(-len(order) // n_sh)))
    hb = None if allb is None else [order[i][2] for i in allb if order[i][1] == 0]
    kb = None if allb is None else [order[i][2] for i in allb if order[i][1] == 1]
    ab = None if allb is None else [order[i][2] for i in allb if order[i][1] == 2]
    stats["wall_s_total"] = round(time.time() - t_start, 2)
    stats["model_history_cases"] = len(hterms)
    stats["model_history_disagreements"] = None if hb is None else len(hb)
    stats["model_kwargs_cases"] = len(kterms)
    stats["model_kwargs_disagreements"] = None if kb is None else len(kb)
    stats["model_shared_dict_cases"] = len(aterms)
    stats["model_shared_dict_disagreements"] = None if ab is None else len(ab)
    for what, b, log in (("history", hb, alog), ("asyncssh keywords", kb, alog), ("asyncssh user-dict history", ab, alog)):
        if b is None:
            rep.broken.append("dial suite: model evaluation failed (%s)" % what)
            rep.notes.append(log)
        elif b and not oracle_fail_out:
            # the model of open() over several objects / of the connect keywords differs from the code although
            # every recorded call agrees with what its driver reports
            rep.broken.append("dial suite: model differs from the implementation on %d %s case(s) where the oracle is satisfied"
                              % (len(b), what))
        elif b:
            rep.notes.append("dial suite: model/implementation disagreement on %d %s case(s) (oracle failed too)" % (len(b), what))
    return stats

# ------------------------------------------------------------------------------------------------
def run(rep):
    from gen import gen_resolve

    rng = rep.rng
    thorough = rep.tier == "thorough"
    ssh2_kind = ensure_ssh2_importable()
    dial.snapshot_process_state()                # before the first transport object exists
    # 1. regenerate from the source
    info = {}
    try:
        _, info = gen_resolve.generate(rep.workdir)
        rc, out, _ = common.coqc(os.path.join(rep.workdir, "Gen_Resolve.v"), rep.workdir)
        if rc:
            rep.broken.append("Gen_Resolve.v")
            rep.notes.append(out[-2000:])
    except Exception as e:  # translator aborted: broken tie
        rep.broken.append("gen_resolve:%s" % e)
    # 2. proofs
    ok, _ = rep.build_static()
    rep.add_static_obligations("props/C17.v", ok)
    if not ok:
        rep.broken.append("static-build")
    if ok and not [b for b in rep.broken if b.startswith("Gen_") or b.startswith("static")]:
        if not [b for b in rep.broken if b.startswith("gen_resolve")]:
            rep.compile_props("props/C17.v")
    # 3. correspondence + oracle over the real constructors
    root = make_fixture(rep.workdir)
    set_prefix(root)
    header = HEADER % _plain(root)
    n_rand = 12000 if thorough else 1400
    n_mal = 1500 if thorough else 200
    cases = [full_case(c) for c in CORPUS]
    # the replays of the listed (fixed) findings are regression cases
    for f in rep.findings:
        fp = os.path.join(common.VERIF, f.get("replay", ""))
        if f.get("replay") and os.path.exists(fp):
            fc = json.load(open(fp)).get("case")
            if fc:
                cases.append(full_case(fc))
    # every transport x explicit/omitted port x config with/without Port x host shape (the structured product)
    for t in TRANSPORTS:
        for port in ("omit", 22, 2022):
            for cfg in (False, "$FX/cfgs/c1", "$FX/cfgs/c2", "$FX/cfgs/c3", "$FX/cfgs/c5", True):
                for host in ("r1", " r1 ", "zz 9", "-zz9"):
                    for home in ("home_a", "home_b"):
                        cases.append(full_case({"transport": t, "port": port, "cfg": cfg, "host": host, "home": home,
                                                "kh": rng.choice([False, True, "$FX/kh1"]), "strict": rng.random() < 0.5,
                                                "user": rng.choice(["", "admin"]), "key": rng.choice(["", "$FX/key1"])}))
    n_struct = len(cases)
    cases += [gen_case(rng) for _ in range(n_rand)]
    cases += [gen_case(rng, malformed=True) for _ in range(n_mal)]
    dist = {"cases": len(cases), "structured_product": n_struct, "random": n_rand, "malformed": n_mal, "by_transport": {},
            "host_shape": {"plain": 0, "surrounding_blank": 0, "embedded_blank": 0, "leading_dash": 0, "other": 0},
            "port": {"omitted": 0, "explicit": 0, "not_int": 0}, "cfg_arg": {}, "kh_arg": {}, "outcome": {},
            "config_supplies": {"port": 0, "user": 0, "identity": 0}, "explicit_port_and_config_port": 0,
            "lookup_not_as_intended": 0, "real_ssh_G": {"ok": 0, "rejected": 0, "unavailable": 0},
            "driver_class": {}, "ssh2_package": ssh2_kind}
    terms, kept, oracle_fail = [], [], []
    have_ssh = os.path.exists(SSH_BIN)
    g_budget = 4000 if thorough else 150
    for i, c in enumerate(cases):
        tables = env_tables(root, c)
        obs = run_impl(root, c)
        bad, entry_known = oracle(root, c, obs, tables)
        # distribution
        dist["by_transport"][c["transport"]] = dist["by_transport"].get(c["transport"], 0) + 1
        st = c["host"].strip()
        shape = ("leading_dash" if st.startswith("-") else "surrounding_blank" if st != c["host"] else
                 "embedded_blank" if re.search(r"\s", st) else "plain" if PLAIN_RE.match(st) else "other")
        dist["host_shape"][shape] += 1
        pk = "omitted" if c["port"] == "omit" else ("explicit" if isinstance(c["port"], int) else "not_int")
        dist["port"][pk] += 1
        for f in ("cfg", "kh"):
            v = c[f]
            k = ("False" if v is False else "True" if v is True else "empty" if v == "" else "bad" if v in ("none", "int:5")
                 else "tilde" if v.startswith("~") else "missing" if "nonexistent" in v else "path")
            dist[f + "_arg"][k] = dist[f + "_arg"].get(k, 0) + 1
        dist["outcome"][obs["exc"] or "built"] = dist["outcome"].get(obs["exc"] or "built", 0) + 1
        dist["driver_class"][c["cls"]] = dist["driver_class"].get(c["cls"], 0) + 1
        if not entry_known:
            dist["lookup_not_as_intended"] += 1
        nontrivial = False
        if obs["exc"] is None and c["transport"] in LIBRARY:
            lk = tables[2].get(obs["reported"]["cfg"]) or {}
            for k in ("port", "user", "identity"):
                if lk.get(k):
                    dist["config_supplies"][k] += 1
                    nontrivial = True
            if lk.get("port") and pk == "explicit":
                dist["explicit_port_and_config_port"] += 1
        if shape != "plain" or pk == "explicit" or c["cfg"] is not False or c["kh"] is not False:
            nontrivial = True
        # the real ssh binary reads the argv (plain host names only: others are refused by its host-name check)
        if (have_ssh and obs.get("open_cmd") and obs["exc"] is None and not bad and g_budget > 0
                and PLAIN_RE.match(obs["reported"]["host"]) and c["extra"] is None):
            g_budget -= 1
            verdict, gbad = ssh_G_oracle(root, c, obs)
            dist["real_ssh_G"]["unavailable" if verdict is None else verdict] += 1
            bad = bad + gbad
        rep.case(json.dumps(c, sort_keys=True), nontrivial=nontrivial)
        term = case_term(root, c, obs, tables)
        if term is None:
            bad = bad + [("unexpected-outcome", "constructor outcome outside the model's outcome type: %r" % (obs,))]
        else:
            terms.append(term)
            kept.append(i)
        if bad:
            oracle_fail.append((i, c, obs, bad))
    if cases:
        c0 = cases[0]
        rep.sample({"case": c0, "observed": run_impl(root, c0)})
        rep.sample({"case": cases[n_struct + 1], "observed": run_impl(root, cases[n_struct + 1])})
    bad_ix, log = common.eval_cases(rep.workdir, "cases_c17", header, terms, "chk", shard=250)
    # ssh grammar suite
    gterms, gargvs, greal_bad = [], [], []
    n_g = 6000 if thorough else 600
    home_b = os.path.join(root, "home_b")
    greal = 0
    for k in range(n_g):
        argv = gen_argv(rng)
        t, ps = parse_term(argv)
        gterms.append(t)
        gargvs.append(argv)
        rep.case("argv:" + json.dumps(argv), nontrivial=len(argv) > 2)
        if have_ssh and (thorough or k < 150):
            msg = real_vs_py(argv, ps, home_b)
            if msg != "skip":
                greal += 1
                if msg:
                    greal_bad.append(msg)
    gbad_ix, glog = common.eval_cases(rep.workdir, "cases_c17_parse", header, gterms, "chk_parse", shard=500)
    # stand-in ssh: what a spawned ssh really receives
    standin = {"runs": 0, "mismatches": 0}
    if True:
        bindir = make_standin(root)
        picks = [c for c in cases if c["transport"] == "system" and c["host"].strip() and not malformed_reasons(root, c)]
        rng.shuffle(picks)
        for n, c in enumerate(picks[: (60 if thorough else 6)]):
            try:
                before, got, who = run_standin(root, c, bindir, n)
            except Exception as e:  # noqa
                if type(e).__name__ == "ScrapliValueError" and c["host"].strip().startswith("-"):
                    continue
                rep.notes.append("stand-in ssh run failed: %r on %r" % (e, c))
                rep.broken.append("standin-ssh")
                break
            standin["runs"] += 1
            rep.case("standin:" + json.dumps(c, sort_keys=True))
            if got is None or got[1:] != before[1:] or os.path.basename(got[0]) != "ssh":
                standin["mismatches"] += 1
                oracle_fail.append((-1, c, {"open_cmd": before, "received": got}, [(
                    "standin-argv", "the spawned ssh received %r, open_cmd was %r" % (got, before))]))
            else:
                try:
                    ps = py_ssh_parse(got)
                    if ps["dest"] != who["host"] or ps["port"] != str(who["port"]):
                        oracle_fail.append((-1, c, {"received": got}, [("standin-destination", "received argv %r reads as host %r port %r; reported %r:%r" % (got, ps["dest"], ps["port"], who["host"], who["port"]))]))
                except SshUsage as e:
                    oracle_fail.append((-1, c, {"received": got}, [("standin-usage", "received argv %r is a usage error for ssh: %s" % (got, e))]))
    # dial suite (after everything else that draws from rng: the other suites see the same stream as before)
    dial_fail = []
    try:
        dial_stats = run_dial_suite(rep, root, rng, HEADER_DIAL % _plain(root), dial_fail)
    except Exception as e:  # noqa
        dial_stats = {"error": repr(e)}
        rep.broken.append("dial suite failed: %r" % (e,))
    rep.coverage["correspondence"] = {
        "suite": "resolve", "cases": len(terms), "distribution": dist, "dial": dial_stats,
        "model_disagreements": None if bad_ix is None else len(bad_ix), "oracle_failures": len(oracle_fail),
        "ssh_grammar": {"argvs": len(gterms), "model_vs_python_getopt_disagreements": None if gbad_ix is None else len(gbad_ix),
                        "real_ssh_G_compared": greal, "real_ssh_G_disagreements": len(greal_bad)},
        "standin_ssh": standin}
    rep.coverage["generated_from"] = common.source_hashes(SOURCES)
    rep.coverage["generated"] = info
    rep.rule = ("cases = corpus (baseline defects, boundaries) + structured product transports x port(omitted/22/2022) x config "
                "(none/Port/Port+User+Identity/star Port/star User/True) x host shape x HOME + random draws over all argument "
                "forms + a malformed stream; each through the real constructor (Driver/AsyncDriver, 15% Generic/IOSXE) on a real "
                "temporary file system; non-trivial = anything but (plain host, no port, no file arguments); distinct = the case dict; "
                "argv cases: option soups through ssh_parse / Python getopt / real ssh -G; dial histories: structured (asyncssh / "
                "paramiko x username none/explicit x config none / without User / with User / with a User only the library's reader "
                "accepts / Host * / the user's own, multi-device system shapes, two-object re-open for every transport) + random "
                "(1-4 objects, 50% all-system, 40% of same-transport neighbours differ in one or two arguments only; each object opened "
                "in a shuffled order, then random close / re-open / direct _build_open_cmd), each from the state of a fresh process; "
                "shared-options histories: system / paramiko / asyncssh x option dicts x 2 and 3 devices (differing in host, port, user, "
                "key, strictness, config) x ONE transport_options object / distinct outer dicts with the same inner objects / "
                "equal-but-distinct copies (control) x every order of opens, then close + re-open of the first one opened; + random "
                "ones (any transport, random devices and option dicts, all or two of three objects sharing, random close / re-open)")
    rep.extra_assumptions += [
        "model of OpenSSH's command-line grammar (coq/model/SshArgv.v ssh_parse): hand-written from ssh.c; confronted with an "
        "independent Python getopt and with the installed `ssh -G` on generated argvs, not verified",
        "environment of the constructor (pathlib is_file/expanduser, scrapli.ssh_config lookup result [C16]) is an explicit "
        "parameter of the model; the theorems hold for every environment",
        "ssh2-python is %s: scrapli's own Ssh2Transport class is constructed, never opened" % ssh2_kind,
        "dial suite: what asyncssh does with the recorded keywords is asyncssh.SSHClientConnectionOptions' own answer (offline); "
        "paramiko / socket / asyncio calls are bound with inspect.signature of the real callables; lib_resolve in OpenHist.v "
        "(absent keyword -> the library's choice, present one -> as given, '' included) is confronted with that answer per call"]
    # ---- verdicts ----
    seen = set()
    for (i, c, obs, bad) in oracle_fail:
        for kind, msg in bad:
            key = (kind, c["transport"] if kind.endswith("dialled") or kind.startswith("port-prec") else "")
            if key in seen or len(seen) >= 12:
                continue
            seen.add(key)
            rep.violation("%s [%s transport]: %s" % (kind, c["transport"], msg),
                          {"suite": "resolve", "kind": kind, "case": c, "observed": obs,
                           "rerun": "./check C17 --replay <this file>"}, signature="c17-" + kind)
    for msg in greal_bad[:3]:
        # the grammar MODEL (not scrapli) disagrees with the real binary: the machinery no longer checks
        rep.broken.append("ssh-grammar model vs real ssh -G")
        rep.notes.append(msg)
    if gbad_ix is None:
        rep.broken.append("ssh-grammar model evaluation failed")
        rep.notes.append(glog)
    elif gbad_ix:
        rep.broken.append("ssh-grammar: Coq ssh_parse differs from the independent Python getopt")
        rep.notes.append("e.g. %r" % (gargvs[gbad_ix[0]],))
    if bad_ix is None:
        rep.broken.append("correspondence resolve (model evaluation failed)")
        rep.notes.append(log)
    elif bad_ix:
        failing = {i for (i, _, _, _) in oracle_fail}
        unexplained = [kept[ix] for ix in bad_ix if kept[ix] not in failing]
        for i in [kept[ix] for ix in bad_ix][:5]:
            rep.notes.append("model/implementation disagreement on %r -> %r" % (cases[i], run_impl(root, cases[i])))
        if unexplained or not oracle_fail:
            rep.broken.append("correspondence resolve: model differs from implementation on %d case(s) where the oracle is satisfied"
                              % len(unexplained))
        if not oracle_fail:
            search_near(rep, root, rng, [cases[i] for i in unexplained[:5]])


def search_near(rep, root, rng, seeds):
    """model and implementation disagree while the oracle is fine: look for a failing input of the property around
    the disagreement (vary every other field of the case, all transports)"""
    for c in seeds:
        for _ in range(400):
            d = dict(c)
            g = gen_case(rng)
            for k in rng.sample(sorted(g), rng.randint(1, 4)):
                d[k] = g[k]
            if malformed_reasons(root, d):
                continue
            obs = run_impl(root, d)
            bad, _ = oracle(root, d, obs, env_tables(root, d))
            if bad:
                kind, msg = bad[0]
                rep.violation("%s [%s transport]: %s" % (kind, d["transport"], msg),
                              {"suite": "resolve", "kind": kind, "case": d, "observed": obs}, signature="c17-" + kind)
                return True
    return False


def replay_dial(r):
    workdir = os.path.join(common.BUILD, "C17_replay")
    os.makedirs(workdir, exist_ok=True)
    root = make_fixture(workdir)
    dial.snapshot_process_state()
    h = {"objects": [full_case(c) for c in r["history"]["objects"]], "ops": r["history"]["ops"]}
    if r["history"].get("share"):
        h["share"] = r["history"]["share"]
    loop = dial.Loop()
    try:
        with dial.patched():
            steps, drivers, fails = check_history(root, h, loop)
    finally:
        loop.close()
    for i, c in enumerate(h["objects"]):
        print("object %d : %s" % (i, json.dumps(kwargs_of(root, c), sort_keys=True, default=repr)))
        print("  reports: %s" % json.dumps(reported_of(drivers[i]), sort_keys=True, default=repr))
    for mode, members in h.get("share", []):
        print("transport_options of objects %s: %s" % (members, {"same": "ONE dict object", "inner": "distinct dicts holding the SAME "
              "inner objects", "copies": "equal but distinct copies"}[mode]))
    for n, st in enumerate(steps):
        print("step %d   : %s(object %d)%s" % (n, st["op"], st["i"], " raised " + st["exc"] if st["exc"] else ""))
        for k, p in st["records"]:
            print("    %s %s" % (k, json.dumps(p, sort_keys=True, default=repr)))
        for m, kind, msg in fails:
            if m == n:
                print("FAILS    : %s: %s" % (kind, msg))
    print("property holds on this history" if not fails else "property FAILS on this history")
    return 0 if not fails else 1


def replay(path):
    common.setup_env()
    ensure_ssh2_importable()
    r = json.load(open(path))
    if r.get("suite") == "dial":
        return replay_dial(r)
    c = r.get("case")
    if not c:
        print("nothing to replay (no concrete input): %s" % r.get("what"))
        return 1
    workdir = os.path.join(common.BUILD, "C17_replay")
    os.makedirs(workdir, exist_ok=True)
    root = make_fixture(workdir)
    c = full_case(c)
    obs = run_impl(root, c)
    bad, _ = oracle(root, c, obs, env_tables(root, c))
    if r.get("kind", "").startswith("standin"):
        before, got, who = run_standin(root, c, make_standin(root), 0)
        print("open_cmd:", before, "\nreceived:", got)
        if got is None or got[1:] != before[1:]:
            bad = bad + [("standin-argv", "argv differs")]
    print("case     :", json.dumps(c, sort_keys=True))
    print("kwargs   :", kwargs_of(root, c))
    print("observed :", json.dumps(obs, sort_keys=True, default=repr))
    for kind, msg in bad:
        print("FAILS    : %s: %s" % (kind, msg))
    print("property holds on this input" if not bad else "property FAILS on this input")
    return 0 if not bad else 1


MANIFEST = {
    "text": "Coq theorems (props/C17.v), for ALL argument combinations, host strings and environments (file system, ssh-config lookup "
            "result): reported_eq_dialled (host/port of the transport's BaseTransportArgs and user/key/strict/config/known-hosts of its "
            "plugin arguments equal driver.host/.port/.auth_username/...), precedence (every reported value = explicit argument, else the "
            "ssh-config entry for paramiko/asyncssh/ssh2, else the default 22 / 23 for telnet names; file arguments False/True/path incl. "
            "the system-transport magic values), argv_faithful (ssh_parse (build_open_cmd ...) has destination = host and port / login / "
            "identity / -F / StrictHostKeyChecking / UserKnownHostsFile exactly as resolved, each its own argv element, no remote command; "
            "the destination stays the host whatever user open_cmd arguments follow) and the end-to-end statement without side condition "
            "(a host that starts with '-' after stripping is refused by the constructor); history_spawns_are_per_object / "
            "history_argv_faithful (model/OpenHist.v: over ANY sequence of open / close / re-open / direct _build_open_cmd of any number of "
            "system transport objects, every open of object i spawns exactly once with the argv built from object i's own arguments, read by "
            "ssh as that object's host / port / login / files; refuted by witness for a class-level open_cmd) and "
            "asyncssh_connects_with_reported (host / port / username keywords always present, so the library's own resolution of absent "
            "keywords never applies; refuted for the variant that drops an empty username). The pinned commit is refuted by vm_compute "
            "witnesses (ssh-config Port vs transport port; explicit port overridden; unstripped host dialled; '-oProxyCommand=..' read as "
            "an option). Axiom-free. Tie: Gen_Resolve.v regenerated on every run (transport table with default ports from the real "
            "constructor, ssh-config tuple and candidate files by ast, magic strings, str.strip whitespace set, the real _build_open_cmd on "
            "306 branch combinations decided against the model by vm_compute); the model [resolve]/[build_open_cmd] is run by vm_compute on "
            "the same generated argument combinations as the real constructors and must agree; an independent oracle decides the property "
            "on the implementation. Dial suite: multi-object histories through the real open() of system / paramiko / asyncssh / telnet / "
            "asynctelnet with PtyProcess.spawn, Socket, paramiko.Transport + RSAKey, asyncssh.connect and asyncio.open_connection replaced "
            "by recorders; each recorded call (absent keywords resolved by asyncssh.SSHClientConnectionOptions itself / the real paramiko "
            "signatures) is compared with what the opened driver reports, every history starts from the class- and module-level state of a "
            "fresh process; the system histories and the asyncssh keywords are also run through the model by vm_compute. "
            "Shared user options: asyncssh_history_per_object / asyncssh_history_reported / asyncssh_shared_dict_eq_copies (model/OpenHist.v "
            "part 3: asyncssh objects each holding the ADDRESS of the user dict passed as transport_options['asyncssh'], so several may hold "
            "ONE dict; over any order of opens and re-opens the user's dicts are afterwards what they were, every connect call is a function "
            "of the opened object's own record and its dict as the user wrote it — own host / port / username when the dict sets none of them "
            "— and devices given one dict connect exactly as devices given each its own copy; refuted by witness for a transport that "
            "setdefault()s its arguments into the user's dict). Dial suite on them: 2-3 drivers constructed with the same transport_options "
            "object, with distinct outer dicts holding the same inner objects, and with equal-but-distinct copies (control), for system / "
            "paramiko / asyncssh, in every order of opens + re-open of the first; every recorded call against what THAT driver reports, the "
            "user's transport_options object deep-compared after every operation with a copy taken before construction, the user's own "
            "asyncssh options / open_cmd arguments present in the call as written; the asyncssh ones (address = identity of the dict the "
            "transport object holds) are run through as_run by vm_compute, dicts afterwards included. "
            "partial: what OpenSSH does with the argv is a hand model of ssh.c's option grammar — observed to agree "
            "with an independent Python getopt, with the installed `ssh -G` and with the argv a stand-in ssh binary receives, not proved.",
    "note": "Trusted: Coq kernel + vm_compute; hand models coq/model/Resolve.v, SshArgv.v, OpenHist.v (tied by correspondence only); gen/gen_resolve.py; "
            "the generators' coverage. Environment as model parameter: pathlib is_file/expanduser, result of scrapli.ssh_config lookup (C16). "
            "Not covered: on_init callables that mutate driver attributes after construction (the transport keeps the constructor's values), "
            "transport_options open_cmd arguments that repeat -F/-o (ssh's own precedence then applies; only the destination claim is proved for "
            "them), ssh's interpretation of the destination string itself (user@host, ssh:// URIs), negative / bool ports, the optional ssh2 "
            "package (constructor path only, through a stand-in module when it is not installed). Dial suite, oracle-only (no Coq model): the "
            "paramiko / telnet / asynctelnet connect and auth calls, asyncssh client_keys / known_hosts / config keywords, histories that mix "
            "transports (the model covers the system objects of a history and asyncssh host / port / username); of the shared "
            "transport_options histories the model covers the asyncssh dict (host / port / username keys; the site-wide keys pass through "
            "unmodelled) — sharing for system (open_cmd list, ptyprocess dict) and paramiko (enable_rsa2), the 'unchanged after open()' "
            "comparison for those, and 'the user's options are in the call' are oracle-only. Not covered: user asyncssh options that "
            "themselves name host / port / username / client_keys (they override what the driver reports by design; kw_free is the "
            "theorem's premise), ptyprocess rows / cols / echo values, transport_options shared across different transports. The recorders end open() at the "
            "connect call (paramiko: never authenticated; asyncssh: PermissionDenied; asynctelnet: ConnectionRefusedError), so parameters used "
            "only after a successful login are not observed; strict-key cases whose host is not in the known-hosts file stop before the dial "
            "and are counted, not checked. Driver.open() (channel authentication, on_open) is not run, only transport.open().",
    "technique": "Coq case analysis over the constructor model with an explicit environment + getopt-model proof for the argv; vm_compute "
                 "correspondence against the real constructors; independent oracle incl. real `ssh -G` and a stand-in ssh binary; "
                 "multi-object open histories with recording stand-ins for every connect entry point, absent keywords resolved by the library; "
                 "aliasing of user-owned option dicts between objects as addresses in a model heap, deep comparison of the user's objects",
}
