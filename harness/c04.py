"""C04 — acquire_priv reaches the target level or fails in bounded steps.

proof: coq/proofs/PrivGraph_Proofs.v (general theorems over every tree, every set-iteration order,
every device), props/C04.v (+ per-platform by-computation theorems over Gen_PrivGraph.v).
tie: Gen_PrivGraph.v regenerated from the source; correspondence `net-nav` of model/PrivGraph.v
[run_acquire] against the real sync and asyncio drivers over SimDevice on the same scenarios;
an oracle that decides the property on the device's own log from the VENDOR tables of SimDevice."""
import json
import os
import time
import warnings

from . import common
from .common import coq_bytes, coq_list

LEVEL = "proof"
SECRET = "S3c-r3t!"
KNOWN_SIG = "c04-secondary-typed-as-command-when-no-password-asked"
SHARED_SIG = "c04-refused-first-hop-between-levels-sharing-a-prompt"
EXC_CODE = {None: 0, "ScrapliPrivilegeError": 1, "ScrapliAuthenticationFailed": 2, "ScrapliTimeout": 3,
            "IndexError": 4, "Starved": 5}
ALLOWED_FAIL = ("ScrapliPrivilegeError", "ScrapliAuthenticationFailed", "ScrapliTimeout", "Starved")


class Runaway(BaseException):
    """the device has executed far more lines than any bounded navigation could type"""


def _simdevice():
    from . import simdevice
    return simdevice


def make_device(variant, **kw):
    sd = _simdevice()

    class C04Device(sd.SimDevice):
        """SimDevice + (a) an optional custom vendor table, (b) `mute`: transitions after which the
        device says nothing more, (c) a cap on executed lines (non-termination guard)."""

        def __init__(self, platform, table=None, **k):
            super().__init__("generic" if table is not None else platform, **k)
            if table is not None:
                self.t = table
                self.platform = platform
                self.mode = k.get("login_mode") or table["login_modes"][-1]
            self.mute = set()

        def _return(self):
            raw = bytes(self.line)
            line = raw.decode("latin-1").strip()
            if self.dialog is None and line and (self.mode, line) in self.mute:
                self.line = bytearray()
                self.log.append((self.mode, raw, b""))
                self.silent_after = len(self.plain)
                return
            if len(self.log) > 600:
                raise Runaway()
            super()._return()

    return C04Device(variant["platform"], table=variant.get("vendor"), **kw)


# ------------------------------------------------------------------------------------------------
# vendor graph (from SimDevice's own tables — independent of scrapli's PRIVS)
# ------------------------------------------------------------------------------------------------
def mode_of(variant, level):
    return "session:" + level if level in variant["sessions"] else level


def vendor_edges(dev, variant):
    """{(mode, mode'): [lines]} of the device's CLI, sessions included"""
    e = {}
    for m, tr in dev.t["trans"].items():
        if m == "session":
            continue
        for line, (_, tgt) in tr.items():
            e.setdefault((m, tgt), []).append(line)
    for s in variant["sessions"]:
        e.setdefault(("privilege_exec", "session:" + s), []).append(dev.t["session_cmd"] + s)
        for line, (_, tgt) in dev.t["trans"]["session"].items():
            e.setdefault(("session:" + s, tgt), []).append(line)
    return e


def vendor_path(edges, a, b):
    """modes of the shortest path a..b in the vendor graph (unique: the graph is a tree)"""
    prev, todo = {a: None}, [a]
    while todo:
        x = todo.pop(0)
        if x == b:
            break
        for (m, t) in edges:
            if m == x and t not in prev:
                prev[t] = x
                todo.append(t)
    if b not in prev:
        return None
    p = [b]
    while prev[p[-1]] is not None:
        p.append(prev[p[-1]])
    return p[::-1]


# ------------------------------------------------------------------------------------------------
# running the real driver
# ------------------------------------------------------------------------------------------------
def build_driver(variant, stack, dev, policy, blocking=None):
    sd = _simdevice()
    kw = dict(auth_secondary=SECRET)
    if blocking:
        kw.update(timeout_ops=blocking)
    if variant.get("levels") is not None:
        from scrapli.driver.network.base_driver import PrivilegeLevel
        pl = {}
        for n, prev, esc, de, auth, pat in variant["levels"]:
            pl[n] = PrivilegeLevel(pattern=pat, name=n, previous_priv=prev, deescalate=de, escalate=esc,
                                   escalate_auth=auth, escalate_prompt=r"^[pP]assword:\s?$")
        d = sd.make_driver("network", stack, dev, policy, privilege_levels=pl,
                           default_desired_privilege_level=variant["levels"][0][0], **kw)
    else:
        d = sd.make_driver(variant["platform"], stack, dev, policy, **kw)
        for s in variant["sessions"]:
            d.register_configuration_session(s)
    if blocking:
        _make_blocking(d.transport, stack)
    d.transport.opened = True
    return d


def _make_blocking(t, stack):
    """a starved read really blocks (polling), so that scrapli's own timeout machinery fires"""
    import asyncio
    sd = _simdevice()
    inner = t._read

    if stack == "sync":
        def read():
            t0 = time.time()
            while True:
                try:
                    return inner()
                except sd.Starved:
                    if time.time() - t0 > 20 or not t.opened:
                        raise
                    time.sleep(0.005)
        t.read = read
    else:
        async def aread():
            t0 = time.time()
            while True:
                try:
                    return inner()
                except sd.Starved:
                    if time.time() - t0 > 20 or not t.opened:
                        raise
                    await asyncio.sleep(0.005)
        t.read = aread


def observe_tables(variant, d, dev):
    """what the real driver computed: set iteration order of _priv_graph, classification of the
    prompt the device prints in every mode (indices into the privilege_levels dict order)"""
    names = list(d.privilege_levels.keys())
    order = [[names.index(x) for x in d._priv_graph[n]] for n in names]
    cls = []
    saved = dev.mode
    for n in names:
        dev.mode = mode_of(variant, n)
        p = dev.prompt().decode("latin-1")
        try:
            a = [names.index(x) for x in d._determine_current_priv(p)]
        except Exception:  # noqa: no level matches
            a = []
        try:
            b = [names.index(x) for x in d._determine_current_priv(p.strip())]
        except Exception:  # noqa
            b = []
        if a != b:
            raise RuntimeError("classification of %r depends on surrounding blanks: %r %r" % (p, a, b))
        cls.append(a)
    dev.mode = saved
    return names, order, cls


def run_case(variant, stack, src, dst, fault, policy=("whole",), blocking=None):
    """navigate to src (compliant device, right password), arm the fault, acquire_priv(dst)"""
    sd = _simdevice()
    warnings.simplefilter("ignore")
    dev = make_device(variant, secret=SECRET)
    dev.start()
    d = build_driver(variant, stack, dev, policy, blocking)
    r = sd.Runner(stack)
    obs = {"setup_exc": None}
    try:
        names, order, cls = observe_tables(variant, d, dev)
        obs.update(names=names, order=order, cls=cls)
        try:
            r.call(d.acquire_priv, src)
        except BaseException as e:  # noqa
            obs["setup_exc"] = type(e).__name__
            return obs
        if dev.mode != mode_of(variant, src) or d._current_priv_level.name != src:
            obs["setup_exc"] = "setup ended in %s believing %s" % (dev.mode, d._current_priv_level.name)
            return obs
        edges = vendor_edges(dev, variant)
        k = fault["kind"]
        dev.secret = None if k in ("nopw", "nopw_blank") else SECRET
        d.auth_secondary = {"wrongpw": "wr0ng", "absentpw": "", "nopw_blank": ""}.get(k, SECRET)
        sets = {"refuse": dev.refuse, "ignore": dev.ignore, "mute": dev.mute}
        for (a, b) in fault.get("edges", []):
            for line in edges.get((mode_of(variant, a), mode_of(variant, b)), []):
                sets[k].add((mode_of(variant, a), line))
        n0, h0 = len(dev.log), len(dev.hidden_lines)
        exc = None
        try:
            r.call(d.acquire_priv, dst)
        except Runaway:
            exc = "Runaway"
        except BaseException as e:  # noqa
            exc = type(e).__name__
        obs.update(exc=exc, mode=dev.mode, belief=d._current_priv_level.name,
                   log=[(m, bytes(l)) for (m, l, _) in dev.log[n0:]], hidden=[bytes(x) for x in dev.hidden_lines[h0:]],
                   auth_secondary=d.auth_secondary, asked=dev.secret is not None)
        return obs
    finally:
        r.close()


# ------------------------------------------------------------------------------------------------
# the property, decided on the device's own log (independent of the model and of scrapli's tables)
# ------------------------------------------------------------------------------------------------
def oracle(variant, src, dst, fault, obs, factor):
    """returns (None | text, signature)"""
    dev = make_device(variant)
    edges = vendor_edges(dev, variant)
    msrc, mdst = mode_of(variant, src), mode_of(variant, dst)
    path = vendor_path(edges, msrc, mdst)
    if path is None:
        return "harness: no vendor path %s -> %s" % (msrc, mdst), None
    hops = list(zip(path, path[1:]))
    k = fault["kind"]
    faulty = {(mode_of(variant, a), mode_of(variant, b)) for (a, b) in fault.get("edges", [])}
    auth_hops = [h for h in hops if any(dev.t["trans"].get(h[0], {}).get(l, ("", ""))[0] == "auth" for l in edges[h])]
    blocked = bool(faulty & set(hops)) or (k in ("wrongpw", "absentpw") and bool(auth_hops))
    exc, log = obs["exc"], obs["log"]
    n = len(obs["names"])
    if exc == "Runaway" or len(log) > 2 * (max(factor, 1) * n + 1):
        return "navigation is not bounded: %d lines typed (exc %s)" % (len(log), exc), None
    if exc is not None and exc not in ALLOWED_FAIL:
        return "acquire_priv ended with %s, not a scrapli privilege/authentication/timeout error" % exc, None
    if blocked:
        if exc is None:
            names = obs["names"]
            shared = names.index(dst) in obs["cls"][names.index(src)] and hops and hops[0] in faulty and k in ("refuse", "ignore")
            return ("the device refused a transition on the path yet acquire_priv returned normally (device in %s, believed %s)" % (
                obs["mode"], obs["belief"]), SHARED_SIG if shared and obs["mode"] == msrc else None)
        return None, None
    # compliant device on the whole path: must arrive, by exactly the single-step commands of the path
    if exc is not None:
        return "compliant device, yet acquire_priv raised %s (device in %s, log %r)" % (exc, obs["mode"], log), None
    if obs["mode"] != mdst:
        return "acquire_priv returned with the device in %s, target %s" % (obs["mode"], mdst), None
    if obs["belief"] != dst:
        return "acquire_priv returned believing %s, target %s" % (obs["belief"], dst), None
    want, extra, i = list(hops), [], 0
    for (m, line) in log:
        l = line.decode("latin-1").strip()
        if i < len(want) and m == want[i][0] and l in edges[want[i]]:
            i += 1
        else:
            extra.append((m, l))
    if i < len(want):
        return "the path transitions %r were not all executed in order: log %r" % (hops, log), None
    if extra:
        if all(l == obs["auth_secondary"] for (_, l) in extra) and not obs["asked"] and auth_hops:
            return ("auth_secondary typed as a command: %d extra line(s) in %s" % (len(extra), sorted({m for m, _ in extra})), KNOWN_SIG)
        return "lines other than the single-step commands of the path were typed: %r (path %r)" % (extra, hops), None
    return None, None


# ------------------------------------------------------------------------------------------------
# scenarios
# ------------------------------------------------------------------------------------------------
def level_edges(variant):
    """directed (from, to) pairs of adjacent levels, from the VENDOR graph restricted to the levels"""
    dev = make_device(variant)
    inv = {mode_of(variant, n): n for n in variant["names"]}
    return sorted((inv[a], inv[b]) for (a, b) in vendor_edges(dev, variant) if a in inv and b in inv)


def random_tree(rng, kind):
    """a user-supplied privilege table + the matching vendor CLI.  kind: tree | shared | forest | cycle | ambiguous"""
    n = rng.choice([1, 2, 3, 3, 4, 5, 6, 7, 8])
    if kind in ("forest", "cycle", "ambiguous"):
        n = max(n, 3)
    shape = rng.choice(["random", "random", "chain", "star"])
    parent = [None] + [{"random": rng.randrange(i), "chain": i - 1, "star": 0}[shape] for i in range(1, n)]
    if kind == "forest":
        parent[rng.randrange(1, n)] = None
    if kind == "cycle":
        deep = [i for i in range(1, n) if parent[i] not in (None, 0)]
        if deep:
            parent[0] = rng.choice(deep)   # the root now points into the tree: a cycle of length >= 3
        else:
            kind = "forest"
            parent[rng.randrange(1, n)] = None
    ids = list(range(n))
    rng.shuffle(ids)            # dict insertion order is not the tree order
    name = lambda i: "m%d" % i
    auth = [i != 0 and parent[i] is not None and rng.random() < 0.3 for i in range(n)]
    kids = {i: [c for c in range(n) if parent[c] == i] for i in range(n)}
    leaf = lambda i: not kids[i]
    prompt_tag = {i: name(i) for i in range(n)}
    if kind == "shared":
        for i in range(n):
            ls = [c for c in kids[i] if leaf(c)]
            if len(ls) >= 2:
                for c in ls:
                    prompt_tag[c] = "sh%d" % i
    if kind == "ambiguous":
        i = rng.choice([i for i in range(n) if parent[i] is not None])
        prompt_tag[i] = prompt_tag[parent[i]]
    levels = []
    for i in ids:
        levels.append((name(i), "" if parent[i] is None else name(parent[i]), "go-" + name(i), "leave-" + name(i), auth[i],
                       r"^h\(%s\)#$" % prompt_tag[i]))
    trans = {}
    for i in range(n):
        t = {}
        if parent[i] is not None:
            t["leave-" + name(i)] = ("goto", name(parent[i]))
        for c in kids[i]:
            t["go-" + name(c)] = ("auth" if auth[c] else "goto", name(c))
        trans[name(i)] = t
    vendor = {"login_modes": [name(0)], "prompt": lambda d, m, pt=prompt_tag: "h(%s)#" % pt[int(m[1:])],
              "trans": trans, "invalid": "% bad", "submodes": [""]}
    return {"label": "user-%s-%d" % (kind, n), "platform": "user", "sessions": [], "names": [l[0] for l in levels],
            "levels": levels, "vendor": vendor, "kind": kind, "parent": parent,
            "rows": [(None if l[1] == "" else [x[0] for x in levels].index(l[1]), l[2].encode(), l[3].encode(), l[4]) for l in levels]}


def table_term(variant):
    if variant.get("levels") is None:
        return "gen_%s_tab" % variant["label"]
    rows = ["mkP %s %s%%N %s%%N %s" % ("None" if p is None else "(Some %d%%nat)" % p, coq_bytes(e), coq_bytes(de),
                                        "true" if a else "false") for (p, e, de, a) in variant["rows"]]
    return "[%s]" % "; ".join(rows)


def nll(ll):
    return coq_list(["[%s]%%nat" % ";".join(str(x) for x in l) for l in ll])


def case_term(variant, src, dst, fault, obs):
    names = obs["names"]
    ix = names.index
    k = fault["kind"]
    pairs = lambda es: coq_list(["(%d,%d)%%nat" % (ix(a), ix(b)) for (a, b) in es])
    stuck = pairs(fault.get("edges", [])) if k in ("refuse", "ignore") else "[]"
    mute = pairs(fault.get("edges", [])) if k == "mute" else "[]"
    secret = "(Some %s%%N)" % coq_bytes(SECRET.encode()) if obs["asked"] else "None"
    inv = {mode_of(variant, n): i for i, n in enumerate(names)}
    log = coq_list(["(%d%%nat, %s%%N)" % (inv[m], coq_bytes(l)) for (m, l) in obs["log"]])
    hid = coq_list(["%s%%N" % coq_bytes(h) for h in obs["hidden"]])
    bel = "None" if obs["belief"] == "DUMMY" else "(Some %d%%nat)" % ix(obs["belief"])
    return "((%s, %s, %s, (%s, %s, %s, %s%%N), (%d, %d)%%nat, (%d%%nat, %s, %d%%nat, %s, %s)) : case_t)" % (
        table_term(variant), nll(obs["order"]), nll(obs["cls"]), stuck, mute, secret,
        coq_bytes(obs["auth_secondary"].encode()), ix(src), ix(dst),
        EXC_CODE.get(obs["exc"], 9), bel, inv[obs["mode"]], log, hid)


HEADER = """From Verif Require Import Bytes PrivGraph.
From Gen Require Import Gen_PrivGraph.
Local Open Scope nat_scope.
Definition code_ok (o : outcome) (c : nat) : bool :=
  match o with
  | Reached => c =? 0 | PrivilegeError => c =? 1
  | AuthFailed => (c =? 2) || (c =? 5) | Timeout => (c =? 3) || (c =? 5)
  | Crash => c =? 4 | OutOfFuel => false
  end.
Definition case_t : Type :=
  (table * list (list nat) * list (list nat) * (list (nat*nat) * list (nat*nat) * option bytes * bytes)
   * (nat * nat) * (nat * option nat * nat * list (nat * bytes) * list bytes))%type.
Definition chk (c : case_t) : bool :=
  let '(tab, order, cls, (stuck, mute, secret, sec), (src, dst), (oc, bel, fm, lg, hid)) := c in
  let '(o, b, s, tr) := run_acquire gen_factor gen_stop (mkC tab stuck mute secret sec) order cls (Some src) src dst in
  order_ok tab order && code_ok o oc && oeqb b bel && (s_mode s =? fm) && log_eqb (s_log s) lg && lbeq (s_hidden s) hid.
"""


def faults_for(variant, src, dst, edges, rng, thorough, on_route):
    fs = [{"kind": "none"}, {"kind": "nopw"}, {"kind": "nopw_blank"}, {"kind": "wrongpw"}, {"kind": "absentpw"}]
    route_e = [e for e in edges if e in on_route]
    off_e = [e for e in edges if e not in on_route]
    for e in route_e:
        fs.append({"kind": "refuse", "edges": [e]})
        fs.append({"kind": "ignore", "edges": [e]})
    if route_e:
        fs.append({"kind": "mute", "edges": [rng.choice(route_e)]})
    pick = off_e if thorough else rng.sample(off_e, min(2, len(off_e)))
    for e in pick:
        fs.append({"kind": rng.choice(["refuse", "ignore"]), "edges": [e]})
    if thorough:
        for i, a in enumerate(edges):
            for b in edges[i + 1:]:
                fs.append({"kind": "refuse", "edges": [a, b]})
        for e in route_e[1:]:
            fs.append({"kind": "mute", "edges": [e]})
    elif len(edges) >= 2:
        for _ in range(2):
            fs.append({"kind": rng.choice(["refuse", "ignore"]), "edges": rng.sample(edges, 2)})
    return fs


def level_route(variant, edges, src, dst):
    dev = make_device(variant)
    ve = vendor_edges(dev, variant)
    inv = {mode_of(variant, n): n for n in variant["names"]}
    p = vendor_path(ve, mode_of(variant, src), mode_of(variant, dst)) or []
    return {(inv[a], inv[b]) for a, b in zip(p, p[1:])}


def explore(rep, variant, stacks, pairs, rng, thorough, factor, acc, oracle_on=True, policy_mix=True):
    """run scenarios of one variant; acc collects cases / terms / failures"""
    edges = level_edges(variant) if variant.get("kind") not in ("forest", "cycle", "ambiguous") else []
    for (src, dst) in pairs:
        on_route = level_route(variant, edges, src, dst) if edges or variant.get("kind") in (None, "tree", "shared") else set()
        fl = faults_for(variant, src, dst, edges, rng, thorough, on_route) if oracle_on else [{"kind": "none"}, {"kind": "nopw"}]
        for fault in fl:
            for stack in stacks:
                policy = ("whole",)
                if policy_mix and rng.random() < 0.15:
                    policy = rng.choice([("bytes", 1), ("bytes", 3), ("random", rng.randrange(1 << 30), 9)])
                obs = run_case(variant, stack, src, dst, fault, policy)
                sc = {"variant": variant["label"], "stack": stack, "src": src, "dst": dst, "fault": fault, "policy": list(policy)}
                if variant.get("levels") is not None:
                    sc["user_table"] = {"levels": variant["levels"], "kind": variant["kind"], "parent": variant["parent"]}
                if obs.get("setup_exc"):
                    if oracle_on:
                        acc["fail"].append((sc, obs, "could not navigate to the source level on a compliant device: %s" % obs["setup_exc"], None))
                    acc["dist"]["setup_failed"] = acc["dist"].get("setup_failed", 0) + 1
                    continue
                key = (variant["label"], stack, src, dst, json.dumps(fault, sort_keys=True))
                rep.case(key, nontrivial=src != dst)
                acc["terms"].append(case_term(variant, src, dst, fault, obs))
                acc["cases"].append((sc, obs, variant))
                d = acc["dist"]
                for kk in ("variant:" + variant["label"].split("-")[0] + ("-" + variant["kind"] if variant.get("kind") else ""),
                           "fault:" + fault["kind"] + (str(len(fault.get("edges", []))) if fault.get("edges") else ""),
                           "outcome:" + str(obs["exc"]), "stack:" + stack, "policy:" + policy[0],
                           "attempts:%d" % len(obs["log"])):
                    d[kk] = d.get(kk, 0) + 1
                if oracle_on:
                    why, sig = oracle(variant, src, dst, fault, obs, factor)
                    if why:
                        acc["fail"].append((sc, obs, why, sig))


def obs_json(obs):
    o = dict(obs)
    if "log" in o:
        o["log"] = [[m, l.decode("latin-1")] for (m, l) in o["log"]]
        o["hidden"] = [h.decode("latin-1") for h in o["hidden"]]
    return o


def core_variants(vs):
    return [{"label": v["label"], "platform": v["platform"], "sessions": v["sessions"], "names": v["names"]} for v in vs]


def real_timeout_cases(rep, variants, acc):
    """a few runs where a starved read really blocks and scrapli's own timeout fires (timeout_ops
    0.6 s): only the exception CLASS is compared (no duration is asserted)"""
    by = {v["label"]: v for v in variants}
    todo = [("cisco_iosxe", "exec", "privilege_exec", {"kind": "wrongpw"}, "ScrapliAuthenticationFailed"),
            ("juniper_junos", "exec", "root_shell", {"kind": "absentpw"}, "ScrapliAuthenticationFailed"),
            ("cisco_iosxr", "privilege_exec", "configuration", {"kind": "mute", "edges": [("privilege_exec", "configuration")]}, "ScrapliTimeout"),
            ("arista_eos", "configuration", "exec", {"kind": "mute", "edges": [("configuration", "privilege_exec")]}, "ScrapliTimeout")]
    for lab, src, dst, fault, want in todo:
        for stack in ("sync", "async"):
            # anything unexpected must reproduce 3 times out of 3 before it counts (a loaded machine
            # can stall an operation that should have completed past the sub-second timeout)
            for attempt in range(3):
                obs = run_case(by[lab], stack, src, dst, fault, ("whole",), blocking=0.6)
                got = obs.get("exc") or obs.get("setup_exc")
                if not obs.get("setup_exc") and got == want:
                    break
            sc = {"variant": lab, "stack": stack, "src": src, "dst": dst, "fault": fault, "policy": ["whole"], "blocking": 0.6}
            rep.case(("rt", lab, stack, src, dst), nontrivial=True)
            acc["dist"]["real_timeout:" + str(obs.get("exc"))] = acc["dist"].get("real_timeout:" + str(obs.get("exc")), 0) + 1
            if obs.get("setup_exc") or got not in ("ScrapliPrivilegeError", "ScrapliAuthenticationFailed", "ScrapliTimeout"):
                acc["fail"].append((sc, obs, "device stops answering: acquire_priv ended with %s, not a scrapli privilege/authentication/timeout error" % got, None))
            elif got != want:   # property fine (a scrapli error), but not the class the model predicts
                acc["rt_mismatch"].append("real-timeout %s %s %s->%s: model %s, implementation %s" % (lab, stack, src, dst, want, got))


def run(rep):
    from gen import gen_privgraph

    rng = rep.rng
    thorough = rep.tier == "thorough"
    t0 = time.time()
    # 1. regenerate from the source
    info, vs = {}, []
    try:
        _, info, vs = gen_privgraph.generate(rep.workdir)
        rc, out, _ = common.coqc(os.path.join(rep.workdir, "Gen_PrivGraph.v"), rep.workdir)
        if rc:
            rep.broken.append("Gen_PrivGraph.v")
            rep.notes.append(out[-2000:])
    except Exception as e:  # translator aborted: broken tie
        rep.broken.append("gen_privgraph:%s" % e)
    # 2. proofs
    ok, _ = rep.build_static()
    rep.add_static_obligations("props/C04.v", ok)
    if not ok:
        rep.broken.append("static-build")
    props_ok = False
    if ok and not rep.broken:
        props_ok, _ = rep.compile_props("props/C04.v")
    factor = info.get("factor", 2)
    # 3. correspondence + oracle
    acc = {"terms": [], "cases": [], "fail": [], "dist": {}, "rt_mismatch": []}
    variants = core_variants(vs) if vs else []
    if not variants:   # the translator failed: still explore the implementation, with hand-listed variants
        variants = [{"label": p, "platform": p, "sessions": [], "names": None} for p in gen_privgraph.PLATFORMS]
    for v in variants:
        if v["names"] is None:
            continue
        pairs = [(a, b) for a in v["names"] for b in v["names"]]
        if not thorough:
            same = [(a, a) for a in v["names"]]
            pairs = [p for p in pairs if p[0] != p[1]] + rng.sample(same, 1)
            if len(pairs) > 14:      # the larger tables: every pair without fault below, a sample with faults here
                pairs = rng.sample(pairs, 14)
        explore(rep, v, ("sync", "async"), pairs, rng, thorough, factor, acc)
        if not thorough:   # all ordered pairs, no fault / no password asked, both stacks — always
            allp = [(a, b) for a in v["names"] for b in v["names"] if a != b and (a, b) not in pairs]
            for (a, b) in allp:
                for stack in ("sync", "async"):
                    for fault in ({"kind": "none"}, {"kind": "nopw_blank"}):
                        obs = run_case(v, stack, a, b, fault)
                        sc = {"variant": v["label"], "stack": stack, "src": a, "dst": b, "fault": fault, "policy": ["whole"]}
                        if obs.get("setup_exc"):
                            acc["fail"].append((sc, obs, "could not navigate to the source level: %s" % obs["setup_exc"], None))
                            continue
                        rep.case((v["label"], stack, a, b, fault["kind"]))
                        acc["terms"].append(case_term(v, a, b, fault, obs))
                        acc["cases"].append((sc, obs, v))
                        acc["dist"]["allpairs"] = acc["dist"].get("allpairs", 0) + 1
                        why, sig = oracle(v, a, b, fault, obs, factor)
                        if why:
                            acc["fail"].append((sc, obs, why, sig))
    # user-supplied tables: random trees (with and without shared leaf prompts), then the malformed stream
    n_trees = 60 if thorough else 14
    for i in range(n_trees):
        kind = "shared" if i % 3 == 2 else "tree"
        v = random_tree(rng, kind)
        pairs = [(a, b) for a in v["names"] for b in v["names"] if a != b]
        if len(pairs) > (30 if thorough else 6):
            pairs = rng.sample(pairs, 30 if thorough else 6)
        explore(rep, v, ("sync", "async") if i % 2 == 0 else (rng.choice(["sync", "async"]),), pairs, rng, False, factor, acc)
    for i in range(40 if thorough else 10):
        v = random_tree(rng, ["forest", "cycle", "ambiguous"][i % 3])
        pairs = [(a, b) for a in v["names"] for b in v["names"] if a != b]
        pairs = rng.sample(pairs, min(len(pairs), 8 if thorough else 4))
        explore(rep, v, (rng.choice(["sync", "async"]),), pairs, rng, False, factor, acc, oracle_on=False)
    if variants and variants[0]["names"] is not None:
        real_timeout_cases(rep, variants, acc)
    # the listed findings are replayed on every run; reported only if they still fail that way
    for f in rep.findings:
        try:
            fr = json.load(open(os.path.join(common.VERIF, f["replay"])))
            sc = fr["scenario"]
            v = [x for x in variants if x["label"] == sc["variant"]][0]
            fault = dict(sc["fault"])
            if "edges" in fault:
                fault["edges"] = [tuple(e) for e in fault["edges"]]
            obs = run_case(v, sc["stack"], sc["src"], sc["dst"], fault, tuple(sc.get("policy", ["whole"])))
            why, sig = (None, None) if obs.get("setup_exc") else oracle(v, sc["src"], sc["dst"], fault, obs, factor)
            acc["dist"]["finding_replay:%s:%s" % (f["id"], "still-fails" if why else "holds-now")] = 1
            if why and sig == f.get("signature") and f.get("kind") == "known":
                rep.known(sig)
            elif why and f.get("kind") == "fixed":
                acc["fail"].append((sc, obs, "regression of fixed finding %s: %s" % (f["id"], why), None))
        except Exception as e:  # noqa
            rep.notes.append("finding %s could not be replayed: %r" % (f.get("id"), e))
    bad, log = common.eval_cases(rep.workdir, "cases_c04", HEADER, acc["terms"], "chk") if not [b for b in rep.broken if b.startswith("gen") or b.startswith("Gen")] else (None, "generation failed")
    rep.coverage["correspondence"] = {"suite": "net-nav", "cases": len(acc["terms"]), "distribution": dict(sorted(acc["dist"].items())),
                                      "model_disagreements": None if bad is None else len(bad),
                                      "oracle_failures": len(acc["fail"])}
    rep.coverage["generated_from"] = common.source_hashes(gen_privgraph.SOURCES)
    rep.coverage["generated"] = info
    rep.rule = ("scenario = (privilege table variant: 5 core platforms, EOS/NX-OS with 1 and 2 registered sessions, random user trees "
                "with shuffled dict order / shared leaf prompts, malformed: forest, cycle, ambiguous inner prompt) x ordered pair (source "
                "navigated to by the driver, target) x fault (none, no password asked, wrong / absent auth_secondary, each refused / "
                "ignored / silent transition of the route, off-route and double refusals) x sync/asyncio x read chunking; "
                "non-trivial = source != target; distinct = (variant, stack, pair, fault)")
    for (sc, obs, v) in acc["cases"][:1] + acc["cases"][len(acc["cases"]) // 2:len(acc["cases"]) // 2 + 2]:
        rep.sample({"scenario": {k: sc[k] for k in ("variant", "stack", "src", "dst", "fault")}, "exc": obs["exc"], "final_mode": obs["mode"],
                    "log": obs_json(obs)["log"][:12]})
    # oracle failures on the implementation: violations with a concrete replay (known signature => KNOWN-FINDING)
    reported = 0
    for (sc, obs, why, sig) in acc["fail"]:
        if reported >= 6 and not sig:
            break
        new = rep.violation("%s [%s %s %s->%s fault %s]" % (why, sc["variant"], sc["stack"], sc["src"], sc["dst"], json.dumps(sc["fault"])),
                            {"suite": "net-nav", "scenario": sc, "observed": obs_json(obs), "rerun": "./check C04 --replay <this file>"},
                            signature=sig)
        reported += 1 if new else 0
    unlisted = [f for f in acc["fail"] if not (f[3] and rep.known_match(f[3]))]
    if bad is None:
        rep.broken.append("correspondence net-nav (model evaluation failed)")
        rep.notes.append(log)
    elif bad:
        for ix in bad[:5]:
            sc, obs, v = acc["cases"][ix]
            rep.broken.append("correspondence net-nav: model differs from implementation on %s %s %s->%s %s" % (
                sc["variant"], sc["stack"], sc["src"], sc["dst"], json.dumps(sc["fault"])))
            rep.notes.append("disagreement: %r / observed %r" % (sc, obs_json(obs)))
    for m in acc["rt_mismatch"]:
        rep.broken.append("correspondence net-nav: " + m)
    if (bad or rep.broken) and not unlisted:
        search(rep, variants, factor, rng)
    rep.notes.append("phase times: total %.1fs" % (time.time() - t0))


def search(rep, variants, factor, rng):
    """an obligation or the correspondence broke and the oracle has no failing input yet: exhaustive
    search over every core variant, every ordered pair, every single fault, both stacks"""
    n = 0
    for v in variants:
        if v["names"] is None:
            continue
        acc = {"terms": [], "cases": [], "fail": [], "dist": {}, "rt_mismatch": []}
        pairs = [(a, b) for a in v["names"] for b in v["names"]]
        explore(rep, v, ("sync", "async"), pairs, rng, True, factor, acc, policy_mix=False)
        for (sc, obs, why, sig) in acc["fail"]:
            if sig and rep.known_match(sig):
                continue
            rep.violation("%s [%s %s %s->%s fault %s] (found by the search after a broken obligation)" % (
                why, sc["variant"], sc["stack"], sc["src"], sc["dst"], json.dumps(sc["fault"])),
                {"suite": "net-nav", "scenario": sc, "observed": obs_json(obs)}, signature=sig)
            n += 1
            if n >= 4:
                return


def _variant_from_scenario(sc):
    from gen import gen_privgraph
    if "user_table" in sc:
        ut = sc["user_table"]
        levels = [tuple(l) for l in ut["levels"]]
        names = [l[0] for l in levels]
        trans = {n: {} for n in names}
        for (n, prev, esc, de, auth, pat) in levels:
            if prev:
                trans[n][de] = ("goto", prev)
                trans[prev][esc] = ("auth" if auth else "goto", n)
        tag = {l[0]: l[5][len(r"^h\("):-len(r"\)#$")] for l in levels}
        vendor = {"login_modes": ["m0"], "prompt": lambda d, m: "h(%s)#" % tag[m], "trans": trans, "invalid": "% bad", "submodes": [""]}
        return {"label": sc["variant"], "platform": "user", "sessions": [], "names": names, "levels": levels, "vendor": vendor,
                "kind": ut["kind"], "parent": ut["parent"], "rows": []}
    _, info, vs = gen_privgraph.generate(os.path.join(common.BUILD, "C04"))
    for v in core_variants(vs):
        if v["label"] == sc["variant"]:
            return v
    raise SystemExit("unknown variant %s" % sc["variant"])


def replay(path):
    from gen import gen_privgraph
    r = json.load(open(path))
    sc = r.get("scenario")
    if not sc:
        print("nothing to replay (no concrete input): %s" % r.get("what"))
        return 1
    os.makedirs(os.path.join(common.BUILD, "C04"), exist_ok=True)
    v = _variant_from_scenario(sc)
    fault = dict(sc["fault"])
    if "edges" in fault:
        fault["edges"] = [tuple(e) for e in fault["edges"]]
    obs = run_case(v, sc["stack"], sc["src"], sc["dst"], fault, tuple(sc.get("policy", ["whole"])), blocking=sc.get("blocking"))
    print("scenario:", json.dumps(sc, default=repr)[:600])
    print("observed:", json.dumps(obs_json(obs), default=repr)[:1500])
    if obs.get("setup_exc"):
        print("property FAILS on this input: could not navigate to the source level (%s)" % obs["setup_exc"])
        return 1
    why, sig = oracle(v, sc["src"], sc["dst"], fault, obs, gen_privgraph.bound_factor())
    if sc.get("blocking") and not why:
        want = "ScrapliAuthenticationFailed" if fault["kind"] in ("wrongpw", "absentpw") else "ScrapliTimeout"
        if obs["exc"] != want:
            why = "expected %s, got %s" % (want, obs["exc"])
    print("property holds on this input" if not why else "property FAILS on this input: %s%s" % (why, " [known finding %s]" % sig if sig else ""))
    return 0 if not why else 1


MANIFEST = {
    "text": "Coq theorems (props/C04.v, all 'Closed under the global context'). nav_reaches: for EVERY privilege table whose previous_priv "
            "pointers form a tree, EVERY iteration order of the _priv_graph sets, every ordered pair (source = what the driver believes and the "
            "device is in, target) and a device that performs the requested single-step transitions, the model of acquire_priv returns normally "
            "with device mode = belief = target and the transitions attempted are exactly the route 'deescalate up to the meeting point, escalate "
            "down', each once, at most |levels|-1 of them, below the loop bound for any factor >= 1; nav_reaches_table: the same for every concrete "
            "table passing the boolean checks is_tree / order_ok / cls_ok. nav_bounded: for EVERY device whatsoever (all refusal sets, all "
            "password outcomes) the loop ends within factor*|levels|+1 attempts, never out of fuel; on trees only in success, "
            "ScrapliPrivilegeError, ScrapliAuthenticationFailed or ScrapliTimeout (nav_bounded_tree). reached_sound (partial): with unambiguous "
            "prompts a normal return means the device is in the target, for every device; the full statement is refuted (refusal_full_refuted: "
            "levels sharing a prompt + refused deescalate => normal return in the wrong level - known finding). dfs_sound / dfs_complete for any "
            "graph. Per platform by vm_compute over the tables regenerated from the source on every run (5 core platforms, EOS/NX-OS with 1 and "
            "2 registered sessions): is_tree, command distinctness, observed set order, and for ALL ordered pairs under no / every single / every "
            "pair of refused transitions x 5 secondary-password situations: success with exactly the route's command lines in the simulated "
            "device log iff nothing blocks the route, else a bounded PrivilegeError / AuthenticationFailed in front of the first blocked hop "
            "(outside the shared-prompt region). Tie: Gen_PrivGraph.v (tables, set order, loop-bound factor and the send_inputs_interact early-exit "
            "fact by ast) + correspondence of the model with the real sync and asyncio drivers over SimDevice (device log, final mode, belief, "
            "exception class) on all ordered pairs x faults + an oracle deciding the property on the device's own log from SimDevice's vendor "
            "tables. partial: channel reads, regex classification of prompts and real timeouts are observed at run time, not proved.",
    "note": "Section hypotheses of nav_reaches (not axioms): depth function consistent with previous_priv (acyclic), common root, levels < |levels|, "
            "graph sets = tree neighbours in any order, classification contains the mode and is exact on levels that have a child (C05's concern; "
            "fed from the real _determine_current_priv in the correspondence runs and from 'identical pattern text' in the by-computation "
            "theorems), the device performs requested transitions (device invariant Inv). For concrete tables the first four follow from the "
            "boolean checks (proved); that the byte-level simulated device satisfies the device hypotheses is established per generated table "
            "by computation, not in general. Trusted: the hand model coq/model/PrivGraph.v (driver loop, interactive escalation, simulated "
            "device), gen/gen_privgraph.py, harness/simdevice.py vendor tables, scripted transports (a read that would block raises Starved and "
            "stands for ScrapliTimeout / its AuthenticationFailed mapping; 8 runs per check use really blocking reads with timeout_ops=0.6 s and "
            "compare the exception class only). Two known findings (known_findings.d/C04.json): auth_secondary typed as a command when no "
            "password is asked (mirrored by the model through the generated gen_stop flag; repaired on the C12 branch), and the shared-prompt "
            "refusal (acquire_priv returns normally in the wrong level).",
    "technique": "Coq proof (path-visited DFS soundness/completeness on any graph, subtree gate lemmas, hop lemma, route induction with loop "
                 "invariant, pigeonhole bound) + vm_compute all-pairs/all-refusal lemmas over regenerated tables + vm_compute correspondence "
                 "against both drivers",
}
