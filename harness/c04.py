"""C04 — acquire_priv reaches the target level or fails in bounded steps.

proof: coq/proofs/PrivGraph_Proofs.v (general theorems over every tree, every set-iteration order,
every device), props/C04.v (+ per-platform by-computation theorems over Gen_PrivGraph.v).
tie: Gen_PrivGraph.v regenerated from the source; correspondence `net-nav` of model/PrivGraph.v
[run_acquire] against the real sync and asyncio drivers over SimDevice on the same scenarios;
an oracle that decides the property on the device's own log from the VENDOR tables of SimDevice.

Scope decision (round 4): C03 carries the proviso "as long as the device's mode is changed only by the
driver's own actions"; C04 does not.  "From any privilege level the driver has navigated to" says where
the DEVICE is (a level of the driver's table that the driver's own typing took it to — the user's lines
are typed by the driver too), not that the driver REMEMBERS that level correctly.  So histories in which
a user line sent through send_command / send_configs moved the device (IOS "end" inside a config list,
Junos "commit and-quit", send_command("configure terminal")) are inside C04's quantifier:
acquire_priv(target) must leave the device in the target whatever _current_priv_level says
(suite `history`).  Outside: levels sharing a prompt when the remembered level is not the right one.

Round 6: "the call ends ... after a bounded number of attempts" and "acquire_priv(target) leaves the device in
the target" are said of EVERY call, so a call that legitimately failed (device refused, secret rejected) gives
the next call on the same connection no excuse: suite `calls` runs histories of several acquire_priv calls on
one driver object / one device and judges every call on its own (model: PrivGraph.acquire_calls)."""
import json
import os
import time
import warnings

from . import common
from .common import coq_bytes, coq_list

LEVEL = "proof"
SECRET = "S3c-r3t!"
KNOWN_SIG = "c04-secondary-typed-as-command-when-no-password-asked"
SHARED_SIG = "c04-refused-first-hop-between-levels-sharing-a-prompt"
EXC_CODE = {None: 0, "ScrapliPrivilegeError": 1, "ScrapliAuthenticationFailed": 2, "ScrapliTimeout": 3,
            "IndexError": 4, "Starved": 5}
ALLOWED_FAIL = ("ScrapliPrivilegeError", "ScrapliAuthenticationFailed", "ScrapliTimeout", "Starved")


def gcall(r, fn, *a, **kw):
    """r.call under a watchdog: a call of the code under test that spins without ever touching the device (no read, no
    write: the scripted device cannot stop it) is ended after GUARD_S seconds by raising Runaway inside it — "does not end in
    bounded steps" then is an observed outcome like any other instead of a check that never finishes"""
    import ctypes
    import threading
    tid = threading.get_ident()
    done = threading.Event()

    def watch():
        # after two calls that had to be ended the limit drops: a tree that spins once usually spins in hundreds of scenarios
        if not done.wait(GUARD_S if _ENDED[0] < 2 else 4.0):
            _ENDED[0] += 1
            ctypes.pythonapi.PyThreadState_SetAsyncExc(ctypes.c_ulong(tid), ctypes.py_object(Runaway))
    t = threading.Thread(target=watch, daemon=True)
    t.start()
    try:
        return r.call(fn, *a, **kw)
    finally:
        done.set()
        t.join()


_ENDED = [0]
GUARD_S = 90.0      # a scenario's call takes milliseconds; generous enough for a machine under heavy load


class Runaway(BaseException):
    """the device has executed far more lines than any bounded navigation could type"""


def _simdevice():
    from . import simdevice
    return simdevice


# lines a USER may type that make the device leave its mode although they are no navigation command of
# the vendor table (vendor behaviour, written independently of scrapli): {platform: {mode | "session": {line: mode'}}}
USER_MOVES = {
    "juniper_junos": {m: {"commit and-quit": "exec"} for m in ("configuration", "configuration_exclusive", "configuration_private")},
    "arista_eos": {"session": {"commit": "privilege_exec"}},
}
VARY = (None, "counter", "clock")


def vary_host(platform, host, kind, n):
    """host part of the n-th prompt a device with a varying prompt prints (no wall clock: the 'time' is n)"""
    if kind == "counter":
        return "%s-%d" % (host, n)
    h, m, sec = 12 + (n // 3600) % 12, (n // 60) % 60, n % 60
    if platform == "arista_eos":      # EOS `prompt %H %D{%H:%M:%S}%P`
        return "%s %02d:%02d:%02d" % (host, h, m, sec)
    return "%s-%02d.%02d.%02d" % (host, h, m, sec)


def make_device(variant, vary=None, tries=3, **kw):
    sd = _simdevice()

    class C04Device(sd.SimDevice):
        """SimDevice + (a) an optional custom vendor table, (b) `mute`: transitions after which the
        device says nothing more, (c) a cap on executed lines (non-termination guard: a step budget, no
        clock), (d) `vary`: the text of the prompt differs every time it is printed (counter / time of
        day in the host part) while the mode it stands for stays the same, (e) USER_MOVES, (f) `tries`:
        how many passwords the enable dialogue takes before the device prints its prompt again (IOS: 3,
        "% Bad secrets"; (c)EOS drops back to the prompt after the first bad one: 1)."""

        def __init__(self, platform, table=None, **k):
            super().__init__("generic" if table is not None else platform, **k)
            if table is not None:
                self.t = table
                self.platform = platform
                self.mode = k.get("login_mode") or table["login_modes"][-1]
                self.host = ""
            self.mute = set()
            self.vary = vary
            self.nprompt = 0
            self.moves = USER_MOVES.get(platform, {})
            self.tries = tries

        def prompt(self):
            if not self.vary:
                return super().prompt()
            self.nprompt += 1
            saved = self.host
            self.host = vary_host(self.platform, saved, self.vary, self.nprompt)
            try:
                return super().prompt()
            finally:
                self.host = saved

        def _return(self):
            raw = bytes(self.line)
            line = raw.decode("latin-1").strip()
            if self.dialog is None and line and (self.mode, line) in self.mute:
                self.line = bytearray()
                self.log.append((self.mode, raw, b""))
                self.silent_after = len(self.plain)
                return
            if len(self.log) > 600:
                raise Runaway()
            mv = self.moves.get("session" if self.mode.startswith("session:") else self.mode, {})
            if self.dialog is None and line in mv:
                self.line = bytearray()
                self.log.append((self.mode, raw, b""))
                self.mode = mv[line]
                self.submode = ""
                self._emit(self.nl + self.prompt())
                return
            fresh = self.dialog is None
            super()._return()
            if fresh and self.dialog is not None:     # SimDevice gives up when its attempt counter reaches 3
                self.dialog = (self.dialog[0], 4 - self.tries)

    return C04Device(variant["platform"], table=variant.get("vendor"), **kw)


# ------------------------------------------------------------------------------------------------
# vendor graph (from SimDevice's own tables — independent of scrapli's PRIVS)
# ------------------------------------------------------------------------------------------------
def mode_of(variant, level):
    return "session:" + level if level in variant["sessions"] else level


def vendor_edges(dev, variant):
    """{(mode, mode'): [lines]} of the device's CLI, sessions included"""
    e = {}
    for m, tr in dev.t["trans"].items():
        if m == "session":
            continue
        for line, (_, tgt) in tr.items():
            e.setdefault((m, tgt), []).append(line)
    for s in variant["sessions"]:
        e.setdefault(("privilege_exec", "session:" + s), []).append(dev.t["session_cmd"] + s)
        for line, (_, tgt) in dev.t["trans"]["session"].items():
            e.setdefault(("session:" + s, tgt), []).append(line)
    return e


def vendor_path(edges, a, b):
    """modes of the shortest path a..b in the vendor graph (unique: the graph is a tree)"""
    prev, todo = {a: None}, [a]
    while todo:
        x = todo.pop(0)
        if x == b:
            break
        for (m, t) in edges:
            if m == x and t not in prev:
                prev[t] = x
                todo.append(t)
    if b not in prev:
        return None
    p = [b]
    while prev[p[-1]] is not None:
        p.append(prev[p[-1]])
    return p[::-1]


# ------------------------------------------------------------------------------------------------
# running the real driver
# ------------------------------------------------------------------------------------------------
def build_driver(variant, stack, dev, policy, blocking=None):
    sd = _simdevice()
    kw = dict(auth_secondary=SECRET)
    if blocking:
        kw.update(timeout_ops=blocking)
    if variant.get("levels") is not None:
        from scrapli.driver.network.base_driver import PrivilegeLevel
        pl = {}
        for n, prev, esc, de, auth, pat in variant["levels"]:
            pl[n] = PrivilegeLevel(pattern=pat, name=n, previous_priv=prev, deescalate=de, escalate=esc,
                                   escalate_auth=auth, escalate_prompt=r"^[pP]assword:\s?$")
        d = sd.make_driver("network", stack, dev, policy, privilege_levels=pl,
                           default_desired_privilege_level=variant["levels"][0][0], **kw)
    else:
        d = sd.make_driver(variant["platform"], stack, dev, policy, **kw)
        for s in variant["sessions"]:
            d.register_configuration_session(s)
    if blocking:
        _make_blocking(d.transport, stack)
    d.transport.opened = True
    return d


def _make_blocking(t, stack):
    """a starved read really blocks (polling), so that scrapli's own timeout machinery fires"""
    import asyncio
    sd = _simdevice()
    inner = t._read

    if stack == "sync":
        def read():
            t0 = time.time()
            while True:
                try:
                    return inner()
                except sd.Starved:
                    if time.time() - t0 > 20 or not t.opened:
                        raise
                    time.sleep(0.005)
        t.read = read
    else:
        async def aread():
            t0 = time.time()
            while True:
                try:
                    return inner()
                except sd.Starved:
                    if time.time() - t0 > 20 or not t.opened:
                        raise
                    await asyncio.sleep(0.005)
        t.read = aread


def observe_tables(variant, d, dev):
    """what the real driver computed: set iteration order of _priv_graph, classification of the
    prompt the device prints in every mode (indices into the privilege_levels dict order)"""
    names = list(d.privilege_levels.keys())
    order = [[names.index(x) for x in d._priv_graph[n]] for n in names]
    cls = []
    saved = dev.mode
    for n in names:
        dev.mode = mode_of(variant, n)
        seen = []
        for _ in range(3 if dev.vary else 1):   # a varying prompt: every printed text must classify alike
            p = dev.prompt().decode("latin-1")
            for q in (p, p.strip()):
                try:
                    seen.append((q, [names.index(x) for x in d._determine_current_priv(q)]))
                except Exception:  # noqa: no level matches
                    seen.append((q, []))
        if any(c != seen[0][1] for (_, c) in seen):
            raise RuntimeError("classification of the prompt of %s depends on surrounding blanks / the varying part: %r" % (n, seen))
        cls.append(seen[0][1])
    dev.mode = saved
    return names, order, cls


def run_case(variant, stack, src, dst, fault, policy=("whole",), blocking=None):
    """navigate to src (compliant device, right password), arm the fault, acquire_priv(dst)"""
    sd = _simdevice()
    warnings.simplefilter("ignore")
    dev = make_device(variant, vary=fault.get("vary"), secret=SECRET)
    dev.start()
    d = build_driver(variant, stack, dev, policy, blocking)
    r = sd.Runner(stack)
    obs = {"setup_exc": None}
    try:
        names, order, cls = observe_tables(variant, d, dev)
        obs.update(names=names, order=order, cls=cls)
        try:
            gcall(r, d.acquire_priv, src)
        except BaseException as e:  # noqa
            obs["setup_exc"] = type(e).__name__
            return obs
        if dev.mode != mode_of(variant, src) or d._current_priv_level.name != src:
            obs["setup_exc"] = "setup ended in %s believing %s" % (dev.mode, d._current_priv_level.name)
            return obs
        edges = vendor_edges(dev, variant)
        k = fault["kind"]
        # emptypw: the device asks for a password and its (empty) enable secret is the empty answer; no auth_secondary
        dev.secret = None if k in ("nopw", "nopw_blank") else "" if k == "emptypw" else SECRET
        d.auth_secondary = {"wrongpw": "wr0ng", "absentpw": "", "nopw_blank": "", "emptypw": ""}.get(k, SECRET)
        sets = {"refuse": dev.refuse, "ignore": dev.ignore, "mute": dev.mute}
        for (a, b) in fault.get("edges", []):
            for line in edges.get((mode_of(variant, a), mode_of(variant, b)), []):
                sets[k].add((mode_of(variant, a), line))
        n0, h0 = len(dev.log), len(dev.hidden_lines)
        exc = None
        try:
            gcall(r, d.acquire_priv, dst)
        except Runaway:
            exc = "Runaway"
        except BaseException as e:  # noqa
            exc = type(e).__name__
        obs.update(exc=exc, mode=dev.mode, belief=d._current_priv_level.name,
                   log=[(m, bytes(l)) for (m, l, _) in dev.log[n0:]], hidden=[bytes(x) for x in dev.hidden_lines[h0:]],
                   auth_secondary=d.auth_secondary, asked=dev.secret is not None, secret=dev.secret)
        return obs
    finally:
        r.close()


def default_level(variant):
    if variant.get("levels") is not None:
        return variant["levels"][0][0]
    dev = make_device(variant)
    return build_driver(variant, "sync", dev, ("whole",)).default_desired_privilege_level


def user_moves(variant):
    """[(level X, op, line, mode')]: lines a user can send through send_command(s) (typed at the default
    level) or send_configs(privilege_level=X) (typed at X) that make the device LEAVE that level — from the
    vendor table of the device and USER_MOVES, never from scrapli's tables.  Password dialogues excluded."""
    dev = make_device(variant)
    dflt = default_level(variant)
    inv = {mode_of(variant, n): n for n in variant["names"]}
    out = []
    for x in variant["names"]:
        m = mode_of(variant, x)
        key = "session" if m.startswith("session:") else m
        lines = [(l, t) for l, (k, t) in sorted(dev.t["trans"].get(key, {}).items()) if k == "goto"]
        lines += sorted(dev.moves.get(key, {}).items())
        if m == "privilege_exec":
            lines += [(dev.t["session_cmd"] + sname, "session:" + sname) for sname in variant["sessions"]]
        for (l, t) in lines:
            if t not in inv:
                continue
            out.append((x, "configs", l, t))
            if x == dflt:
                out.append((x, "command", l, t))
    return out


def run_history(variant, stack, hist, dst, policy=("whole",)):
    """a history in which the device's mode is changed by a line the USER sent: the driver reaches
    hist["reach"] (acquire_priv and/or the operation's own navigation, so that level is what it remembers),
    hist["lines"] go out through send_command(s) (op "command") or send_configs(privilege_level=reach)
    (op "configs") — one of them makes the device change its mode —, then acquire_priv(dst)."""
    sd = _simdevice()
    warnings.simplefilter("ignore")
    dev = make_device(variant, vary=hist.get("vary"), secret=SECRET)
    dev.start()
    d = build_driver(variant, stack, dev, policy)
    r = sd.Runner(stack)
    obs = {"setup_exc": None}
    try:
        names, order, cls = observe_tables(variant, d, dev)
        obs.update(names=names, order=order, cls=cls)
        try:
            if hist.get("acquire_first", True):
                gcall(r, d.acquire_priv, hist["reach"])
            if hist["op"] == "command":
                if len(hist["lines"]) == 1:
                    gcall(r, d.send_command, hist["lines"][0])
                else:
                    gcall(r, d.send_commands, list(hist["lines"]))
            else:
                gcall(r, d.send_configs, list(hist["lines"]), privilege_level=hist["reach"])
        except BaseException as e:  # noqa
            obs["setup_exc"] = "%s during the history" % type(e).__name__
            return obs
        inv = {mode_of(variant, n): n for n in names}
        if dev.mode not in inv or dev.dialog is not None:
            obs["setup_exc"] = "the history left the device in %s, not a privilege level" % dev.mode
            return obs
        obs.update(actual=inv[dev.mode], belief0=d._current_priv_level.name, visited=sorted({m for (m, _, _) in dev.log}))
        n0, h0 = len(dev.log), len(dev.hidden_lines)
        exc = None
        try:
            gcall(r, d.acquire_priv, dst)
        except Runaway:
            exc = "Runaway"
        except BaseException as e:  # noqa
            exc = type(e).__name__
        obs.update(exc=exc, mode=dev.mode, belief=d._current_priv_level.name,
                   log=[(m, bytes(l)) for (m, l, _) in dev.log[n0:]], hidden=[bytes(x) for x in dev.hidden_lines[h0:]],
                   auth_secondary=d.auth_secondary, asked=dev.secret is not None)
        return obs
    finally:
        r.close()


def history_oracle(variant, dst, obs, factor):
    """the property on a history: whatever the driver remembers, acquire_priv(dst) must leave the DEVICE in
    dst, by the single-step commands of the vendor path from where the device actually is.  Outside: the
    device's prompt there is also the prompt of another level and the driver does not remember the right
    one (levels sharing a prompt cannot be told apart by any driver that reads the prompt — C05's concern,
    the region of the listed shared-prompt finding).  Returns (why | None, signature, in_region)"""
    names = obs["names"]
    a, b0 = obs["actual"], obs["belief0"]
    ca = obs["cls"][names.index(a)]
    if ca != [names.index(a)] and b0 != a:
        return None, None, False
    why, sig = oracle(variant, a, dst, {"kind": "none"}, obs, factor)
    return why, sig, True


# ------------------------------------------------------------------------------------------------
# histories of several acquire_priv calls on ONE connection
# ------------------------------------------------------------------------------------------------
CALL_FAULTS = ("none", "refuse", "ignore", "wrongpw", "absentpw")


def arm(variant, dev, d, fault, edges):
    """the device's behaviour and the driver's auth_secondary for the next call (replaces the previous arming)"""
    k = fault["kind"]
    dev.refuse.clear()
    dev.ignore.clear()
    dev.secret = None if k in ("nopw", "nopw_blank") else SECRET
    d.auth_secondary = {"wrongpw": "wr0ng", "absentpw": "", "nopw_blank": ""}.get(k, SECRET)
    sets = {"refuse": dev.refuse, "ignore": dev.ignore}
    for (a, b) in fault.get("edges", []):
        for line in edges.get((mode_of(variant, a), mode_of(variant, b)), []):
            sets[k].add((mode_of(variant, a), line))


def run_calls(variant, stack, hist, policy=("whole",)):
    """one device, one driver object: navigate to hist["start"] (compliant device, right password), then
    for every call of hist["calls"]: arm the device's behaviour DURING that call (fault: none | refuse /
    ignore of transitions | wrong / absent auth_secondary) and acquire_priv(call["dst"]).  The device
    (mode, a password dialogue left pending by a failed escalation, its log) and the driver live on from
    call to call; hist["tries"] = passwords the device's dialogue takes.  Per call: where the device was
    when the call began, what the driver remembered, exception class, device mode, remembered level, the
    lines the device executed during the call."""
    sd = _simdevice()
    warnings.simplefilter("ignore")
    # hist["retable"] = {how, before}: driver and device are built with the table `before`, the driver navigates to
    # hist["start"] under it, THEN the user puts `variant` (T2) in force on the live driver (previous_priv of some levels
    # edited in place / the privilege_levels dict replaced, update_privilege_levels()); the calls are judged against T2
    rt = hist.get("retable")
    v0 = _variant_from_scenario({"variant": variant["label"], "user_table": rt["before"]}) if rt else variant
    dev = make_device(v0, vary=hist.get("vary"), tries=hist.get("tries", 3), secret=SECRET)
    dev.start()
    d = build_driver(v0, stack, dev, policy)
    r = sd.Runner(stack)
    obs = {"setup_exc": None, "calls": []}
    try:
        if not rt:
            names, order, cls = observe_tables(variant, d, dev)
            obs.update(names=names, order=order, cls=cls)
        try:
            gcall(r, d.acquire_priv, hist["start"])
        except BaseException as e:  # noqa
            obs["setup_exc"] = type(e).__name__
            return obs
        if dev.mode != mode_of(variant, hist["start"]) or d._current_priv_level.name != hist["start"]:
            obs["setup_exc"] = "setup ended in %s believing %s" % (dev.mode, d._current_priv_level.name)
            return obs
        if rt:
            put_in_force(d, dev, variant, rt["how"])
            names, order, cls = observe_tables(variant, d, dev)
            obs.update(names=names, order=order, cls=cls)
        edges = vendor_edges(dev, variant)
        for c in hist["calls"]:
            fault = dict(c["fault"])
            fault["edges"] = [tuple(e) for e in fault.get("edges", [])]
            arm(variant, dev, d, fault, edges)
            n0, h0 = len(dev.log), len(dev.hidden_lines)
            o = {"pre_mode": dev.mode, "pre_dialog": dev.dialog is not None, "belief0": d._current_priv_level.name}
            exc = None
            try:
                gcall(r, d.acquire_priv, c["dst"])
            except Runaway:
                exc = "Runaway"
            except BaseException as e:  # noqa
                exc = type(e).__name__
            o.update(exc=exc, mode=dev.mode, belief=d._current_priv_level.name,
                     log=[(m, bytes(l)) for (m, l, _) in dev.log[n0:]], hidden=[bytes(x) for x in dev.hidden_lines[h0:]],
                     auth_secondary=d.auth_secondary, asked=dev.secret is not None)
            obs["calls"].append(o)
            if exc == "Runaway":
                break
        return obs
    finally:
        r.close()


def call_oracle(variant, hist, obs, i, factor):
    """the property on the i-th call of a history, judged ON ITS OWN: what earlier calls ended in gives the
    call no excuse.  From the device's own state when the call began (mode; password dialogue pending?) and
    the device's behaviour during the call: bounded by the call's own budget; a scrapli error only; with
    the device at a level prompt, cooperating on the whole vendor path and the right secret it must arrive
    by exactly the path's single-step commands; with a transition of the path refused it must raise.
    Lenient only where the device was still inside a password dialogue when the call began (a bounded
    scrapli error or a correct arrival) and in the shared-prompt region of history_oracle.
    Returns (why | None, signature, judged: 'strict' | 'dialogue' | 'shared')"""
    c, call = obs["calls"][i], hist["calls"][i]
    names = obs["names"]
    n = len(names)
    dst = call["dst"]
    fault = dict(call["fault"])
    fault["edges"] = [tuple(e) for e in fault.get("edges", [])]
    if c["exc"] == "Runaway" or len(c["log"]) > 2 * (max(factor, 1) * n + 1):
        return "navigation is not bounded: %d lines typed in one call (exc %s)" % (len(c["log"]), c["exc"]), None, "strict"
    if c["exc"] is not None and c["exc"] not in ALLOWED_FAIL:
        return "acquire_priv ended with %s, not a scrapli privilege/authentication/timeout error" % c["exc"], None, "strict"
    inv = {mode_of(variant, x): x for x in names}
    if c["pre_dialog"]:
        if c["exc"] is None and c["mode"] != mode_of(variant, dst) and obs["cls"][names.index(dst)] == [names.index(dst)]:
            return "acquire_priv returned normally with the device in %s, target %s" % (c["mode"], dst), None, "dialogue"
        return None, None, "dialogue"
    if c["pre_mode"] not in inv:
        return "harness: the device was in %s, no privilege level, when the call began" % c["pre_mode"], None, "strict"
    a = inv[c["pre_mode"]]
    if obs["cls"][names.index(a)] != [names.index(a)] and c["belief0"] != a:
        return None, None, "shared"
    o = dict(c, names=names, cls=obs["cls"])
    why, sig = oracle(variant, a, dst, fault, o, factor)
    return why, sig, "strict"


def calls_term(variant, hist, obs):
    """the byte strings of a history (lines executed, auth_secondary values, hidden lines) repeat a lot (a call
    that gives up at its bound types one command 2n+1 times): the term carries each once, in a table"""
    names = obs["names"]
    ix = names.index
    inv = {mode_of(variant, n): i for i, n in enumerate(names)}
    bel = lambda b: "None" if b == "DUMMY" else "(Some %d%%nat)" % ix(b)
    table = [SECRET.encode()]

    def ref(b):
        if b not in table:
            table.append(b)
        return table.index(b)
    cs, os_ = [], []
    for call, c in zip(hist["calls"], obs["calls"]):
        k = call["fault"]["kind"]
        stuck = coq_list(["(%d,%d)" % (ix(a), ix(b)) for (a, b) in call["fault"].get("edges", [])]) if k in ("refuse", "ignore") else "[]"
        cs.append("(%s, %s, %d, %d)" % (stuck, "true" if c["asked"] else "false", ref(c["auth_secondary"].encode()), ix(call["dst"])))
        log = coq_list(["(%d,%d)" % (inv[m], ref(l)) for (m, l) in c["log"]])
        hid = coq_list(["%d" % ref(h) for h in c["hidden"]])
        os_.append("(%d, %s, %d, %s, %s)" % (EXC_CODE.get(c["exc"], 9), bel(c["belief"]), inv[c["mode"]], log, hid))
    return "((%s, %s, %s, %d, %d, %s, %s, %s)%%nat : calls_t)" % (
        table_term(variant), nll(obs["order"]), nll(obs["cls"]), hist.get("tries", 3), ix(hist["start"]),
        coq_list(["%s%%N" % coq_bytes(b) for b in table]), coq_list(cs), coq_list(os_))


# ------------------------------------------------------------------------------------------------
# the property, decided on the device's own log (independent of the model and of scrapli's tables)
# ------------------------------------------------------------------------------------------------
def oracle(variant, src, dst, fault, obs, factor):
    """returns (None | text, signature)"""
    dev = make_device(variant)
    edges = vendor_edges(dev, variant)
    msrc, mdst = mode_of(variant, src), mode_of(variant, dst)
    path = vendor_path(edges, msrc, mdst)
    if path is None:
        return "harness: no vendor path %s -> %s" % (msrc, mdst), None
    hops = list(zip(path, path[1:]))
    k = fault["kind"]
    faulty = {(mode_of(variant, a), mode_of(variant, b)) for (a, b) in fault.get("edges", [])}
    auth_hops = [h for h in hops if any(dev.t["trans"].get(h[0], {}).get(l, ("", ""))[0] == "auth" for l in edges[h])]
    blocked = bool(faulty & set(hops)) or (k in ("wrongpw", "absentpw") and bool(auth_hops))
    exc, log = obs["exc"], obs["log"]
    n = len(obs["names"])
    if exc == "Runaway" or len(log) > 2 * (max(factor, 1) * n + 1):
        return "navigation is not bounded: %d lines typed (exc %s)" % (len(log), exc), None
    if exc is not None and exc not in ALLOWED_FAIL:
        return "acquire_priv ended with %s, not a scrapli privilege/authentication/timeout error" % exc, None
    if blocked:
        if exc is None:
            names = obs["names"]
            shared = names.index(dst) in obs["cls"][names.index(src)] and hops and hops[0] in faulty and k in ("refuse", "ignore")
            return ("the device refused a transition on the path yet acquire_priv returned normally (device in %s, believed %s)" % (
                obs["mode"], obs["belief"]), SHARED_SIG if shared and obs["mode"] == msrc else None)
        return None, None
    # compliant device on the whole path: must arrive, by exactly the single-step commands of the path
    if exc is not None:
        return "compliant device, yet acquire_priv raised %s (device in %s, log %r)" % (exc, obs["mode"], log), None
    if obs["mode"] != mdst:
        return "acquire_priv returned with the device in %s, target %s" % (obs["mode"], mdst), None
    if obs["belief"] != dst:
        return "acquire_priv returned believing %s, target %s" % (obs["belief"], dst), None
    want, extra, i = list(hops), [], 0
    for (m, line) in log:
        l = line.decode("latin-1").strip()
        if i < len(want) and m == want[i][0] and l in edges[want[i]]:
            i += 1
        else:
            extra.append((m, l))
    if i < len(want):
        return "the path transitions %r were not all executed in order: log %r" % (hops, log), None
    if extra:
        if all(l == obs["auth_secondary"] for (_, l) in extra) and not obs["asked"] and auth_hops:
            return ("auth_secondary typed as a command: %d extra line(s) in %s" % (len(extra), sorted({m for m, _ in extra})), KNOWN_SIG)
        return "lines other than the single-step commands of the path were typed: %r (path %r)" % (extra, hops), None
    return None, None


# ------------------------------------------------------------------------------------------------
# scenarios
# ------------------------------------------------------------------------------------------------
def level_edges(variant):
    """directed (from, to) pairs of adjacent levels, from the VENDOR graph restricted to the levels"""
    dev = make_device(variant)
    inv = {mode_of(variant, n): n for n in variant["names"]}
    return sorted((inv[a], inv[b]) for (a, b) in vendor_edges(dev, variant) if a in inv and b in inv)


USER_PAT = (r"^h[\w.\-]{0,20}\(", r"\)#$")   # prompt pattern of a user level: h<varying part>(<tag>)#


def random_tree(rng, kind):
    """a user-supplied privilege table + the matching vendor CLI.  kind: tree | shared | forest | cycle | ambiguous"""
    n = rng.choice([1, 2, 3, 3, 4, 5, 6, 7, 8])
    if kind in ("forest", "cycle", "ambiguous"):
        n = max(n, 3)
    shape = rng.choice(["random", "random", "chain", "star"])
    parent = [None] + [{"random": rng.randrange(i), "chain": i - 1, "star": 0}[shape] for i in range(1, n)]
    if kind == "forest":
        parent[rng.randrange(1, n)] = None
    if kind == "cycle":
        deep = [i for i in range(1, n) if parent[i] not in (None, 0)]
        if deep:
            parent[0] = rng.choice(deep)   # the root now points into the tree: a cycle of length >= 3
        else:
            kind = "forest"
            parent[rng.randrange(1, n)] = None
    ids = list(range(n))
    rng.shuffle(ids)            # dict insertion order is not the tree order
    name = lambda i: "m%d" % i
    auth = [i != 0 and parent[i] is not None and rng.random() < 0.3 for i in range(n)]
    kids = {i: [c for c in range(n) if parent[c] == i] for i in range(n)}
    leaf = lambda i: not kids[i]
    prompt_tag = {i: name(i) for i in range(n)}
    if kind == "shared":
        for i in range(n):
            ls = [c for c in kids[i] if leaf(c)]
            if len(ls) >= 2:
                for c in ls:
                    prompt_tag[c] = "sh%d" % i
    if kind == "ambiguous":
        i = rng.choice([i for i in range(n) if parent[i] is not None])
        prompt_tag[i] = prompt_tag[parent[i]]
    return tree_variant(kind, parent, ids, auth, prompt_tag)


def tree_variant(kind, parent, ids, auth, prompt_tag):
    """the variant (driver table in dict order `ids` + the matching vendor CLI) of the tree `parent`"""
    n = len(parent)
    name = lambda i: "m%d" % i
    kids = {i: [c for c in range(n) if parent[c] == i] for i in range(n)}
    levels = []
    for i in ids:
        levels.append((name(i), "" if parent[i] is None else name(parent[i]), "go-" + name(i), "leave-" + name(i), auth[i],
                       USER_PAT[0] + prompt_tag[i] + USER_PAT[1]))
    trans = {}
    for i in range(n):
        t = {}
        if parent[i] is not None:
            t["leave-" + name(i)] = ("goto", name(parent[i]))
        for c in kids[i]:
            t["go-" + name(c)] = ("auth" if auth[c] else "goto", name(c))
        trans[name(i)] = t
    vendor = {"login_modes": [name(0)], "prompt": lambda d, m, pt=prompt_tag: "h%s(%s)#" % (d.host, pt[int(m[1:])]),
              "trans": trans, "invalid": "% bad", "submodes": [""]}
    return {"label": "user-%s-%d" % (kind, n), "platform": "user", "sessions": [], "names": [l[0] for l in levels],
            "levels": levels, "vendor": vendor, "kind": kind, "parent": parent,
            "rows": [(None if l[1] == "" else [x[0] for x in levels].index(l[1]), l[2].encode(), l[3].encode(), l[4]) for l in levels]}


def retabled(rng, v1, how):
    """T2: the table the user puts in force on the LIVE driver built with v1 (same level names, patterns and commands; the
    tree differs).  how = "edit": one or two levels get another previous_priv (any level outside their own subtree);
    "replace": a fresh random tree over the same levels, in another dict order, password levels drawn again"""
    parent = list(v1["parent"])
    n = len(parent)
    ids = [int(x[1:]) for x in v1["names"]]
    auth = {int(l[0][1:]): l[4] for l in v1["levels"]}
    auth = [auth[i] for i in range(n)]

    def subtree(c, par):
        out, todo = {c}, [c]
        while todo:
            x = todo.pop()
            for k in range(n):
                if par[k] == x and k not in out:
                    out.add(k)
                    todo.append(k)
        return out
    if how == "edit":
        for _ in range(rng.choice([1, 1, 2])):
            cand = [(c, p) for c in range(1, n) for p in range(n) if p != parent[c] and p not in subtree(c, parent)]
            if cand:
                c, p = rng.choice(cand)
                parent[c] = p
    else:
        while parent == list(v1["parent"]):
            parent = [None] + [rng.randrange(i) for i in range(1, n)]
        ids = list(ids)
        rng.shuffle(ids)
        auth = [i != 0 and rng.random() < 0.3 for i in range(n)]
    return tree_variant("tree", parent, ids, auth, {i: "m%d" % i for i in range(n)})


def put_in_force(d, dev, v2, how):
    """the user changes the privilege table of the live driver and calls update_privilege_levels(); the device's CLI is v2's"""
    from scrapli.driver.network.base_driver import PrivilegeLevel
    if how == "edit":
        for n, prev, esc, de, auth, pat in v2["levels"]:
            if d.privilege_levels[n].previous_priv != prev:
                d.privilege_levels[n].previous_priv = prev
    else:
        d.privilege_levels = {n: PrivilegeLevel(pattern=pat, name=n, previous_priv=prev, deescalate=de, escalate=esc, escalate_auth=auth,
                                                escalate_prompt=r"^[pP]assword:\s?$") for n, prev, esc, de, auth, pat in v2["levels"]}
    d.update_privilege_levels()
    dev.t = v2["vendor"]


def pair_walk(rng, names, start):
    """targets of a walk from `start` whose consecutive calls cover every ordered pair of levels"""
    todo = [(a, b) for a in names for b in names if a != b]
    rng.shuffle(todo)
    cur, out = start, []
    while todo:
        nxt = [p for p in todo if p[0] == cur]
        if not nxt:
            cur = todo[0][0]
            out.append(cur)
            continue
        todo.remove(nxt[0])
        cur = nxt[0][1]
        out.append(cur)
    return out


def table_term(variant):
    if variant.get("levels") is None:
        return "gen_%s_tab" % variant["label"]
    rows = ["mkP %s %s%%N %s%%N %s" % ("None" if p is None else "(Some %d%%nat)" % p, coq_bytes(e), coq_bytes(de),
                                        "true" if a else "false") for (p, e, de, a) in variant["rows"]]
    return "[%s]" % "; ".join(rows)


def nll(ll):
    return coq_list(["[%s]%%nat" % ";".join(str(x) for x in l) for l in ll])


def case_term(variant, src, dst, fault, obs, belief0=None):
    """belief0: the level the driver remembers when acquire_priv is called (default: src itself)"""
    names = obs["names"]
    ix = names.index
    b0 = src if belief0 is None else belief0
    bel0 = "None" if b0 == "DUMMY" else "(Some %d%%nat)" % ix(b0)
    k = fault["kind"]
    pairs = lambda es: coq_list(["(%d,%d)%%nat" % (ix(a), ix(b)) for (a, b) in es])
    stuck = pairs(fault.get("edges", [])) if k in ("refuse", "ignore") else "[]"
    mute = pairs(fault.get("edges", [])) if k == "mute" else "[]"
    secret = "(Some %s%%N)" % coq_bytes((obs.get("secret") if obs.get("secret") is not None else SECRET).encode()) if obs["asked"] else "None"
    inv = {mode_of(variant, n): i for i, n in enumerate(names)}
    log = coq_list(["(%d%%nat, %s%%N)" % (inv[m], coq_bytes(l)) for (m, l) in obs["log"]])
    hid = coq_list(["%s%%N" % coq_bytes(h) for h in obs["hidden"]])
    bel = "None" if obs["belief"] == "DUMMY" else "(Some %d%%nat)" % ix(obs["belief"])
    return "((%s, %s, %s, (%s, %s, %s, %s%%N), (%s, %d%%nat, %d%%nat), (%d%%nat, %s, %d%%nat, %s, %s)) : case_t)" % (
        table_term(variant), nll(obs["order"]), nll(obs["cls"]), stuck, mute, secret,
        coq_bytes(obs["auth_secondary"].encode()), bel0, ix(src), ix(dst),
        EXC_CODE.get(obs["exc"], 9), bel, inv[obs["mode"]], log, hid)


HEADER = """From Verif Require Import Bytes PrivGraph.
From Gen Require Import Gen_PrivGraph.
Local Open Scope nat_scope.
Definition code_ok (o : outcome) (c : nat) : bool :=
  match o with
  | Reached => c =? 0 | PrivilegeError => c =? 1
  | AuthFailed => (c =? 2) || (c =? 5) | Timeout => (c =? 3) || (c =? 5)
  | Crash => c =? 4 | OutOfFuel => false
  end.
Definition case_t : Type :=
  (table * list (list nat) * list (list nat) * (list (nat*nat) * list (nat*nat) * option bytes * bytes)
   * (option nat * nat * nat) * (nat * option nat * nat * list (nat * bytes) * list bytes))%type.
Definition chk (c : case_t) : bool :=
  let '(tab, order, cls, (stuck, mute, secret, sec), (bel0, src, dst), (oc, bel, fm, lg, hid)) := c in
  let '(o, b, s, tr) := run_acquire gen_factor gen_stop (mkC tab stuck mute secret sec) order cls bel0 src dst in
  order_ok tab order && code_ok o oc && oeqb b bel && (s_mode s =? fm) && log_eqb (s_log s) lg && lbeq (s_hidden s) hid.
(* a history of calls on one connection: per call (refused transitions, device secret, auth_secondary, target)
   and the observation (exception code, remembered level, device mode, lines executed / typed into password
   dialogues DURING that call); the model's device log after call i must be the concatenation up to i *)
Definition calls_t : Type :=
  (table * list (list nat) * list (list nat) * nat * nat * list bytes
   * list (list (nat * nat) * bool * nat * nat)
   * list (nat * option nat * nat * list (nat * nat) * list nat))%type.
Fixpoint chk_calls (tb : list bytes) (rs : list (outcome * option nat * sim * list line))
  (obs : list (nat * option nat * nat * list (nat * nat) * list nat)) (lg : list (nat * bytes)) (hid : list bytes) : bool :=
  match rs, obs with
  | [], [] => true
  | (o, b, s, _) :: rs', (oc, bel, fm, l, h) :: obs' =>
      let lg' := lg ++ map (fun e : nat * nat => (fst e, nth (snd e) tb [])) l in
      let hid' := hid ++ map (fun i => nth i tb []) h in
      code_ok o oc && oeqb b bel && (s_mode s =? fm) && log_eqb (s_log s) lg' && lbeq (s_hidden s) hid'
      && chk_calls tb rs' obs' lg' hid'
  | _, _ => false
  end.
(* byte strings are given once, in the table [tb] (entry 0: the device's secret), and referred to by index *)
Definition chk_seq (c : calls_t) : bool :=
  let '(tab, order, cls, tries, src, tb, cs, obs) := c in
  let cfgs := map (fun c : list (nat * nat) * bool * nat * nat =>
                     let '(stuck, asked, sec, dst) := c in
                     ((stuck, (if asked then Some (nth 0 tb []) else None), nth sec tb [], dst) : call_cfg)) cs in
  order_ok tab order && chk_calls tb (run_calls gen_factor gen_stop tries tab order cls cfgs (Some src) src) obs [] [].
Definition chk_any (c : case_t + calls_t) : bool := match c with inl x => chk x | inr y => chk_seq y end.
"""


def faults_for(variant, src, dst, edges, rng, thorough, on_route):
    fs = [{"kind": "none"}, {"kind": "nopw"}, {"kind": "nopw_blank"}, {"kind": "wrongpw"}, {"kind": "absentpw"}]
    if set(auth_level_edges(variant)) & set(on_route):
        # the device asks for a password on the route and its enable secret is EMPTY (just return is accepted), the
        # driver has no auth_secondary: a compliant device - acquire_priv must arrive (elsewhere the same as "none")
        fs.append({"kind": "emptypw"})
    route_e = [e for e in edges if e in on_route]
    off_e = [e for e in edges if e not in on_route]
    for e in route_e:
        fs.append({"kind": "refuse", "edges": [e]})
        fs.append({"kind": "ignore", "edges": [e]})
    if route_e:
        fs.append({"kind": "mute", "edges": [rng.choice(route_e)]})
    pick = off_e if thorough else rng.sample(off_e, min(2, len(off_e)))
    for e in pick:
        fs.append({"kind": rng.choice(["refuse", "ignore"]), "edges": [e]})
    if thorough:
        for i, a in enumerate(edges):
            for b in edges[i + 1:]:
                fs.append({"kind": "refuse", "edges": [a, b]})
        for e in route_e[1:]:
            fs.append({"kind": "mute", "edges": [e]})
    elif len(edges) >= 2:
        for _ in range(2):
            fs.append({"kind": rng.choice(["refuse", "ignore"]), "edges": rng.sample(edges, 2)})
    # devices whose prompt TEXT differs every time it is printed (counter / time of day in the host part):
    # refusing ones must still be given up on within the bound, compliant ones must still be navigated
    cand = [{"kind": "wrongpw"}, {"kind": "none"}, {"kind": "absentpw"}]
    for e in route_e:
        cand += [{"kind": "refuse", "edges": [e]}, {"kind": "ignore", "edges": [e]}]
    if thorough:
        pick = cand + [{"kind": "mute", "edges": [e]} for e in route_e[:1]]
    else:
        blocked = cand[3:] or cand[:1]
        pick = [rng.choice(blocked)] + ([rng.choice(cand)] if rng.random() < 0.5 else [])
    for f in pick:
        fs.append(dict(f, vary=rng.choice(VARY[1:])))
    return fs


def level_route(variant, edges, src, dst):
    dev = make_device(variant)
    ve = vendor_edges(dev, variant)
    inv = {mode_of(variant, n): n for n in variant["names"]}
    p = vendor_path(ve, mode_of(variant, src), mode_of(variant, dst)) or []
    return {(inv[a], inv[b]) for a, b in zip(p, p[1:])}


def explore(rep, variant, stacks, pairs, rng, thorough, factor, acc, oracle_on=True, policy_mix=True):
    """run scenarios of one variant; acc collects cases / terms / failures"""
    edges = level_edges(variant) if variant.get("kind") not in ("forest", "cycle", "ambiguous") else []
    for (src, dst) in pairs:
        on_route = level_route(variant, edges, src, dst) if edges or variant.get("kind") in (None, "tree", "shared") else set()
        fl = faults_for(variant, src, dst, edges, rng, thorough, on_route) if oracle_on else [{"kind": "none"}, {"kind": "nopw"}]
        for fault in fl:
            for stack in stacks:
                policy = ("whole",)
                if policy_mix and rng.random() < 0.15:
                    policy = rng.choice([("bytes", 1), ("bytes", 3), ("random", rng.randrange(1 << 30), 9)])
                obs = run_case(variant, stack, src, dst, fault, policy)
                sc = {"variant": variant["label"], "stack": stack, "src": src, "dst": dst, "fault": fault, "policy": list(policy)}
                if variant.get("levels") is not None:
                    sc["user_table"] = {"levels": variant["levels"], "kind": variant["kind"], "parent": variant["parent"]}
                if obs.get("setup_exc"):
                    if oracle_on:
                        acc["fail"].append((sc, obs, "could not navigate to the source level on a compliant device: %s" % obs["setup_exc"], None))
                    acc["dist"]["setup_failed"] = acc["dist"].get("setup_failed", 0) + 1
                    continue
                key = (variant["label"], stack, src, dst, json.dumps(fault, sort_keys=True))
                rep.case(key, nontrivial=src != dst)
                acc["terms"].append(case_term(variant, src, dst, fault, obs))
                acc["cases"].append((sc, obs, variant))
                d = acc["dist"]
                for kk in ("variant:" + variant["label"].split("-")[0] + ("-" + variant["kind"] if variant.get("kind") else ""),
                           "fault:" + fault["kind"] + (str(len(fault.get("edges", []))) if fault.get("edges") else ""),
                           "prompt-text:" + (fault.get("vary") or "constant"),
                           "outcome:" + str(obs["exc"]), "stack:" + stack, "policy:" + policy[0],
                           "attempts:%d" % len(obs["log"])):
                    d[kk] = d.get(kk, 0) + 1
                if oracle_on:
                    why, sig = oracle(variant, src, dst, fault, obs, factor)
                    if why:
                        acc["fail"].append((sc, obs, why, sig))


def explore_histories(rep, variant, stacks, rng, thorough, factor, acc, budget=None):
    """navigate to X, a user line that makes the device change its mode, acquire_priv(Y)"""
    moves = user_moves(variant)
    if budget is not None and len(moves) > budget:
        moves = rng.sample(moves, budget)
    names = variant["names"]
    dflt = default_level(variant)
    fill = {"command": ["show version", "show clock"], "configs": ["description x", "no shutdown"]}
    for (x, op, line, tgt) in moves:
        remembered = dflt if op == "command" else x
        others = [n for n in names if n != remembered]
        ys = [(remembered, stacks)]
        for y in (others if thorough else rng.sample(others, min(1, len(others)))):
            ys.append((y, stacks if thorough else (rng.choice(stacks),)))
        for (y, sts) in ys:
            for stack in sts:
                k = rng.randrange(3)
                lines = [line] if k == 0 else ([rng.choice(fill[op]), line] if k == 1 else [rng.choice(fill[op]), line, rng.choice(fill[op])])
                hist = {"reach": x, "op": op, "lines": lines, "acquire_first": rng.random() < 0.5 or op == "command"}
                if op == "command" and rng.random() < 0.5:
                    hist["reach"] = rng.choice(names)      # send_command navigates to the default level itself
                if rng.random() < 0.2:
                    hist["vary"] = rng.choice(VARY[1:])
                policy = ("whole",)
                if rng.random() < 0.15:
                    policy = rng.choice([("bytes", 1), ("bytes", 3), ("random", rng.randrange(1 << 30), 9)])
                obs = run_history(variant, stack, hist, y, policy)
                sc = {"variant": variant["label"], "stack": stack, "history": hist, "src": obs.get("actual"), "dst": y,
                      "fault": {"kind": "none"}, "policy": list(policy)}
                if variant.get("levels") is not None:
                    sc["user_table"] = {"levels": variant["levels"], "kind": variant["kind"], "parent": variant["parent"]}
                d = acc["dist"]
                if obs.get("setup_exc"):
                    acc["fail"].append((sc, obs, "history on a compliant device failed before acquire_priv: %s" % obs["setup_exc"], None))
                    d["history:setup_failed"] = d.get("history:setup_failed", 0) + 1
                    continue
                a = obs["actual"]
                rep.case(("hist", variant["label"], stack, json.dumps(hist, sort_keys=True), y), nontrivial=a != obs["belief0"])
                acc["terms"].append(case_term(variant, a, y, {"kind": "none"}, obs, belief0=obs["belief0"]))
                acc["cases"].append((sc, obs, variant))
                why, sig, inside = history_oracle(variant, y, obs, factor)
                for kk in ("history:" + op, "history:remembered-%s-device" % ("is" if a == obs["belief0"] else "differs-from"),
                           "history:target-%s" % ("remembered" if y == obs["belief0"] else "actual" if y == a else "other"),
                           "history:oracle-%s" % ("on" if inside else "off(shared prompt)"), "stack:" + stack, "outcome:" + str(obs["exc"])):
                    d[kk] = d.get(kk, 0) + 1
                if why:
                    acc["fail"].append((sc, obs, "after a user line changed the device's mode (device in %s, driver remembers %s): %s" % (
                        a, obs["belief0"], why), sig))


def ordered_route(variant, src, dst):
    """[(level, level')] hops of the vendor path src..dst, in order"""
    dev = make_device(variant)
    ve = vendor_edges(dev, variant)
    inv = {mode_of(variant, n): n for n in variant["names"]}
    p = vendor_path(ve, mode_of(variant, src), mode_of(variant, dst)) or []
    return [(inv[a], inv[b]) for a, b in zip(p, p[1:])]


def auth_level_edges(variant):
    """adjacent level pairs (a, b) whose vendor transition opens a password dialogue"""
    dev = make_device(variant)
    inv = {mode_of(variant, n): n for n in variant["names"]}
    out = set()
    for m, tr in dev.t["trans"].items():
        for line, (kind, tgt) in tr.items():
            if kind == "auth" and m in inv and tgt in inv:
                out.add((inv[m], inv[tgt]))
    return sorted(out)


def call_histories(variant, rng, counts):
    """histories of acquire_priv calls on one connection in which earlier calls legitimately FAIL and later
    ones must be judged on their own.  counts = (refused-then-cooperating, wrong-then-corrected secret,
    long fault-free walks, random mixes)"""
    names = variant["names"]
    if len(names) < 2:
        return []
    n = len(names)
    none = {"kind": "none"}
    other = lambda x: rng.choice([y for y in names if y != x])
    out = []
    pairs = [(a, b) for a in names for b in names if a != b]
    # (1) the device refuses / ignores a transition of the route for one or two whole calls (each gives up at
    #     its bound), then cooperates: the very same call again, then other targets
    for _ in range(counts[0]):
        src, dst = rng.choice(pairs)
        e = rng.choice(ordered_route(variant, src, dst))
        bad = {"kind": rng.choice(["refuse", "ignore"]), "edges": [list(e)]}
        calls = [{"dst": dst, "fault": bad} for _ in range(rng.choice([1, 1, 2]))]
        calls.append({"dst": dst, "fault": none})
        z = other(dst)
        calls.append({"dst": z, "fault": none})
        if rng.random() < 0.5:
            calls.append({"dst": other(z), "fault": none})
        out.append({"kind": "refused-then-cooperating", "start": src, "tries": 3, "calls": calls})
    # (2) wrong / absent auth_secondary, then corrected on the same connection object; devices whose dialogue
    #     takes 1 (prompt again at once: the call loops to its bound), 2 or 3 passwords (the failed call leaves
    #     the dialogue pending: the next calls begin inside it)
    ae = auth_level_edges(variant)
    cross = [(a, b, e) for (a, b) in pairs for e in ae if e in ordered_route(variant, a, b)]
    for _ in range(counts[1] if cross else 0):
        src, dst, e = rng.choice(cross)
        tries = rng.choice([1, 1, 3, 3, 2])
        calls = [{"dst": dst, "fault": {"kind": rng.choice(["wrongpw", "absentpw"])}} for _ in range(rng.choice([1, 1, 2]))]
        calls += [{"dst": dst, "fault": none} for _ in range(tries)]
        calls.append({"dst": other(dst), "fault": none})
        calls.append({"dst": dst, "fault": none})
        out.append({"kind": "wrong-then-corrected-secret", "start": src, "tries": tries, "calls": calls})
    # (3) more fault-free calls than the bound of one call has attempts: nothing may add up from call to call
    for _ in range(counts[2]):
        cur = rng.choice(names)
        calls, steps = [], 0
        start = cur
        while steps <= 2 * n + 2 or len(calls) < 3:
            nxt = other(cur)
            steps += len(ordered_route(variant, cur, nxt))
            calls.append({"dst": nxt, "fault": none})
            cur = nxt
        out.append({"kind": "long-walk", "start": start, "tries": 3, "calls": calls})
    # (4) random mixes of failing and cooperating calls
    edges = level_edges(variant)
    for _ in range(counts[3]):
        start = rng.choice(names)
        pos = start
        tries = rng.choice([1, 3])
        calls = []
        for _ in range(rng.randrange(3, 8)):
            dst = rng.choice(names)
            route = ordered_route(variant, pos, dst)
            x = rng.random()
            if x < 0.5 or not edges:
                fault = none
            elif x < 0.85:
                e = rng.choice(route) if route and rng.random() < 0.7 else rng.choice(edges)
                fault = {"kind": rng.choice(["refuse", "ignore"]), "edges": [list(e)]}
            else:
                fault = {"kind": rng.choice(["wrongpw", "absentpw"])}
            calls.append({"dst": dst, "fault": fault})
            blocked = [h for h in route if list(h) in fault.get("edges", []) or (fault["kind"] in ("wrongpw", "absentpw") and h in ae)]
            pos = blocked[0][0] if blocked else dst    # where a faithful driver leaves the device (only steers the generator)
        calls.append({"dst": rng.choice(names), "fault": none})
        out.append({"kind": "mixed", "start": start, "tries": tries, "calls": calls})
    return out


def explore_calls(rep, variant, stacks, rng, factor, acc, counts, hists=None, policy_mix=True):
    """histories of several acquire_priv calls on one connection: every call judged on its own"""
    hists = call_histories(variant, rng, counts) if hists is None else hists
    for hist in hists:
        for stack in (stacks if hist["kind"] != "long-walk" and hist["kind"] != "mixed" else (rng.choice(stacks),)):
            hist = dict(hist)
            if policy_mix and rng.random() < 0.15:
                hist["vary"] = rng.choice(VARY[1:])
            policy = ("whole",)
            # split reads only where no secret is rejected: SimDevice ends every vendor's dialogue with the IOS text
            # "% Bad secrets", and a read ending right after its "%" is a Junos shell prompt to get_prompt (prompt
            # detection under read chunking is C02's / C05's subject, the text an artefact of the simulated device)
            rejected = any(c["fault"]["kind"] in ("wrongpw", "absentpw") for c in hist["calls"])
            if policy_mix and not rejected and rng.random() < 0.15:
                policy = rng.choice([("bytes", 1), ("bytes", 3), ("random", rng.randrange(1 << 30), 9)])
            obs = run_calls(variant, stack, hist, policy)
            sc = {"variant": variant["label"], "stack": stack, "calls_history": hist, "src": hist["start"], "dst": None,
                  "fault": {"kind": "none"}, "policy": list(policy)}
            if variant.get("levels") is not None:
                sc["user_table"] = {"levels": variant["levels"], "kind": variant["kind"], "parent": variant["parent"]}
            d = acc["dist"]
            if obs.get("setup_exc"):
                acc["fail"].append((sc, obs, "could not navigate to the first level of a history on a compliant device: %s" % obs["setup_exc"], None))
                d["calls:setup_failed"] = d.get("calls:setup_failed", 0) + 1
                continue
            failed_before, judged_after_failure = False, 0
            for i, c in enumerate(obs["calls"]):
                why, sig, how = call_oracle(variant, hist, obs, i, factor)
                if failed_before and how == "strict" and c["exc"] is None:
                    judged_after_failure += 1
                for kk in ("calls:call-" + how, "calls:outcome:" + str(c["exc"]),
                           "calls:%s-an-earlier-call-failed" % ("after" if failed_before else "before")):
                    d[kk] = d.get(kk, 0) + 1
                if c["pre_dialog"]:
                    d["calls:begun-inside-a-password-dialogue"] = d.get("calls:begun-inside-a-password-dialogue", 0) + 1
                if why:
                    sci = dict(sc, call=i, src=c["pre_mode"], dst=hist["calls"][i]["dst"], fault=hist["calls"][i]["fault"])
                    acc["fail"].append((sci, obs, "call %d of a history of %d acquire_priv calls on one connection (%s; %d earlier call(s) "
                                        "ended in an error, the device was in %s%s when this call began): %s" % (
                                            i + 1, len(hist["calls"]), hist["kind"], sum(1 for x in obs["calls"][:i] if x["exc"]), c["pre_mode"],
                                            ", inside a password dialogue," if c["pre_dialog"] else "", why), sig))
                    if not sig:     # a listed finding's signature: the later calls are still judged
                        break
                failed_before = failed_before or c["exc"] is not None
            rep.case(("calls", variant["label"], stack, json.dumps(hist, sort_keys=True)),
                     nontrivial=judged_after_failure > 0 or "retable" in hist)
            for kk in ("calls:history:" + hist["kind"], "calls:tries:%d" % hist.get("tries", 3), "calls:length:%d" % len(hist["calls"]),
                       "calls:successes-judged-after-a-failure:%s" % ("0" if not judged_after_failure else "1+"), "stack:" + stack):
                d[kk] = d.get(kk, 0) + 1
            if len(obs["calls"]) == len(hist["calls"]):
                acc["seq_terms"].append(calls_term(variant, hist, obs))
                acc["seq_cases"].append((sc, obs, variant))


def explore_retable(rep, stacks, rng, thorough, factor, acc, count):
    """construct with table T1 -> navigate to a level -> the user edits previous_priv of one or two levels / replaces the
    table by T2 on the LIVE driver -> update_privilege_levels() -> a walk of acquire_priv calls covering every ordered pair
    of T2, every call judged on its own against T2 (the table in force; the device's CLI is T2's)"""
    for i in range(count):
        v1 = random_tree(rng, "tree")
        while not 3 <= len(v1["names"]) <= (6 if thorough else 5):
            v1 = random_tree(rng, "tree")
        how = "edit" if i % 2 == 0 else "replace"
        v2 = retabled(rng, v1, how)
        v2["label"] = "user-retable-%d" % len(v2["names"])
        start = rng.choice(v1["names"]) if rng.random() < 0.75 else "m0"
        hist = {"kind": "retable-" + how, "start": start, "tries": 3,
                "retable": {"how": how, "before": {"levels": v1["levels"], "kind": "tree", "parent": v1["parent"]}},
                "calls": [{"dst": t, "fault": {"kind": "none"}} for t in pair_walk(rng, v2["names"], start)]}
        explore_calls(rep, v2, stacks if i % 4 < 2 else (rng.choice(stacks),), rng, factor, acc, None, hists=[hist])


def obs_json(obs):
    o = dict(obs)
    if "log" in o:
        o["log"] = [[m, l.decode("latin-1")] for (m, l) in o["log"]]
        o["hidden"] = [h.decode("latin-1") for h in o["hidden"]]
    if "calls" in o:
        o["calls"] = [obs_json(c) for c in o["calls"]]
    return o


def core_variants(vs):
    return [{"label": v["label"], "platform": v["platform"], "sessions": v["sessions"], "names": v["names"]} for v in vs]


def bare_variants():
    """the translator rejects the tables: level names straight from constructed drivers, nothing else read"""
    from gen import gen_privgraph
    out = []
    for p in gen_privgraph.PLATFORMS:
        for k in range(len(gen_privgraph.SESSIONS.get(p, [])) + 1):
            sess = gen_privgraph.SESSIONS.get(p, [])[:k]
            try:
                d = gen_privgraph.driver_class(p)(host="gen", transport="telnet", auth_bypass=True)
                for x in sess:
                    d.register_configuration_session(x)
                names = list(d.privilege_levels.keys())
            except Exception:  # noqa
                names = None
            out.append({"label": p + ("" if k == 0 else "_s%d" % k), "platform": p, "sessions": sess, "names": names})
    return out


def real_timeout_cases(rep, variants, acc):
    """a few runs where a starved read really blocks and scrapli's own timeout fires (timeout_ops
    0.6 s): only the exception CLASS is compared (no duration is asserted)"""
    by = {v["label"]: v for v in variants}
    todo = [("cisco_iosxe", "exec", "privilege_exec", {"kind": "wrongpw"}, "ScrapliAuthenticationFailed"),
            ("juniper_junos", "exec", "root_shell", {"kind": "absentpw"}, "ScrapliAuthenticationFailed"),
            ("cisco_iosxr", "privilege_exec", "configuration", {"kind": "mute", "edges": [("privilege_exec", "configuration")]}, "ScrapliTimeout"),
            ("arista_eos", "configuration", "exec", {"kind": "mute", "edges": [("configuration", "privilege_exec")]}, "ScrapliTimeout")]
    for lab, src, dst, fault, want in todo:
        for stack in ("sync", "async"):
            # anything unexpected must reproduce 3 times out of 3 before it counts (a loaded machine
            # can stall an operation that should have completed past the sub-second timeout)
            for attempt in range(3):
                obs = run_case(by[lab], stack, src, dst, fault, ("whole",), blocking=0.6)
                got = obs.get("exc") or obs.get("setup_exc")
                if not obs.get("setup_exc") and got == want:
                    break
            sc = {"variant": lab, "stack": stack, "src": src, "dst": dst, "fault": fault, "policy": ["whole"], "blocking": 0.6}
            rep.case(("rt", lab, stack, src, dst), nontrivial=True)
            acc["dist"]["real_timeout:" + str(obs.get("exc"))] = acc["dist"].get("real_timeout:" + str(obs.get("exc")), 0) + 1
            if obs.get("setup_exc") or got not in ("ScrapliPrivilegeError", "ScrapliAuthenticationFailed", "ScrapliTimeout"):
                acc["fail"].append((sc, obs, "device stops answering: acquire_priv ended with %s, not a scrapli privilege/authentication/timeout error" % got, None))
            elif got != want:   # property fine (a scrapli error), but not the class the model predicts
                acc["rt_mismatch"].append("real-timeout %s %s %s->%s: model %s, implementation %s" % (lab, stack, src, dst, want, got))


def run(rep):
    from gen import gen_privgraph

    rng = rep.rng
    thorough = rep.tier == "thorough"
    t0 = time.time()
    # 1. regenerate from the source
    info, vs = {}, []
    try:
        _, info, vs = gen_privgraph.generate(rep.workdir)
        rc, out, _ = common.coqc(os.path.join(rep.workdir, "Gen_PrivGraph.v"), rep.workdir)
        if rc:
            rep.broken.append("Gen_PrivGraph.v")
            rep.notes.append(out[-2000:])
    except Exception as e:  # translator aborted: broken tie
        rep.broken.append("gen_privgraph:%s" % e)
    # 2. proofs
    ok, _ = rep.build_static()
    rep.add_static_obligations("props/C04.v", ok)
    if not ok:
        rep.broken.append("static-build")
    props_ok = False
    if ok and not rep.broken:
        props_ok, _ = rep.compile_props("props/C04.v")
    factor = info.get("factor", 2)
    t1 = time.time()
    # 3. correspondence + oracle
    acc = {"terms": [], "cases": [], "fail": [], "dist": {}, "rt_mismatch": [], "seq_terms": [], "seq_cases": []}
    variants = core_variants(vs) if vs else []
    if not variants:   # the translator failed: still explore the implementation (oracle only), tables from the drivers
        try:
            variants = core_variants(gen_privgraph.variants())
        except Exception as e:  # noqa
            rep.notes.append("no core variants from the translator: %r" % e)
            variants = bare_variants()
    for v in variants:
        if v["names"] is None:
            continue
        pairs = [(a, b) for a in v["names"] for b in v["names"]]
        if not thorough:
            same = [(a, a) for a in v["names"]]
            pairs = [p for p in pairs if p[0] != p[1]] + rng.sample(same, 1)
            if len(pairs) > 14:      # the larger tables: every pair without fault below, a sample with faults here
                pairs = rng.sample(pairs, 14)
        explore(rep, v, ("sync", "async"), pairs, rng, thorough, factor, acc)
        if not thorough:   # all ordered pairs, no fault / no password asked, both stacks — always
            allp = [(a, b) for a in v["names"] for b in v["names"] if a != b and (a, b) not in pairs]
            for (a, b) in allp:
                for stack in ("sync", "async"):
                    for fault in ({"kind": "none"}, {"kind": "nopw_blank"}):
                        obs = run_case(v, stack, a, b, fault)
                        sc = {"variant": v["label"], "stack": stack, "src": a, "dst": b, "fault": fault, "policy": ["whole"]}
                        if obs.get("setup_exc"):
                            acc["fail"].append((sc, obs, "could not navigate to the source level: %s" % obs["setup_exc"], None))
                            continue
                        rep.case((v["label"], stack, a, b, fault["kind"]))
                        acc["terms"].append(case_term(v, a, b, fault, obs))
                        acc["cases"].append((sc, obs, v))
                        acc["dist"]["allpairs"] = acc["dist"].get("allpairs", 0) + 1
                        why, sig = oracle(v, a, b, fault, obs, factor)
                        if why:
                            acc["fail"].append((sc, obs, why, sig))
        explore_histories(rep, v, ("sync", "async"), rng, thorough, factor, acc)
        explore_calls(rep, v, ("sync", "async"), rng, factor, acc, (12, 8, 3, 12) if thorough else (3, 2, 1, 3))
    # user-supplied tables: random trees (with and without shared leaf prompts), then the malformed stream
    n_trees = 60 if thorough else 14
    for i in range(n_trees):
        kind = "shared" if i % 3 == 2 else "tree"
        v = random_tree(rng, kind)
        pairs = [(a, b) for a in v["names"] for b in v["names"] if a != b]
        if len(pairs) > (30 if thorough else 6):
            pairs = rng.sample(pairs, 30 if thorough else 6)
        explore(rep, v, ("sync", "async") if i % 2 == 0 else (rng.choice(["sync", "async"]),), pairs, rng, False, factor, acc)
        if len(v["names"]) > 1:
            explore_histories(rep, v, (rng.choice(["sync", "async"]),), rng, False, factor, acc, budget=12 if thorough else 3)
            explore_calls(rep, v, (rng.choice(["sync", "async"]),), rng, factor, acc, (3, 2, 1, 3) if thorough else (1, 1, 0, 1))
    explore_retable(rep, ("sync", "async"), rng, thorough, factor, acc, 24 if thorough else 8)
    for i in range(40 if thorough else 10):
        v = random_tree(rng, ["forest", "cycle", "ambiguous"][i % 3])
        pairs = [(a, b) for a in v["names"] for b in v["names"] if a != b]
        pairs = rng.sample(pairs, min(len(pairs), 8 if thorough else 4))
        explore(rep, v, (rng.choice(["sync", "async"]),), pairs, rng, False, factor, acc, oracle_on=False)
    if variants and variants[0]["names"] is not None:
        real_timeout_cases(rep, variants, acc)
    # the listed findings are replayed on every run; reported only if they still fail that way
    for f in rep.findings:
        try:
            fr = json.load(open(os.path.join(common.VERIF, f["replay"])))
            sc = fr["scenario"]
            v = [x for x in variants if x["label"] == sc["variant"]][0]
            fault = dict(sc["fault"])
            if "edges" in fault:
                fault["edges"] = [tuple(e) for e in fault["edges"]]
            obs = run_case(v, sc["stack"], sc["src"], sc["dst"], fault, tuple(sc.get("policy", ["whole"])))
            why, sig = (None, None) if obs.get("setup_exc") else oracle(v, sc["src"], sc["dst"], fault, obs, factor)
            acc["dist"]["finding_replay:%s:%s" % (f["id"], "still-fails" if why else "holds-now")] = 1
            if why and sig == f.get("signature") and f.get("kind") == "known":
                rep.known(sig)
            elif why and f.get("kind") == "fixed":
                acc["fail"].append((sc, obs, "regression of fixed finding %s: %s" % (f["id"], why), None))
        except Exception as e:  # noqa
            rep.notes.append("finding %s could not be replayed: %r" % (f.get("id"), e))
    t2 = time.time()
    # the (larger) history terms are spread evenly over the single-call ones, so that every shard gets its share
    all_terms, all_cases = [], []
    every = max(1, len(acc["terms"]) // max(1, len(acc["seq_terms"])))
    k = 0
    for i, t in enumerate(acc["terms"]):
        all_terms.append("(inl %s)" % t)
        all_cases.append(acc["cases"][i])
        if i % every == every - 1 and k < len(acc["seq_terms"]):
            all_terms.append("(inr %s)" % acc["seq_terms"][k])
            all_cases.append(acc["seq_cases"][k])
            k += 1
    all_terms += ["(inr %s)" % t for t in acc["seq_terms"][k:]]
    all_cases += acc["seq_cases"][k:]
    bad, log = common.eval_cases(rep.workdir, "cases_c04", HEADER, all_terms, "chk_any") if not [b for b in rep.broken if b.startswith("gen") or b.startswith("Gen")] else (None, "generation failed")
    t3 = time.time()
    rep.coverage["correspondence"] = {"suite": "net-nav", "cases": len(all_terms), "call_histories": len(acc["seq_terms"]),
                                      "distribution": dict(sorted(acc["dist"].items())),
                                      "model_disagreements": None if bad is None else len(bad),
                                      "oracle_failures": len(acc["fail"])}
    rep.coverage["generated_from"] = common.source_hashes(gen_privgraph.SOURCES)
    rep.coverage["generated"] = info
    rep.rule = ("scenario = (privilege table variant: 5 core platforms, EOS/NX-OS with 1 and 2 registered sessions, random user trees "
                "with shuffled dict order / shared leaf prompts, malformed: forest, cycle, ambiguous inner prompt) x ordered pair (source "
                "navigated to by the driver, target) x fault (none, no password asked, wrong / absent auth_secondary, each refused / "
                "ignored / silent transition of the route, off-route and double refusals; the same on devices whose prompt text varies at every "
                "print) x sync/asyncio x read chunking; histories (level reached, user line that moves the device via send_command(s) / "
                "send_configs with fillers, acquire_priv of the remembered / another level); histories of 3..12 acquire_priv calls on one "
                "connection (device refusing / ignoring a route transition for whole calls then cooperating, wrong / absent then corrected "
                "auth_secondary with a 1/2/3-attempt password dialogue, fault-free walks longer than one call's bound, random mixes), every "
                "call judged on its own; histories 'driver built with tree T1, level reached, previous_priv of 1-2 levels edited in place / "
                "privilege_levels replaced by another tree T2 over the same levels, update_privilege_levels(), walk of acquire_priv calls over "
                "every ordered pair of T2' judged against T2; fault emptypw = the device asks for a password, its enable secret is empty, "
                "no auth_secondary (must arrive); "
                "non-trivial = source != target; distinct = (variant, stack, pair, fault)")
    for (sc, obs, v) in acc["cases"][:1] + acc["cases"][len(acc["cases"]) // 2:len(acc["cases"]) // 2 + 2]:
        rep.sample({"scenario": {k: sc[k] for k in ("variant", "stack", "src", "dst", "fault")}, "exc": obs["exc"], "final_mode": obs["mode"],
                    "log": obs_json(obs)["log"][:12]})
    # oracle failures on the implementation: violations with a concrete replay (known signature => KNOWN-FINDING)
    reported = 0
    for (sc, obs, why, sig) in acc["fail"]:
        if reported >= 6 and not sig:
            break
        new = rep.violation("%s [%s %s %s->%s fault %s]" % (why, sc["variant"], sc["stack"], sc["src"], sc["dst"], json.dumps(sc["fault"])),
                            {"suite": "net-nav", "scenario": sc, "observed": obs_json(obs), "rerun": "./check C04 --replay <this file>"},
                            signature=sig)
        reported += 1 if new else 0
    unlisted = [f for f in acc["fail"] if not (f[3] and rep.known_match(f[3]))]
    if bad is None:
        rep.broken.append("correspondence net-nav (model evaluation failed)")
        rep.notes.append(log)
    elif bad:
        for ix in bad[:5]:
            sc, obs, v = all_cases[ix]
            if "calls_history" in sc:
                rep.broken.append("correspondence net-nav: model differs from implementation on the history of calls %s %s %s" % (
                    sc["variant"], sc["stack"], json.dumps(sc["calls_history"], sort_keys=True)))
            else:
                rep.broken.append("correspondence net-nav: model differs from implementation on %s %s %s->%s %s" % (
                    sc["variant"], sc["stack"], sc["src"], sc["dst"], json.dumps(sc["fault"])))
            rep.notes.append("disagreement: %r / observed %r" % (sc, obs_json(obs)))
    for m in acc["rt_mismatch"]:
        rep.broken.append("correspondence net-nav: " + m)
    if (bad or rep.broken) and not unlisted:
        search(rep, variants, factor, rng)
    rep.notes.append("phase times: proofs %.1fs, runs of the real code %.1fs, model evaluation %.1fs, total %.1fs" % (
        t1 - t0, t2 - t1, t3 - t2, time.time() - t0))


def search(rep, variants, factor, rng):
    """an obligation or the correspondence broke and the oracle has no failing input yet: exhaustive
    search over every core variant, every ordered pair, every single fault, both stacks"""
    n = 0
    for v in variants:
        if v["names"] is None:
            continue
        acc = {"terms": [], "cases": [], "fail": [], "dist": {}, "rt_mismatch": []}
        pairs = [(a, b) for a in v["names"] for b in v["names"]]
        explore(rep, v, ("sync", "async"), pairs, rng, True, factor, acc, policy_mix=False)
        # histories of calls on one connection: for every ordered pair the first hop of the route ignored /
        # refused for a whole call, then the same call and another one against the cooperating device; every
        # authenticated hop with a wrong secret (device giving 1 and 3 attempts), then the corrected one
        hists = []
        for (a, b) in pairs:
            route = ordered_route(v, a, b)
            if not route:
                continue
            z = [x for x in v["names"] if x != b]
            bad = {"kind": "ignore" if (len(hists) % 2) else "refuse", "edges": [list(route[0])]}
            hists.append({"kind": "refused-then-cooperating", "start": a, "tries": 3,
                          "calls": [{"dst": b, "fault": bad}, {"dst": b, "fault": {"kind": "none"}},
                                    {"dst": z[len(hists) % len(z)], "fault": {"kind": "none"}}]})
            if any(e in auth_level_edges(v) for e in route):
                for tries in (1, 3):
                    hists.append({"kind": "wrong-then-corrected-secret", "start": a, "tries": tries,
                                  "calls": [{"dst": b, "fault": {"kind": "wrongpw"}}] + [{"dst": b, "fault": {"kind": "none"}}] * (tries + 1)})
        acc["seq_terms"], acc["seq_cases"] = [], []
        explore_calls(rep, v, ("sync", "async"), rng, factor, acc, None, hists=hists, policy_mix=False)
        for (sc, obs, why, sig) in acc["fail"]:
            if sig and rep.known_match(sig):
                continue
            rep.violation("%s [%s %s %s->%s fault %s] (found by the search after a broken obligation)" % (
                why, sc["variant"], sc["stack"], sc["src"], sc["dst"], json.dumps(sc["fault"])),
                {"suite": "net-nav", "scenario": sc, "observed": obs_json(obs), "rerun": "./check C04 --replay <this file>"}, signature=sig)
            n += 1
            if n >= 4:
                return


def _variant_from_scenario(sc):
    from gen import gen_privgraph
    if "user_table" in sc:
        ut = sc["user_table"]
        levels = [tuple(l) for l in ut["levels"]]
        names = [l[0] for l in levels]
        trans = {n: {} for n in names}
        for (n, prev, esc, de, auth, pat) in levels:
            if prev:
                trans[n][de] = ("goto", prev)
                trans[prev][esc] = ("auth" if auth else "goto", n)
        pre = [x for x in (USER_PAT[0], r"^h\(") if levels[0][5].startswith(x)][0]   # older replay files: constant prompts
        tag = {l[0]: l[5][len(pre):-len(USER_PAT[1])] for l in levels}
        vendor = {"login_modes": ["m0"], "prompt": lambda d, m: "h%s(%s)#" % (d.host, tag[m]), "trans": trans, "invalid": "% bad", "submodes": [""]}
        return {"label": sc["variant"], "platform": "user", "sessions": [], "names": names, "levels": levels, "vendor": vendor,
                "kind": ut["kind"], "parent": ut["parent"], "rows": []}
    try:
        vs = core_variants(gen_privgraph.variants())
    except Exception:  # noqa
        vs = bare_variants()
    for v in vs:
        if v["label"] == sc["variant"]:
            return v
    raise SystemExit("unknown variant %s" % sc["variant"])


def _factor():
    """the loop-bound factor read from the source; 2 (the documented bound 2*|levels|) when it cannot be read"""
    from gen import gen_privgraph
    try:
        return gen_privgraph.bound_factor()
    except Exception:  # noqa
        return 2


def replay(path):
    r = json.load(open(path))
    sc = r.get("scenario")
    if not sc:
        print("nothing to replay (no concrete input): %s" % r.get("what"))
        return 1
    os.makedirs(os.path.join(common.BUILD, "C04"), exist_ok=True)
    v = _variant_from_scenario(sc)
    fault = dict(sc["fault"])
    if "edges" in fault:
        fault["edges"] = [tuple(e) for e in fault["edges"]]
    if "calls_history" in sc:
        hist = sc["calls_history"]
        obs = run_calls(v, sc["stack"], hist, tuple(sc.get("policy", ["whole"])))
        print("scenario:", json.dumps(sc, default=repr)[:1500])
        if obs.get("setup_exc"):
            print("property FAILS on this input: could not navigate to the first level (%s)" % obs["setup_exc"])
            return 1
        rc = 0
        for i, c in enumerate(obs["calls"]):
            why, sig, how = call_oracle(v, hist, obs, i, _factor())
            print("call %d: device in %s%s, driver remembers %s, %s, acquire_priv(%s) -> %s, device in %s, typed %r" % (
                i + 1, c["pre_mode"], " (password dialogue pending)" if c["pre_dialog"] else "", c["belief0"],
                json.dumps(hist["calls"][i]["fault"]), hist["calls"][i]["dst"], c["exc"] or "returned", c["mode"],
                [l.decode("latin-1") for (_, l) in c["log"]]))
            if why:
                print("property FAILS on this input: call %d of the history, judged on its own: %s%s" % (
                    i + 1, why, " [known finding %s]" % sig if sig else ""))
                rc = 1
                break
        if not rc:
            print("property holds on this input")
        return rc
    if "history" in sc:
        obs = run_history(v, sc["stack"], sc["history"], sc["dst"], tuple(sc.get("policy", ["whole"])))
        print("scenario:", json.dumps(sc, default=repr)[:900])
        print("observed:", json.dumps(obs_json(obs), default=repr)[:1500])
        if obs.get("setup_exc"):
            print("property FAILS on this input: %s" % obs["setup_exc"])
            return 1
        why, sig, inside = history_oracle(v, sc["dst"], obs, _factor())
        print("property holds on this input%s" % ("" if inside else " (outside: levels sharing a prompt)") if not why else
              "property FAILS on this input: device in %s, driver remembers %s, acquire_priv(%s): %s" % (obs["actual"], obs["belief0"], sc["dst"], why))
        return 0 if not why else 1
    obs = run_case(v, sc["stack"], sc["src"], sc["dst"], fault, tuple(sc.get("policy", ["whole"])), blocking=sc.get("blocking"))
    print("scenario:", json.dumps(sc, default=repr)[:600])
    print("observed:", json.dumps(obs_json(obs), default=repr)[:1500])
    if obs.get("setup_exc"):
        print("property FAILS on this input: could not navigate to the source level (%s)" % obs["setup_exc"])
        return 1
    why, sig = oracle(v, sc["src"], sc["dst"], fault, obs, _factor())
    if sc.get("blocking") and not why:
        want = "ScrapliAuthenticationFailed" if fault["kind"] in ("wrongpw", "absentpw") else "ScrapliTimeout"
        if obs["exc"] != want:
            why = "expected %s, got %s" % (want, obs["exc"])
    print("property holds on this input" if not why else "property FAILS on this input: %s%s" % (why, " [known finding %s]" % sig if sig else ""))
    return 0 if not why else 1


MANIFEST = {
    "text": "Coq theorems (props/C04.v, all 'Closed under the global context'). nav_reaches: for EVERY privilege table whose previous_priv "
            "pointers form a tree, EVERY iteration order of the _priv_graph sets, every ordered pair (source = what the driver believes and the "
            "device is in, target) and a device that performs the requested single-step transitions, the model of acquire_priv returns normally "
            "with device mode = belief = target and the transitions attempted are exactly the route 'deescalate up to the meeting point, escalate "
            "down', each once, at most |levels|-1 of them, below the loop bound for any factor >= 1; nav_reaches_table: the same for every concrete "
            "table passing the boolean checks is_tree / order_ok / cls_ok. nav_bounded: for EVERY device whatsoever (all refusal sets, all "
            "password outcomes) the loop ends within factor*|levels|+1 attempts, never out of fuel; on trees only in success, "
            "ScrapliPrivilegeError, ScrapliAuthenticationFailed or ScrapliTimeout (nav_bounded_tree). reached_sound (partial): with unambiguous "
            "prompts a normal return means the device is in the target, for every device; the full statement is refuted (refusal_full_refuted: "
            "levels sharing a prompt + refused deescalate => normal return in the wrong level - known finding). dfs_sound / dfs_complete for any "
            "graph. nav_reaches_stale_belief: the property has no 'mode changed only by the driver' proviso (C03 has one) - with the "
            "hypotheses of nav_reaches, ANY remembered level or DUMMY (a line the user sent through send_command / send_configs moved the "
            "device) and the prompt of the device's level matched by that level only, the same conclusion (acquire_stale_belief: the "
            "remembered level is consulted only to choose among several matching levels); core_platforms_stale_belief: by vm_compute over "
            "every generated table, every remembered level x source with an exact prompt x target x 5 password situations, the byte-level "
            "result equals the one with the right memory. Per platform by vm_compute over the tables regenerated from the source on every run (5 core platforms, EOS/NX-OS with 1 and "
            "2 registered sessions): is_tree, command distinctness, observed set order, and for ALL ordered pairs under no / every single / every "
            "pair of refused transitions x 5 secondary-password situations: success with exactly the route's command lines in the simulated "
            "device log iff nothing blocks the route, else a bounded PrivilegeError / AuthenticationFailed in front of the first blocked hop "
            "(outside the shared-prompt region). Tie: Gen_PrivGraph.v (tables, set order, loop-bound factor and the send_inputs_interact early-exit "
            "fact by ast) + correspondence of the model with the real sync and asyncio drivers over SimDevice (device log, final mode, belief, "
            "exception class) on all ordered pairs x faults, on devices whose prompt TEXT differs at every print (counter / time of day in "
            "the host part; refusing, ignoring, wrong-password and compliant ones - the bounded-attempts oracle uses a step budget of 600 "
            "executed lines, no clock) and on histories 'reach X, a user line from the vendor table (or Junos commit and-quit / EOS session "
            "commit) through send_command(s) / send_configs makes the device change level, acquire_priv(X | Y)' with the stale remembered "
            "level fed to the model + an oracle deciding the property on the device's own log from SimDevice's vendor "
            "tables. Histories of SEVERAL acquire_priv calls on one connection (round 6): calls_bounded - every call of every history, "
            "whatever the devices of the individual calls do and whatever earlier calls ended in, ends within factor*|levels|+1 attempts "
            "of its own; nav_history_reaches - after ANY history (failed calls included) a call during which the device cooperates, begun "
            "at the prompt of a level matched by that level only, reaches its target by exactly the route from where the device is (the "
            "model carries nothing but the remembered level and the device from call to call); core_platforms_history - by vm_compute "
            "over every generated table: call 1 under every password situation (dialogue of 3 attempts, 1 for rejected secrets) or every "
            "single refused transition, then call 2 to every target against the cooperating device: arrival by exactly the route whenever "
            "call 1 failed leaving the device at an exactly-classified prompt. Tie: the real sync and asyncio drivers run such histories on "
            "one driver object over one SimDevice (the device refuses / ignores a transition of the route for one or two whole calls, "
            "each giving up at its bound, then cooperates; wrong / absent auth_secondary then corrected, the dialogue taking 1, 2 or 3 "
            "passwords - so later calls begin inside a pending dialogue -; more fault-free calls than one call's bound has attempts; "
            "random mixes), each call compared with the model's run_calls and judged ON ITS OWN by the oracle (the same exploration runs, "
            "oracle only, when the translator rejects the source, and the failing-input search adds every pair x first hop refused and "
            "every authenticated hop with a wrong secret). Round 10: password situation 'the device asks, its enable secret is EMPTY, "
            "auth_secondary empty' (fault emptypw, on every explored pair whose route has a password hop: a compliant device, "
            "acquire_priv must arrive through the interactive escalation; model: c_secret = Some [], c_sec = []); histories "
            "'table changed on a LIVE driver': driver and device built with a random tree T1, a level reached under T1, then "
            "previous_priv of one or two levels edited in place or privilege_levels replaced by another random tree T2 over the same "
            "levels (other dict order, other password levels), update_privilege_levels(), the device's CLI now T2's; a walk of "
            "acquire_priv calls covering every ordered pair of T2, each call judged on its own against T2 and compared with run_calls "
            "on T2 (order_ok ties the _priv_graph observed AFTER the update to T2's tree neighbours). partial: channel reads, regex classification of prompts and real timeouts are observed at run time, not proved.",
    "note": "Section hypotheses of nav_reaches (not axioms): depth function consistent with previous_priv (acyclic), common root, levels < |levels|, "
            "graph sets = tree neighbours in any order, classification contains the mode and is exact on levels that have a child (C05's concern; "
            "fed from the real _determine_current_priv in the correspondence runs and from 'identical pattern text' in the by-computation "
            "theorems), the device performs requested transitions (device invariant Inv). For concrete tables the first four follow from the "
            "boolean checks (proved); that the byte-level simulated device satisfies the device hypotheses is established per generated table "
            "by computation, not in general. Trusted: the hand model coq/model/PrivGraph.v (driver loop, interactive escalation, simulated "
            "device), gen/gen_privgraph.py, harness/simdevice.py vendor tables, scripted transports (a read that would block raises Starved and "
            "stands for ScrapliTimeout / its AuthenticationFailed mapping; 8 runs per check use really blocking reads with timeout_ops=0.6 s and "
            "compare the exception class only). The model abstracts a prompt to the list of levels matching it: for varying "
            "prompts three prints per mode are classified by the real _determine_current_priv and must agree (else the run aborts). Histories: "
            "only the final acquire_priv is modelled (the model starts from the device's level and the remembered level observed before it; "
            "send_command / send_configs themselves are C03's). Histories of calls: the behaviour of the device is constant DURING a call "
            "and changes only between calls (per call: refused transitions, device secret, auth_secondary); histories with a rejected secret use unsplit reads (the "
            "simulated device ends every vendor's dialogue with the IOS text '% Bad secrets', whose '%' alone is a Junos shell prompt to "
            "get_prompt when a read ends there); a call begun inside a pending "
            "password dialogue is judged leniently (bounded scrapli error, or arrival in the target), later ones strictly; "
            "core_platforms_history judges call 2 only after a FAILED call 1 (a successful one is core_platforms_partial's case) and "
            "crosses refused transitions with the two password situations 'right' / 'not asked' only. The history oracle stays out of the region 'the device's prompt is shared by "
            "several levels and the driver does not remember the right one' (C05 / the shared-prompt finding). When the translator rejects "
            "the source the exploration still runs, oracle only (tables from gen_privgraph.variants() or the drivers' level names, factor 2). "
            "Table changed on a live driver: the model is given only the table in force (T2), the _priv_graph and prompt "
            "classification observed after update_privilege_levels(), the level reached before; update_privilege_levels() itself is "
            "not modelled (its result is checked by order_ok); T1 and T2 keep level names, patterns and commands (so the lru_cache "
            "of _determine_current_priv stays valid - stale classification after a pattern change is outside these histories). "
            "Two known findings (known_findings.d/C04.json): auth_secondary typed as a command when no "
            "password is asked (mirrored by the model through the generated gen_stop flag; repaired on the C12 branch), and the shared-prompt "
            "refusal (acquire_priv returns normally in the wrong level).",
    "technique": "Coq proof (path-visited DFS soundness/completeness on any graph, subtree gate lemmas, hop lemma, route induction with loop "
                 "invariant, pigeonhole bound; histories of calls: fold of acquire, per-call bound, reachability after any history from "
                 "the stale-belief theorem) + vm_compute all-pairs/all-refusal lemmas over regenerated tables + vm_compute correspondence "
                 "against both drivers",
}
