"""C15 — Telnet option negotiation is invisible and independent of TCP segmentation.

proof: coq/proofs/Telnet_Proofs.v (negotiation_invisible, for every grammar stream and EVERY
segmentation), props/C15.v.  tie: Gen_Telnet.v regenerated from the source + correspondence of
model/Telnet.v [run] against both real transports over scripted sockets on the same chunk lists."""
import asyncio
import itertools
import os
import sys

from . import common
from . import c15_sessions
from .common import coq_bytes, coq_list, coq_bool

LEVEL = "proof"
SOURCES = ["scrapli/transport/plugins/telnet/transport.py",
           "scrapli/transport/plugins/asynctelnet/transport.py",
           "scrapli/transport/base/telnet_common.py"]


class Starved(BaseException):
    """the scripted socket has nothing more to deliver (a real one would block)"""


class _Sock:
    def __init__(self, chunks):
        self.chunks = list(chunks)
        self.sent = []

    def recv(self, n):
        if not self.chunks:
            raise Starved()
        return self.chunks.pop(0)

    def send(self, b):
        self.sent.append(bytes(b))
        return len(b)

    def settimeout(self, t):
        pass


class _Socket:
    def __init__(self, chunks):
        self.sock = _Sock(chunks)

    def isalive(self):
        return True

    def close(self):
        pass


def run_sync(chunks):
    from scrapli.transport.base.base_transport import BaseTransportArgs
    from scrapli.transport.plugins.telnet.transport import PluginTransportArgs, TelnetTransport

    bta = BaseTransportArgs(transport_options={}, host="h", port=23, timeout_socket=0, timeout_transport=0)
    t = TelnetTransport(bta, PluginTransportArgs())
    t.socket = _Socket(chunks)
    out = []
    exc = None
    for _ in range(len(chunks) + 2):
        try:
            b = t.read()
        except Starved:
            break
        except Exception as e:  # noqa
            exc = type(e).__name__
            break
        out.append(b)
        if t._eof:
            break
    return b"".join(out), b"".join(t.socket.sock.sent), exc


class _Reader:
    def __init__(self, chunks):
        self.chunks = list(chunks)

    async def read(self, n):
        if not self.chunks:
            raise Starved()
        return self.chunks.pop(0)

    def at_eof(self):
        return False


class _Writer:
    def __init__(self):
        self.sent = []

    def write(self, b):
        self.sent.append(bytes(b))

    def close(self):
        pass


def run_async(chunks):
    from scrapli.transport.base.base_transport import BaseTransportArgs
    from scrapli.transport.plugins.asynctelnet.transport import AsynctelnetTransport, PluginTransportArgs

    bta = BaseTransportArgs(transport_options={}, host="h", port=23, timeout_socket=0, timeout_transport=0)
    t = AsynctelnetTransport(bta, PluginTransportArgs())
    t.stdout = _Reader(chunks)
    t.stdin = _Writer()

    async def go():
        out = []
        exc = None
        for _ in range(len(chunks) + 2):
            try:
                b = await t.read()
            except Starved:
                break
            except Exception as e:  # noqa
                exc = type(e).__name__
                break
            out.append(b)
            if t._eof:
                break
        return b"".join(out), b"".join(t.stdin.sent), exc

    loop = asyncio.new_event_loop()
    try:
        return loop.run_until_complete(go())
    finally:
        loop.close()


# ---- specification (independent of the model): what a Telnet client must deliver / reply ----
def spec(tokens):
    data, replies = b"", b""
    for t in tokens:
        if t[0] == "D":
            data += t[1]
        else:
            _, verb, opt = t
            if verb == 253 and opt == 3:
                replies += bytes([255, 251, opt])
            elif verb in (253, 254):
                replies += bytes([255, 252, opt])
            elif verb == 251:
                replies += bytes([255, 253, opt])
            elif verb == 252:
                replies += bytes([255, 254, opt])
    return data.replace(b"\x00", b""), replies


def tok_stream(tokens):
    return b"".join(t[1] if t[0] == "D" else bytes([255, t[1], t[2]]) for t in tokens)


def gen_tokens(rng, max_cmds=10):
    n = rng.choice([0, 1, 2, 3, 5, 8, 10, 10]) if max_cmds == 10 else rng.randint(0, max_cmds)
    toks = []
    ncmd = 0
    length = rng.randint(1, 14)
    for _ in range(length):
        if ncmd < n and rng.random() < 0.6:
            verb = rng.choice([251, 252, 253, 254])
            opt = rng.choice([0, 1, 3, 3, 24, 31, 32, 33, 34, 39, 250, 251, 253, 254, 255, rng.randint(0, 255)])
            toks.append(("C", verb, opt))
            ncmd += 1
        else:
            k = rng.choice([0, 1, 1, 2, 3, 6])
            alphabet = [0, 0, 10, 13, 32, 58, 97, 108, 111, 103, 105, 110, 251, 252, 253, 254, 3, rng.randint(0, 254)]
            toks.append(("D", bytes(rng.choice(alphabet) for _ in range(k))))
    return toks


def gen_malformed(rng):
    """streams outside the grammar: doubled IAC, IAC + non-verb, > 10 commands, random bytes"""
    kind = rng.choice(["iaciac", "nonverb", "many", "random", "sb"])
    if kind == "iaciac":
        return bytes([97, 255, 255, 98, 255, 253, 1, 99])
    if kind == "nonverb":
        return bytes([97, 255, rng.choice([240, 241, 249, 250, 0, 97]), 98, 253, 1, 99, 100])
    if kind == "many":
        n = rng.randint(11, 14)
        s = b""
        for i in range(n):
            s += bytes([255, rng.choice([251, 252, 253, 254]), rng.randint(0, 255)]) + bytes([97 + i])
        return s + b"xyz"
    if kind == "sb":
        return bytes([255, 250, 24, 1, 255, 240, 108, 111])
    return bytes(rng.choice([255, 255, 253, 251, 0, 1, 97, 98, rng.randint(0, 255)]) for _ in range(rng.randint(1, 16)))


def segmentations(rng, s, exhaustive2, n_random):
    n = len(s)
    segs = [[s]] if n else []
    if n > 1:
        segs.append([s[i:i + 1] for i in range(n)])
    for c in range(1, n):
        segs.append([s[:c], s[c:]])
    if exhaustive2:
        for a, b in itertools.combinations(range(1, n), 2):
            segs.append([s[:a], s[a:b], s[b:]])
    for _ in range(n_random):
        if n > 2:
            k = rng.randint(2, min(6, n - 1))
            cuts = sorted(rng.sample(range(1, n), k))
            segs.append(common.cut(s, cuts))
    return segs


HEADER = """From Verif Require Import Bytes Telnet.
From Gen Require Import Gen_Telnet.
Fixpoint cmp (g : list (bytes * bytes)) (w : list (list bytes * bytes * bytes)) : bool :=
  match g, w with
  | [], [] => true
  | (o, r) :: g', (_, o', r') :: w' => beq o o' && beq r r' && cmp g' w'
  | _, _ => false
  end.
(* a case = a history of one transport object: per session the recv results, the bytes its read()
   calls delivered and the bytes written to its connection.  One session: [run] (what the theorems
   negotiation_invisible / seg_independent / sync_eq_async are about); several: [run_sessions]. *)
Definition chk (c : bool * list (list bytes * bytes * bytes)) : bool :=
  let '(counting, ss) := c in
  let limit := if counting then gen_limit_sync else gen_limit_async in
  match ss with
  | [(chunks, out, rep)] => let (o, r) := run true counting limit chunks in beq o out && beq r rep
  | _ => cmp (run_sessions true true counting limit t_init (map (fun x => fst (fst x)) ss)) ss
  end.
"""
CASE_TYPE = "bool * list (list bytes * bytes * bytes)"


def case_term(counting, chunks, out, rep):
    return sessions_term(counting, [(chunks, out, rep)])


def sessions_term(counting, sessions):
    return "(%s, %s)" % (coq_bool(counting), coq_list(
        ["(%s, %s, %s)" % (coq_list([coq_bytes(c) for c in chunks]), coq_bytes(out), coq_bytes(rep))
         for chunks, out, rep in sessions]))


def sessions_case(stack, hist, obs, verdict):
    c = {"suite": "telnet-sessions", "stack": stack, "sessions": hist, "grammar": True,
         "got": [{"data": o["data"].hex(), "replies": o["replies"].hex(), "late": o["late"].hex(), "exc": o["exc"],
                  "open_exc": o["open_exc"], "own_connection": o["new_conn"], "probes": o["probes"]} for o in obs],
         "want": [dict(zip(("data", "replies"), (x.hex() for x in spec(c15_sessions.toks_of(s))))) for s in hist]}
    if verdict:
        c["failing_session"], c["why"] = verdict[0], verdict[1]
    return c


def run_sessions_suite(rep, rng, thorough, cases, terms, dist):
    """several sessions on one transport object; returns the indices (into cases) the oracle rejects"""
    S = c15_sessions
    me = sys.modules[__name__]
    fails = []
    shapes = [(sh, ["rand"]) for sh in S.CORPUS]
    shapes += [(S.gen_history_shape(rng, me), [None, None, "bytes"] if thorough else [None, None])
               for _ in range(400 if thorough else 60)]
    sd = dist.setdefault("sessions", {"histories": 0, "runs": 0, "sessions_hist": {}, "between": {}, "probes": {},
                                      "partial_tails": 0, "cmds_before_reopen_ge_limit": 0})
    for shape, hows in shapes:
        sd["histories"] += 1
        sd["sessions_hist"][len(shape)] = sd["sessions_hist"].get(len(shape), 0) + 1
        total = 0
        for s in shape[:-1]:
            k = "%s+%s" % (s["fault"], s["end"])
            sd["between"][k] = sd["between"].get(k, 0) + 1
            sd["partial_tails"] += 1 if s["partial"] else 0
            total += sum(1 for t in s["tokens"] if t[0] == "C")
        sd["cmds_before_reopen_ge_limit"] += 1 if total >= 10 else 0
        for s in shape:
            for pr in s["probes"]:
                sd["probes"][pr] = sd["probes"].get(pr, 0) + 1
        for how in hows:
            hist = S.materialise(rng, me, shape, how)
            key = tuple((tuple(s["chunks"]), s["fault"], s["errno"], tuple(s["probes"]), s["end"]) for s in hist)
            rep.case(("s", key), nontrivial=True)
            for stack, counting in (("sync", True), ("async", False)):
                obs = S.RUNNERS[stack](hist)
                sd["runs"] += 1
                verdict = S.judge(me, hist, obs)
                terms.append(sessions_term(counting, [([bytes.fromhex(c) for c in s["chunks"]], o["data"], o["replies"])
                                                     for s, o in zip(hist, obs)]))
                cases.append(sessions_case(stack, hist, obs, verdict))
                if verdict:
                    fails.append(len(cases) - 1)
    return fails


def run(rep):
    from gen import gen_telnet

    rng = rep.rng
    thorough = rep.tier == "thorough"
    # 1. regenerate from the source
    try:
        _, info = gen_telnet.generate(rep.workdir)
        rc, out, _ = common.coqc(os.path.join(rep.workdir, "Gen_Telnet.v"), rep.workdir)
        if rc:
            rep.broken.append("Gen_Telnet.v")
            rep.notes.append(out[-2000:])
    except Exception as e:  # translator aborted: broken tie
        rep.broken.append("gen_telnet:%s" % e)
        info = {}
    # 2. proofs
    ok, _ = rep.build_static()
    rep.add_static_obligations("props/C15.v", ok)
    if not ok:
        rep.broken.append("static-build")
    if ok and not rep.broken:
        rep.compile_props("props/C15.v")
    # 3. correspondence + property oracle
    n_streams = 400 if thorough else 60
    n_ex2 = 60 if thorough else 8
    cases, terms = [], []
    oracle_fail = []
    dist = {"grammar_streams": 0, "malformed_streams": 0, "segmentations": 0, "cmds_hist": {}, "straddling": 0}
    streams = []
    # corpus first: the baseline defect and boundary shapes
    corpus = [[("C", 253, 1), ("D", b"login:")], [("C", 253, 3), ("C", 251, 1), ("D", b"a\x00b")],
              [("D", b"x")] + [("C", 253, i) for i in range(10)] + [("D", b"tail\x00")],
              [("C", 254, 255), ("D", b"\xfd\xfb")], [("D", b"")], [("C", 251, 3)]]
    for toks in corpus:
        streams.append((toks, tok_stream(toks)))
    for _ in range(n_streams):
        toks = gen_tokens(rng)
        streams.append((toks, tok_stream(toks)))
    for si, (toks, s) in enumerate(streams):
        if not s:
            continue
        dist["grammar_streams"] += 1
        nc = sum(1 for t in toks if t[0] == "C")
        dist["cmds_hist"][nc] = dist["cmds_hist"].get(nc, 0) + 1
        want = spec(toks)
        ex2 = si < n_ex2 + len(corpus) and len(s) <= 40
        for chunks in segmentations(rng, s, ex2, 6 if thorough else 3):
            dist["segmentations"] += 1
            rs = run_sync(chunks)
            ra = run_async(chunks)
            rep.case(("g", s, tuple(chunks)), nontrivial=nc > 0 and len(chunks) > 1)
            for name, r, counting in (("sync", rs, True), ("async", ra, False)):
                terms.append(case_term(counting, chunks, r[0], r[1]))
                cases.append({"stack": name, "tokens": [list(t[:1]) + [x.hex() if isinstance(x, bytes) else x for x in t[1:]] for t in toks],
                              "chunks": [c.hex() for c in chunks], "got_data": r[0].hex(), "got_replies": r[1].hex(),
                              "exc": r[2], "want_data": want[0].hex(), "want_replies": want[1].hex(), "grammar": True})
                if (r[0], r[1]) != want or r[2] is not None:
                    oracle_fail.append(len(cases) - 1)
    rep.sample({"tokens": cases[0]["tokens"], "chunks": cases[0]["chunks"], "delivered": cases[0]["got_data"], "replied": cases[0]["got_replies"]})
    if len(cases) > 50:
        rep.sample({k: cases[50][k] for k in ("tokens", "chunks", "got_data", "got_replies")})
    # malformed stream: model-vs-implementation only (no oracle: outside the property's domain)
    for _ in range(300 if thorough else 40):
        s = gen_malformed(rng)
        if not s:
            continue
        dist["malformed_streams"] += 1
        for chunks in segmentations(rng, s, False, 2)[: (40 if thorough else 12)]:
            rs = run_sync(chunks)
            ra = run_async(chunks)
            rep.case(("m", s, tuple(chunks)))
            for name, r, counting in (("sync", rs, True), ("async", ra, False)):
                terms.append(case_term(counting, chunks, r[0], r[1]))
                cases.append({"stack": name, "chunks": [c.hex() for c in chunks], "got_data": r[0].hex(),
                              "got_replies": r[1].hex(), "exc": r[2], "grammar": False})
    # several sessions on one transport object (model: run_sessions; oracle per session)
    sess_fail = run_sessions_suite(rep, rng, thorough, cases, terms, dist)
    oracle_fail_all = set(oracle_fail) | set(sess_fail)
    bad, log = common.eval_cases(rep.workdir, "cases_c15", HEADER, terms, "chk", case_type=CASE_TYPE)
    rep.coverage["correspondence"] = {"suite": "telnet-neg", "cases": len(terms), "distribution": dist,
                                      "model_disagreements": None if bad is None else len(bad),
                                      "oracle_failures": len(oracle_fail) + len(sess_fail)}
    rep.coverage["generated_from"] = common.source_hashes(SOURCES)
    rep.coverage["generated"] = info
    rep.rule = ("streams = token lists (<=10 IAC verb opt commands, data without 0xFF, NULs included) + corpus; "
                "every single cut, 1-byte reads, all double cuts for the first streams, random multi-cuts; "
                "both real transports over scripted sockets; non-trivial = at least one command and at least one cut; "
                "distinct = (stream, segmentation).  telnet-sessions: 2-4 sessions on ONE transport object, each with its own token "
                "stream (typical 10-command session starts, 5-9 commands, a few; optionally stopping inside a command) and its own "
                "segmentation (whole / 1-byte / one cut / random cuts, two segmentations per history); between sessions close(), "
                "peer reset (recv/send raise ECONNRESET or EPIPE) + close(), peer reset without close(), peer EOF + close(), the "
                "fault seen by nobody / a write / a read / isalive(); sync on the real Socket class over a scripted socket module, "
                "asyncio over a scripted open_connection; fixed corpus + random; distinct = (chunks, fault, probes, end) per session")
    # property oracle failures on the implementation are violations with a concrete replay
    for ix in oracle_fail[:5]:
        c = cases[ix]
        sig = "c15-" + ("straddle" if True else "")
        rep.violation("Telnet %s transport delivered/replied wrongly: data %s (want %s) replies %s (want %s) exc %s" % (
            c["stack"], c["got_data"], c["want_data"], c["got_replies"], c["want_replies"], c["exc"]),
            {"suite": "telnet-neg", "case": c, "rerun": "./check C15 --replay <this file>"})
    picked, seen_kinds = [], set()
    for ix in sess_fail:      # one per (transport, how the previous session ended, what is wrong), at most five
        c = cases[ix]
        i = c["failing_session"]
        kind = (c["stack"], c["sessions"][i - 1]["fault"] + c["sessions"][i - 1]["end"] if i else "", c["why"])
        if kind not in seen_kinds and len(picked) < 5:
            seen_kinds.add(kind)
            picked.append(ix)
    for ix in picked:
        c = cases[ix]
        i = c["failing_session"]
        rep.violation("Telnet %s transport, session %d of %d on one transport object (after %s): %s: data %s (want %s) replies %s (want %s)" % (
            c["stack"], i + 1, len(c["sessions"]),
            "+".join("%s/%s" % (x["fault"], x["end"]) for x in c["sessions"][:i]) or "nothing", c["why"],
            c["got"][i]["data"], c["want"][i]["data"], c["got"][i]["replies"], c["want"][i]["replies"]),
            {"suite": "telnet-sessions", "case": c, "rerun": "./check C15 --replay <this file>"})
    if bad is None:
        rep.broken.append("correspondence telnet-neg (model evaluation failed)")
        rep.notes.append(log)
    elif bad:
        # model and implementation disagree: a property violation only if the oracle also fails
        for ix in bad[:5]:
            c = cases[ix]
            if ix in oracle_fail_all:
                continue
            if c.get("suite") == "telnet-sessions":
                rep.broken.append("correspondence telnet-sessions: model differs from implementation on a history of sessions")
            elif c.get("grammar"):
                # inside the property's domain, oracle fine => implementation right, model differs
                rep.broken.append("correspondence telnet-neg: model differs from implementation on a grammar stream")
            else:
                rep.broken.append("correspondence telnet-neg: model differs from implementation outside the grammar")
            rep.notes.append("disagreement: %r" % (c,))
        if not oracle_fail_all:
            # search for a failing input of the property near the disagreement: all cuts of the stream
            found = False
            for ix in bad[:5]:
                c = cases[ix]
                if c.get("suite") == "telnet-sessions":
                    # other segmentations of the same history
                    shape = [dict(x, tokens=c15_sessions.toks_of(x), partial=bytes.fromhex(x["partial"])) for x in c["sessions"]]
                    for how in ["whole", "bytes"] + [None] * 30:
                        hist = c15_sessions.materialise(rng, sys.modules[__name__], shape, how)
                        for name in ("sync", "async"):
                            obs = c15_sessions.RUNNERS[name](hist)
                            v = c15_sessions.judge(sys.modules[__name__], hist, obs)
                            if v:
                                rep.violation("Telnet %s transport wrong in session %d of a history: %s" % (name, v[0] + 1, v[1]),
                                              {"suite": "telnet-sessions", "case": sessions_case(name, hist, obs, v)})
                                found = True
                                break
                        if found:
                            break
                    if found:
                        break
                    continue
                s = b"".join(bytes.fromhex(x) for x in c["chunks"])
                if "tokens" not in c:
                    continue
                toks = [tuple([t[0]] + [bytes.fromhex(x) if isinstance(x, str) else x for x in t[1:]]) for t in c["tokens"]]
                want = spec(toks)
                for chunks in segmentations(rng, s, True, 20):
                    for name, fn in (("sync", run_sync), ("async", run_async)):
                        r = fn(chunks)
                        if (r[0], r[1]) != want:
                            rep.violation("Telnet %s transport wrong on %r" % (name, chunks),
                                          {"suite": "telnet-neg", "case": {"stack": name, "chunks": [x.hex() for x in chunks], "tokens": c["tokens"],
                                                                            "got_data": r[0].hex(), "want_data": want[0].hex()}})
                            found = True
                            break
                    if found:
                        break
                if found:
                    break


def replay(path):
    import json
    r = json.load(open(path))
    c = r.get("case")
    if not c:
        print("nothing to replay (no concrete input): %s" % r.get("what"))
        return 1
    if r.get("suite") == "telnet-sessions" or c.get("suite") == "telnet-sessions":
        hist = c["sessions"]
        obs = c15_sessions.RUNNERS[c["stack"]](hist)
        for i, (s_, o) in enumerate(zip(hist, obs)):
            want = spec(c15_sessions.toks_of(s_))
            print("session %d: chunks %s then %s%s, %s" % (i + 1, [bytes.fromhex(x) for x in s_["chunks"]], s_["fault"],
                                                       (" seen by " + "/".join(s_["probes"])) if s_["probes"] else "", s_["end"]))
            print("  delivered:", o["data"], "replied:", o["replies"], "exc:", o["exc"] or o["open_exc"], "probes:", o["probes"])
            print("  expected :", want[0], want[1])
        v = c15_sessions.judge(sys.modules[__name__], hist, obs)
        print("property holds on this history" if not v else "property FAILS on this history: session %d: %s" % (v[0] + 1, v[1]))
        return 1 if v else 0
    chunks = [bytes.fromhex(x) for x in c["chunks"]]
    fn = run_sync if c["stack"] == "sync" else run_async
    got = fn(chunks)
    print("chunks:", chunks)
    print("delivered:", got[0], "replied:", got[1], "exc:", got[2])
    if "want_data" in c:
        ok = got[0].hex() == c["want_data"] and got[1].hex() == c.get("want_replies", got[1].hex())
        print("expected :", bytes.fromhex(c["want_data"]), bytes.fromhex(c.get("want_replies", "")))
        print("property holds on this input" if ok else "property FAILS on this input")
        return 0 if ok else 1
    return 0


MANIFEST = {
    "text": "Coq theorem negotiation_invisible (props/C15.v): for EVERY stream of the negotiation grammar (data without IAC, "
            "any IAC verb opt commands, at most `limit` for the counting sync transport) and EVERY segmentation into non-empty "
            "recv() results, the concatenated read() results are the data minus NULs and the replies are the correct ones, in order; "
            "corollaries seg_independent and sync_eq_async; the pinned commit's local control buffer is refuted by a vm_compute witness. "
            "sessions_invisible: on ONE transport object every session of a history (open() again after close(), after a peer reset with or "
            "without close()) is negotiated like a first session, for every segmentation of every session and whatever state the earlier "
            "sessions left behind (model op reopen); an open() that keeps the answered-commands counter / pending control sequence is refuted "
            "by vm_compute witnesses. "
            "Axiom-free (Print Assumptions recorded). Tie: Gen_Telnet.v (constants, limits) regenerated from /repo on every run; the model "
            "[run] / [run_sessions] is executed by vm_compute on the same chunk lists as both real transports (scripted socket / StreamReader; "
            "for histories the real Socket class over a scripted socket module and a scripted asyncio.open_connection, connections reset or "
            "closed by the peer between sessions) and must agree; an independent token-level oracle decides the property on the implementation, "
            "per session (a connection of its own, data, replies on its connection, nothing raised, nothing written after the fault).",
    "note": "Trusted: Coq kernel + vm_compute; the hand model coq/model/Telnet.v (tied by correspondence on all 1-cut, many 2-cut, 1-byte and random "
            "segmentations of generated grammar streams, on malformed streams and on histories of 2-4 sessions); gen/gen_telnet.py; scripted sockets. "
            "Not modelled: the real socket, timeouts, the socket-timeout bump after the 10th command. In the model open() = reopen forgets the whole state "
            "regardless of how the previous session ended; that the real open()/close() do so after close(), peer reset (+/- close()) and peer EOF is "
            "checked by correspondence + oracle only (the fault, the probes write/read/isalive and close() are not model ops). Sessions that stop inside a "
            "command (IAC or IAC verb as the last bytes before the fault) are outside sessions_invisible's grammar hypothesis: correspondence + oracle only "
            "(plus the second refutation witness).",
    "technique": "Coq proof by induction over recv chunks with a grammar invariant (byte-wise automaton refinement) + vm_compute correspondence against both transports",
}
