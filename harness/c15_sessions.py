"""C15, suite `telnet-sessions`: several Telnet sessions on ONE transport object.

A history is a list of sessions.  Every session: open(), read() until the scripted connection has
nothing more to deliver, then an optional fault of the connection (the peer resets it: recv/send
raise ECONNRESET / EPIPE; or the peer closes it: recv returns b""), optional probes that let the
transport notice (write / read / isalive), then close() or nothing, then the next open().

The sync transport runs on the REAL scrapli `Socket` class (its __bool__ is isalive(), a zero-length
send) over a scripted stand-in for the `socket` module; the asyncio transport over a scripted
`asyncio.open_connection`.  No network, no threads, no clock."""
import asyncio
import errno
import socket as real_socket
import types

from . import common


class Starved(BaseException):
    """the scripted connection has nothing more to deliver (a real one would block)"""


FAULTS = ("none", "reset", "eof")
ERRNOS = {"ECONNRESET": (ConnectionResetError, errno.ECONNRESET), "EPIPE": (BrokenPipeError, errno.EPIPE)}
PROBE_WRITE = b"\n"


class _Net:
    """the scripted device: one chunk list per connection that gets made"""

    def __init__(self, scripts):
        self.scripts = [list(s) for s in scripts]
        self.made = []


class _Conn:
    """one scripted TCP connection; stands in for socket.socket (sync) and for the
    StreamReader / StreamWriter pair (asyncio)"""
    net = None

    def __init__(self, family=None, kind=None, *a, **kw):
        self.chunks = []
        self.sent = []
        self.late = []          # written after the fault
        self.connected = False
        self.closed = False
        self.fault = "none"
        self.err = "ECONNRESET"
        self.eof_seen = False

    # -- device side
    def _attach(self):
        self.chunks = self.net.scripts.pop(0)
        self.connected = True
        self.net.made.append(self)

    def _boom(self):
        klass, no = ERRNOS[self.err]
        raise klass(no, "scripted")

    def _recv(self):
        if self.fault == "reset":
            self._boom()
        if self.chunks:
            return self.chunks.pop(0)
        if self.fault == "eof":
            self.eof_seen = True
            return b""
        raise Starved()

    def _send(self, b):
        if self.fault == "reset":
            self._boom()
        (self.late if self.fault != "none" else self.sent).append(bytes(b))

    # -- socket.socket
    def settimeout(self, t):
        pass

    def connect(self, address):
        self._attach()

    def recv(self, n):
        if not self.connected or self.closed:
            raise OSError(errno.EBADF, "scripted")
        return self._recv()

    def send(self, b):
        if not self.connected or self.closed:
            raise OSError(errno.EBADF, "scripted")
        self._send(b)
        return len(b)

    def shutdown(self, how):
        pass

    def close(self):
        self.closed = True

    # -- StreamReader / StreamWriter
    async def read(self, n):
        return self._recv()

    def at_eof(self):
        return self.eof_seen

    def write(self, b):
        # a StreamWriter whose connection is lost drops the bytes without raising
        if self.fault == "reset" or self.closed:
            return
        self._send(b)


def _bta(timeout_socket):
    from scrapli.transport.base.base_transport import BaseTransportArgs
    return BaseTransportArgs(transport_options={}, host="192.0.2.1", port=23, timeout_socket=timeout_socket,
                             timeout_transport=0)


def _session(t, net, s, call, do_open, alive):
    """one session on transport [t]; [call](f) runs a (maybe async) read"""
    o = {"data": b"", "replies": b"", "late": b"", "open_exc": None, "exc": None, "probes": [], "new_conn": False}
    before = len(net.made)
    try:
        do_open()
    except Exception as e:  # noqa
        o["open_exc"] = type(e).__name__
        return o
    o["new_conn"] = len(net.made) == before + 1
    if not net.made:
        o["open_exc"] = "no-connection"
        return o
    conn = net.made[-1]
    out = []
    for _ in range(len(s["chunks"]) + 2):
        try:
            b = call(t.read)
        except Starved:
            break
        except Exception as e:  # noqa
            o["exc"] = type(e).__name__
            break
        out.append(b)
        if t._eof:
            break
    conn.fault = s.get("fault", "none")
    conn.err = s.get("errno", "ECONNRESET")
    for p in s.get("probes", []):
        try:
            if p == "write":
                t.write(PROBE_WRITE)
                o["probes"].append("ok")
            elif p == "read":
                out.append(call(t.read))
                o["probes"].append("ok")
            else:
                o["probes"].append("alive" if alive() else "dead")
        except Starved:
            o["probes"].append("starved")
        except Exception as e:  # noqa
            o["probes"].append(type(e).__name__)
    if s.get("end", "close") == "close":
        try:
            t.close()
        except Exception as e:  # noqa
            o["close_exc"] = type(e).__name__
    o["data"] = b"".join(out)
    o["replies"] = b"".join(conn.sent)
    o["late"] = b"".join(conn.late)
    return o


def run_history_sync(sessions):
    from scrapli.transport.base import base_socket
    from scrapli.transport.plugins.telnet.transport import PluginTransportArgs, TelnetTransport

    net = _Net([[bytes.fromhex(c) for c in s["chunks"]] for s in sessions])
    conn_class = type("ScriptedSocket", (_Conn,), {"net": net})
    fake = types.SimpleNamespace(**vars(real_socket))
    fake.socket = conn_class
    fake.getaddrinfo = lambda host, port, *a, **kw: [(real_socket.AF_INET, real_socket.SOCK_STREAM, 6, "", (host, port))]
    real = base_socket.socket
    base_socket.socket = fake
    try:
        t = TelnetTransport(_bta(0), PluginTransportArgs())
        return [_session(t, net, s, lambda f: f(), t.open, t.isalive) for s in sessions]
    finally:
        base_socket.socket = real


def run_history_async(sessions):
    from scrapli.transport.plugins.asynctelnet.transport import AsynctelnetTransport, PluginTransportArgs

    net = _Net([[bytes.fromhex(c) for c in s["chunks"]] for s in sessions])
    conn_class = type("ScriptedStream", (_Conn,), {"net": net})

    async def fake_open_connection(host=None, port=None, **kw):
        c = conn_class()
        c._attach()
        return c, c

    real = asyncio.open_connection
    loop = asyncio.new_event_loop()
    asyncio.open_connection = fake_open_connection
    try:
        t = AsynctelnetTransport(_bta(5), PluginTransportArgs())
        return [_session(t, net, s, lambda f: loop.run_until_complete(f()),
                         lambda: loop.run_until_complete(t.open()), t.isalive) for s in sessions]
    finally:
        asyncio.open_connection = real
        loop.close()


RUNNERS = {"sync": run_history_sync, "async": run_history_async}


# ---- generators ---------------------------------------------------------------------------------
def _ncmd(toks):
    return sum(1 for t in toks if t[0] == "C")


def _cmds(rng, n):
    return [("C", rng.choice([251, 252, 253, 254]), rng.choice([1, 3, 3, 24, 31, 32, 33, 34, 39, rng.randint(0, 255)]))
            for _ in range(n)]


def gen_session_tokens(rng, c15, shape):
    if shape == "limit":          # a typical session start: exactly ten commands, data around them
        cm = _cmds(rng, 10)
        k = rng.randint(0, 10)
        toks = ([("D", rng.choice([b"", b"x", b"\r\n"]))] + cm[:k] + [("D", rng.choice([b"", b"\x00", b"ab"]))] + cm[k:]
                + [("D", rng.choice([b"login:", b"Username: ", b"\x00>"]))])
        return [t for t in toks if t[0] == "C" or t[1]]
    if shape == "many":
        k = rng.randint(5, 9)
        toks = []
        for c in _cmds(rng, k):
            toks.append(c)
            if rng.random() < 0.4:
                toks.append(("D", bytes(rng.choice([0, 10, 13, 32, 58, 97, 253, 251]) for _ in range(rng.randint(1, 3)))))
        return toks + [("D", b"$ ")]
    toks = c15.gen_tokens(rng, max_cmds=4)
    if not _ncmd(toks):
        toks = [("C", rng.choice([251, 253]), rng.choice([1, 3, 24]))] + toks
    if not any(t[0] == "D" and t[1] for t in toks):
        toks = toks + [("D", b"login:")]
    return toks


PARTIALS = [b"\xff", b"\xff\xfd", b"\xff\xfb", b"\xff\xfe", b"\xff\xfc"]


def gen_history_shape(rng, c15):
    """token lists, partial tails, faults, probes and ends; no segmentation yet"""
    n = rng.choice([2, 2, 2, 3, 3, 4])
    ss = []
    for i in range(n):
        last = i == n - 1
        shape = rng.choice(["limit", "limit", "many", "few", "few"])
        toks = gen_session_tokens(rng, c15, shape)
        partial = b""
        if not last and _ncmd(toks) <= 9 and rng.random() < 0.35:
            partial = rng.choice(PARTIALS)
        if last:
            fault, end = rng.choice([("none", "close"), ("reset", "close"), ("eof", "close")])
        else:
            fault, end = rng.choice([("none", "close"), ("eof", "close"), ("reset", "close"), ("reset", "close"),
                                     ("reset", "noclose"), ("reset", "noclose")])
        probes = []
        if fault != "none":
            probes = rng.choice([[], [], ["write"], ["read"], ["isalive"], ["write", "isalive"], ["read", "write"],
                                 ["isalive", "read"]])
        ss.append({"tokens": toks, "partial": partial, "fault": fault, "errno": rng.choice(["ECONNRESET", "EPIPE"]),
                   "probes": list(probes), "end": end})
    return ss


CORPUS = [
    # ten commands, the device reloads (reset seen by nobody / by a write / by a read), close, open
    [{"tokens": [("C", 251, 1), ("C", 251, 3), ("C", 253, 24), ("C", 253, 31), ("C", 253, 3), ("C", 254, 34),
                 ("C", 252, 5), ("C", 253, 32), ("C", 253, 33), ("C", 253, 39), ("D", b"\r\n\x00Username: ")],
      "partial": b"", "fault": "reset", "errno": "ECONNRESET", "probes": pr, "end": end},
     {"tokens": [("C", 251, 1), ("C", 253, 3), ("C", 253, 24), ("D", b"\r\nUsername: ")],
      "partial": b"", "fault": "none", "errno": "ECONNRESET", "probes": [], "end": "close"}]
    for pr in ([], ["write"], ["read"]) for end in ("close", "noclose")
] + [
    # six + six commands over two sessions with a reset between them
    [{"tokens": [("C", 253, i) for i in (1, 3, 24, 31, 32, 33)] + [("D", b"a")], "partial": b"", "fault": "reset",
      "errno": "EPIPE", "probes": [], "end": "close"},
     {"tokens": [("D", b"b")] + [("C", 251, i) for i in (1, 3, 24, 31, 32, 33)] + [("D", b"c")], "partial": b"",
      "fault": "none", "errno": "EPIPE", "probes": [], "end": "close"}],
    # the session stops inside a command, then reset without close / reset + close / plain close
] + [
    [{"tokens": [("D", b"a"), ("C", 253, 1)], "partial": p, "fault": f, "errno": "ECONNRESET", "probes": [], "end": end},
     {"tokens": [("D", b"b"), ("C", 251, 1), ("D", b":")], "partial": b"", "fault": "none", "errno": "ECONNRESET",
      "probes": [], "end": "close"}]
    for p in (b"\xff", b"\xff\xfd") for f, end in (("reset", "noclose"), ("reset", "close"), ("none", "close"), ("eof", "close"))
]


def segment(rng, s, how):
    n = len(s)
    if n <= 1 or how == "whole":
        return [s] if n else []
    if how == "bytes":
        return [s[i:i + 1] for i in range(n)]
    if how == "one":
        c = rng.randint(1, n - 1)
        return [s[:c], s[c:]]
    k = rng.randint(2, min(6, n - 1)) if n > 2 else 1
    return [c for c in common.cut(s, sorted(rng.sample(range(1, n), k))) if c]


def materialise(rng, c15, shape, how=None):
    """choose a segmentation per session; the partial tail is the end of the last segment or its own"""
    out = []
    for s in shape:
        stream = c15.tok_stream(s["tokens"])
        h = how or rng.choice(["whole", "bytes", "one", "one", "rand", "rand"])
        body = stream + (s["partial"] if rng.random() < 0.5 else b"")
        chunks = segment(rng, body, h)
        if len(body) == len(stream) and s["partial"]:
            chunks.append(s["partial"])
        out.append({"tokens": [[t[0]] + [x.hex() if isinstance(x, bytes) else x for x in t[1:]] for t in s["tokens"]],
                    "partial": s["partial"].hex(), "chunks": [c.hex() for c in chunks], "seg": h,
                    "fault": s["fault"], "errno": s["errno"], "probes": s["probes"], "end": s["end"]})
    return out


def toks_of(session):
    return [tuple([t[0]] + [bytes.fromhex(x) if isinstance(x, str) else x for x in t[1:]]) for t in session["tokens"]]


# ---- oracle (independent of the model) ------------------------------------------------------------
def judge(c15, sessions, obs):
    """first session whose observation is not what the specification says, or None.
    Per session, independent of its segmentation and of every earlier session: a connection of its
    own, delivered bytes = its stream minus negotiation and NULs, replies on ITS connection = the
    reply to each of its complete commands, nothing raised while its bytes were read; after the
    fault only the probe writes that a half-closed connection still takes are written."""
    for i, (s, o) in enumerate(zip(sessions, obs)):
        want = c15.spec(toks_of(s))
        if o["open_exc"] is not None:
            return i, "open() raised %s" % o["open_exc"], want
        if not o["new_conn"]:
            return i, "open() did not make a connection of its own", want
        if o["exc"] is not None:
            return i, "read() raised %s" % o["exc"], want
        if o["data"] != want[0]:
            return i, "delivered bytes differ", want
        if o["replies"] != want[1]:
            return i, "replies differ", want
        late = PROBE_WRITE * sum(1 for p in s["probes"] if p == "write") if s["fault"] == "eof" else b""
        if o["late"] != late:
            return i, "bytes written to a connection after its fault", want
    return None
