"""C03 — interrupted operations: scripted transports that raise / block at a chosen transport operation of ONE driver
operation, and the reading of the transport trace as "which channel exchange was cut, had the device executed its line".

An *exchange* is what one channel call does on the wire: a prompt query (a lone return: Q) or a line send (the input,
then the return: L).  The driver assigns `_current_priv_level` only between exchanges, so an interruption is described by
(number of exchanges completed before the cut one, kind and input of the cut one, did the device execute the cut line,
is a typed-but-unreturned input left in the device's line buffer)."""
import asyncio

from .simdevice import AsyncScriptedTransport, ScriptedTransport

KINDS_SYNC = ("exc", "timeout")
KINDS_ASYNC = ("exc", "timeout", "cancel")
CANCEL_AFTER = 0.002   # wait_for timeout of the caller; the scripted read never completes, so the outcome does not depend on it


class Interrupted(Exception):
    """what the scripted transport raises for kind 'exc' (an error of the transport read/write the caller catches)"""


class _Faulty:
    def _finit(self):
        self.armed = None      # {"at": transport-op index within the current driver operation, "kind": ...}
        self.nio = 0           # transport operations since begin_op()
        self.trace = []        # ("w", bytes) / ("r",) since begin_op(); the operation that raised is ("x", "w"/"r", bytes|None)
        self.fired = False

    def begin_op(self, fault=None):
        self.armed = dict(fault) if fault else None
        self.nio = 0
        self.trace = []
        self.fired = False

    def end_op(self):
        self.armed = None

    def _hit(self, what, data=None):
        """called before every transport operation; returns the kind if this one is the faulted one"""
        i = self.nio
        self.nio += 1
        if self.armed is not None and not self.fired and i == self.armed["at"]:
            self.fired = True
            self.trace.append(("x", what, data))
            return self.armed["kind"]
        self.trace.append((what, data))
        return None

    def _raise(self, kind):
        if kind == "timeout":
            from scrapli.exceptions import ScrapliTimeout
            raise ScrapliTimeout("scripted: timed out, connection left open")
        raise Interrupted("scripted transport fault")


class FaultyTransport(_Faulty, ScriptedTransport):
    def __init__(self, *a, **kw):
        ScriptedTransport.__init__(self, *a, **kw)
        self._finit()

    def read(self):
        k = self._hit("r")
        if k:
            self._raise(k)
        return self._read()

    def write(self, channel_input):
        k = self._hit("w", bytes(channel_input))
        if k:
            self._raise(k)
        self._write(channel_input)


class AsyncFaultyTransport(_Faulty, AsyncScriptedTransport):
    def __init__(self, *a, **kw):
        AsyncScriptedTransport.__init__(self, *a, **kw)
        self._finit()

    async def read(self):
        k = self._hit("r")
        if k == "cancel":
            await asyncio.Event().wait()      # the device never answers; only the caller's wait_for ends this
        if k:
            self._raise(k)
        return self._read()

    def write(self, channel_input):
        k = self._hit("w", bytes(channel_input))
        if k == "cancel":
            k = "exc"                          # a write cannot be suspended: no cancellation point here
        if k:
            self._raise(k)
        self._write(channel_input)


def install(d, stack, dev, policy):
    """replace the scripted transport make_driver put in by the fault-capable one (same device, same chunking)"""
    cls = FaultyTransport if stack == "sync" else AsyncFaultyTransport
    t = cls(dev, tuple(policy), None, base_transport_args=d._base_transport_args)
    t.opened = d.transport.opened
    d.transport = t
    d.channel.transport = t
    return t


def call(runner, fault, fn, *a, **kw):
    """run one driver call; kind 'cancel' = the caller's asyncio.wait_for gives up while the read is pending"""
    if runner.stack != "sync" and fault and fault.get("kind") == "cancel":
        return runner.loop.run_until_complete(asyncio.wait_for(fn(*a, **kw), timeout=CANCEL_AFTER))
    return runner.call(fn, *a, **kw)


def is_return(data, ret=b"\n"):
    return data == ret


def exchanges(trace, ret=b"\n"):
    """transport trace of one driver operation -> (list of exchanges, cut)
    exchange = {"kind": "Q"|"L", "input": str|None, "returned": bool}; cut = None or
    {"index": exchange index, "kind", "input", "executed": bool, "pending": bool}"""
    ex = []
    cut = None
    open_l = None          # index of an L exchange whose return has not been written yet
    for ev in trace:
        what = ev[0]
        faulted = what == "x"
        if faulted:
            what, data = ev[1], ev[2]
        else:
            data = ev[1]
        if what == "w":
            if is_return(data, ret):
                if open_l is not None:
                    if faulted:
                        cut = {"index": open_l, "executed": False, "pending": True}
                    else:
                        ex[open_l]["returned"] = True
                        open_l = None
                else:
                    ex.append({"kind": "Q", "input": None, "returned": not faulted})
                    if faulted:
                        cut = {"index": len(ex) - 1, "executed": False, "pending": False}
            else:
                ex.append({"kind": "L", "input": data.decode("latin-1"), "returned": False})
                if faulted:
                    cut = {"index": len(ex) - 1, "executed": False, "pending": False}
                    open_l = None
                else:
                    open_l = len(ex) - 1
        elif faulted:      # a read
            if not ex:
                cut = {"index": -1, "executed": False, "pending": False}
            elif open_l is not None:
                cut = {"index": open_l, "executed": False, "pending": True}
            else:
                cut = {"index": len(ex) - 1, "executed": ex[-1]["kind"] == "L", "pending": False}
    if cut is not None and cut["index"] >= 0:
        cut["kind"] = ex[cut["index"]]["kind"]
        cut["input"] = ex[cut["index"]]["input"]
    return ex, cut
