"""regex-conformance: both Coq regex engines against CPython's re on strings generated from each
pattern's own AST (members, near-misses, boundary repeat counts, embedded newlines, random bytes).
Compared: bool(re.search) [language engine + priority engine], first match span and re.sub result
[priority engine]."""
import os
import re

from gen import regex as rx

from . import common
from .common import coq_bytes


def gen_strings(node, rng, n, is_bytes):
    cls = rx.classes(node)
    alphabet = sorted({10, 32, 35, 62, 40, 41, 45, 97, 65, 48, 95} | {min(s) for s in cls if s} | {max(s) for s in cls if s})
    if not is_bytes:
        alphabet = [a for a in alphabet]
    out = []
    for i in range(n):
        r = rng.random()
        s = rx.sample(node, rng)
        if r < 0.35:
            pass
        elif r < 0.6:
            s = rx.mutate(s, rng, alphabet)
        elif r < 0.7:
            s = rx.mutate(rx.mutate(s, rng, alphabet), rng, alphabet)
        elif r < 0.8:
            s = rx.sample(node, rng) + b"\n" + s
        elif r < 0.9:
            s = bytes(rng.choice(alphabet) for _ in range(rng.randint(0, 6))) + s + bytes(rng.choice(alphabet) for _ in range(rng.randint(0, 3)))
        else:
            s = bytes(rng.choice(alphabet) for _ in range(rng.randint(0, 12)))
        if len(s) <= 160:
            out.append(s)
    return out


def run(rep, patterns, n_per, name="regexconf", with_sub=True):
    """patterns: list of (label, pattern, flags).  Returns (ok, stats)."""
    rng = rep.rng
    defs, terms, meta = [], [], []
    for k, (label, pat, flags) in enumerate(patterns):
        try:
            term, node = rx.translate(pat, flags)
        except rx.Unsupported as e:
            rep.broken.append("regex translator: %s: %s" % (label, e))
            continue
        defs.append("Definition p%d : re := %s." % (k, term))
        cp = re.compile(pat, flags)
        is_bytes = isinstance(pat, (bytes, bytearray))
        for s in gen_strings(node, rng, n_per, is_bytes):
            subj = s if is_bytes else s.decode("latin-1")
            mo = cp.search(subj)
            if mo:
                a, b = mo.span()
                span = "(Some (%d%%nat, %d%%nat))" % (a, b)
            else:
                span = "None"
            if with_sub:
                sub = cp.sub(b"" if is_bytes else "", subj)
                sub = sub if is_bytes else sub.encode("latin-1", "replace")
            else:
                sub = b""
            terms.append("(p%d, %s, %s, %s)" % (k, coq_bytes(s), span, coq_bytes(sub)))
            meta.append((label, s))
            rep.case(("rx", label, s), nontrivial=bool(mo))
    header = ("From Verif Require Import Bytes Regex RegexDeriv RegexPrio.\n" + "\n".join(defs) + "\n" +
              "Definition span_of (r : re) (s : bytes) : option (nat * nat) :=\n"
              "  match search r s with Some (pre, g, _) => Some (length pre, (length pre + length g)%nat) | None => None end.\n"
              "Definition oeq (a b : option (nat * nat)) : bool := match a, b with None, None => true\n"
              "  | Some (x, y), Some (u, v) => Nat.eqb x u && Nat.eqb y v | _, _ => false end.\n"
              "Definition chk (c : re * bytes * option (nat * nat) * bytes) : bool :=\n"
              "  let '(r, s, sp, sb) := c in\n"
              "  Bool.eqb (search_b r s) (match sp with Some _ => true | None => false end) &&\n"
              "  oeq (span_of r s) sp" + (" && beq (sub_all r s) sb" if with_sub else "") + ".\n")
    bad, log = common.eval_cases(rep.workdir, name, header, terms, "chk", shard=300)
    stats = {"patterns": len(patterns), "strings": len(terms), "disagreements": None if bad is None else len(bad)}
    if bad is None:
        rep.broken.append("regex-conformance (evaluation failed)")
        rep.notes.append(log)
        return False, stats
    if bad:
        for ix in bad[:5]:
            rep.notes.append("regex engines disagree with CPython on pattern %s string %r" % meta[ix])
        rep.broken.append("regex-conformance: %d disagreements, first: %s %r" % (len(bad), meta[bad[0]][0], meta[bad[0]][1]))
        return False, stats
    return True, stats
