"""C11 helpers: a scripted transport that can be closed / re-opened and that dies or stalls at an
enumerated read / write of a chosen phase, real-resource observers, loopback device server.

FaultTransport wraps harness.simdevice (shared, unchanged): every open() starts a fresh session of a
fresh SimDevice (a device forgets a closed session), open() can be made to fail, a read with nothing
pending is turned into what scrapli's own timeout machinery does (decorators._handle_timeout: close
the transport, raise ScrapliTimeout) when the scenario says "stall", else it raises Starved."""
import asyncio
import os
import threading

from .simdevice import (AsyncScriptedTransport, ScriptedTransport, SimDevice, Starved, driver_class)

PLATFORMS = ["cisco_iosxe", "cisco_iosxr", "cisco_nxos", "arista_eos", "juniper_junos"]
KINDS = PLATFORMS + ["generic", "network"]

# exception classes a user hook / with-body may raise (EOther n of the model); never compared by message
USER_EXC = [ValueError, RuntimeError, KeyError, OSError]


class UserBoom(Exception):
    """not used: user exceptions are builtin classes (USER_EXC) so that a replay file names them"""


def exc_by_name(name):
    import scrapli.exceptions as se
    for c in USER_EXC:
        if c.__name__ == name:
            return c
    return getattr(se, name)


class _Faulty:
    """mixin over simdevice._Common: phase-scoped faults, re-open, open failure.

    drop / wdrop: the device is gone from that read / write on (every later read and write of the session
    raises ScrapliConnectionError); stall: the read never returns, i.e. scrapli's timeout fires
    (decorators._handle_timeout: transport.close() + ScrapliTimeout); a read with nothing pending is a stall."""

    def _finit(self, device_factory):
        self.device_factory = device_factory
        self.phase = None            # set by the harness wrappers: "on_open"|"body"|"on_close"|"operate"
        self.armed = None            # {"phase":..., "kind": "drop"|"stall"|"wdrop", "at": k}
        self.count = {}              # phase -> [reads, writes]
        self.fired = None            # (phase, kind) once a fault has fired in the current operation
        self.open_fail = None        # exception class raised by the next open()
        self.dead = False            # the device of this session is gone
        self.sessions = 0
        self.close_calls = 0
        self.silent = False          # asyncio only: the device of this session has gone quiet for good (fault "hang")
        self.hangs = 0               # reads that are waiting for ever (only a cancellation ends them)
        self.on_hang = None          # called (no arguments) when a read starts to wait for ever

    def _fopen(self):
        if self.open_fail is not None:
            e = self.open_fail
            self.open_fail = None
            raise e("scripted open failure")
        self.device = self.device_factory()
        self.device.start()
        self.delivered = 0
        self.sessions += 1
        self.dead = False
        self.silent = False
        self.opened = True

    def _fclose(self):
        self.close_calls += 1
        self.opened = False

    def _tick(self, ix):
        c = self.count.setdefault(self.phase, [0, 0])
        c[ix] += 1
        return c[ix]

    def _gone(self):
        from scrapli.exceptions import ScrapliConnectionError
        return ScrapliConnectionError("encountered EOF reading from transport; typically means the device closed the connection")

    def _hit(self, kinds, n):
        a = self.armed
        return bool(a and a["phase"] == self.phase and a["kind"] in kinds and n >= a["at"] and self.fired is None)

    def _fread(self):
        if not self.opened:
            from scrapli.exceptions import ScrapliConnectionNotOpened
            raise ScrapliConnectionNotOpened
        if self.dead:
            raise self._gone()
        n = self._tick(0)
        if self._hit(("drop",), n):
            self.fired = (self.phase, "drop")
            self.dead = True
            raise self._gone()
        if self._hit(("stall",), n):
            self.fired = (self.phase, "stall")
            self._timeout()
        try:
            return self._read()
        except Starved:
            if self.fired is None:
                self.fired = (self.phase, "stall")
            self._timeout()
            raise

    def _timeout(self):
        # exactly what scrapli does when a timeout fires (sync: thread/signal handler, async: wait_for)
        from scrapli.decorators import _handle_timeout
        _handle_timeout(transport=self, logger=self.logger, message="timed out (scripted stall)")

    def _fwrite(self, b):
        if not self.opened:
            from scrapli.exceptions import ScrapliConnectionNotOpened
            raise ScrapliConnectionNotOpened
        if self.dead:
            raise self._gone()
        n = self._tick(1)
        if self._hit(("wdrop",), n):
            self.fired = (self.phase, "wdrop")
            self.dead = True
            raise self._gone()
        self._write(b)


class FaultTransport(_Faulty, ScriptedTransport):
    def __init__(self, device_factory, policy=("whole",), base_transport_args=None):
        ScriptedTransport.__init__(self, device_factory(), policy, None, base_transport_args)
        self._finit(device_factory)

    def open(self):
        self._fopen()

    def close(self):
        self._fclose()

    def read(self):
        return self._fread()

    def write(self, channel_input):
        self._fwrite(channel_input)


class AsyncFaultTransport(_Faulty, AsyncScriptedTransport):
    def __init__(self, device_factory, policy=("whole",), base_transport_args=None):
        AsyncScriptedTransport.__init__(self, device_factory(), policy, None, base_transport_args)
        self._finit(device_factory)

    async def open(self):
        self._fopen()

    def close(self):
        self._fclose()

    async def read(self):
        """fault kind "hang" (asyncio only): the device is connected and silent and NO scrapli timeout is running
        (timeout_ops = 0, or longer than the caller is willing to wait): the read really waits — on a future nobody
        completes — and only a cancellation of the awaiting task (task.cancel(), an outer asyncio.wait_for expiring)
        ends it.  A device that went quiet stays quiet: every later read of the session waits as well."""
        if self.opened and not self.dead:
            a = self.armed
            if not self.silent and a and a["kind"] == "hang" and a["phase"] == self.phase and self.fired is None \
                    and self.count.get(self.phase, [0, 0])[0] + 1 >= a["at"]:
                self.silent = True
            if self.silent:
                self._tick(0)
                if self.fired is None:
                    self.fired = (self.phase, "hang")
                self.hangs += 1
                if self.on_hang is not None:
                    self.on_hang()
                await asyncio.get_running_loop().create_future()
        return self._fread()

    def write(self, channel_input):
        self._fwrite(channel_input)


def make_fault_driver(kind, stack, device_factory, policy=("whole",), **kw):
    """real scrapli driver of `kind`; transport = FaultTransport; on_open/on_close (default platform
    hooks or the given ones) are wrapped only to label the phase for the fault scheduler"""
    from copy import deepcopy
    cls = driver_class(kind, stack)
    args = dict(host="sim", transport="telnet" if stack == "sync" else "asynctelnet", auth_bypass=True,
                timeout_ops=0, timeout_transport=0, timeout_socket=0)
    if kind == "network":
        from scrapli.driver.core.cisco_iosxe.base_driver import PRIVS
        args.update(privilege_levels=deepcopy(PRIVS), default_desired_privilege_level="privilege_exec")
    args.update(kw)
    d = cls(**args)
    tcls = FaultTransport if stack == "sync" else AsyncFaultTransport
    t = tcls(device_factory, policy, base_transport_args=d._base_transport_args)
    d.transport = t
    d.channel.transport = t
    for name in ("on_open", "on_close"):
        orig = getattr(d, name)
        if orig is None:
            continue
        setattr(d, name, _phase_wrap(orig, t, name, stack))
    return d


def _phase_wrap(orig, t, name, stack):
    if stack == "sync":
        def hook(conn):
            prev, t.phase = t.phase, name
            try:
                return orig(conn)
            finally:
                t.phase = prev
    else:
        async def hook(conn):
            prev, t.phase = t.phase, name
            try:
                return await orig(conn)
            finally:
                t.phase = prev
    hook.__wrapped__ = orig
    return hook


def user_hook(stack, interact, fail):
    """a user on_open/on_close hook: optionally talks to the device (get_prompt), optionally raises"""
    if stack == "sync":
        def hook(conn):
            if interact:
                conn.get_prompt()
            if fail:
                raise exc_by_name(fail)("user hook failure")
    else:
        async def hook(conn):
            if interact:
                await conn.get_prompt()
            if fail:
                raise exc_by_name(fail)("user hook failure")
    return hook


# ------------------------------------------------------------------------------------------------
# real-resource observers
# ------------------------------------------------------------------------------------------------
def fd_snapshot():
    out = {}
    for f in os.listdir("/proc/self/fd"):
        try:
            out[int(f)] = os.readlink("/proc/self/fd/" + f)
        except OSError:
            pass
    return out


def fd_new(before, after, ignore=()):
    """fds present now that were not there before (or point elsewhere), minus ignorable targets"""
    new = {}
    for k, v in after.items():
        if before.get(k) != v and not any(s in v for s in ignore):
            new[k] = v
    return new


def children():
    """child processes of this process in ANY state: a defunct (unreaped) child still occupies the process table"""
    me = os.getpid()
    out = []
    for p in os.listdir("/proc"):
        if not p.isdigit():
            continue
        try:
            with open("/proc/%s/stat" % p) as f:
                s = f.read()
            rest = s[s.rindex(")") + 2:].split()
            if int(rest[1]) == me:
                out.append(int(p))
        except (OSError, ValueError):
            pass
    return sorted(out)


def reap():
    try:
        while True:
            pid, _ = os.waitpid(-1, os.WNOHANG)
            if pid == 0:
                break
    except ChildProcessError:
        pass


def threads():
    return sorted(t.name for t in threading.enumerate() if t is not threading.main_thread() and t.is_alive())


# ------------------------------------------------------------------------------------------------
# loopback device server (thorough tier): one SimDevice per accepted TCP connection
# ------------------------------------------------------------------------------------------------
def _strip_iac(b):
    """(data without complete IAC verb opt triples, incomplete trailing command kept for the next recv)"""
    out, i = bytearray(), 0
    while i < len(b):
        if b[i] == 255:
            if i + 3 > len(b):
                return bytes(out), bytes(b[i:])
            i += 3
        else:
            out.append(b[i])
            i += 1
    return bytes(out), b""


class LoopbackDevice:
    """TCP server on 127.0.0.1 speaking for a SimDevice.  mode: "ok" | "silent" (accept, print the prompt,
    then never answer) | "drop_after": n (close the connection after n received bytes)."""

    def __init__(self, device_factory, negotiate=b""):
        import socket
        self.device_factory = device_factory
        self.negotiate = negotiate
        self.srv = socket.socket()
        self.srv.setsockopt(socket.SOL_SOCKET, socket.SO_REUSEADDR, 1)
        self.srv.bind(("127.0.0.1", 0))
        self.srv.listen(8)
        self.port = self.srv.getsockname()[1]
        self.mode = "ok"
        self.drop_after = None
        self.stop = False
        self.conns = []
        self.thread = threading.Thread(target=self._serve, name="c11-loopback", daemon=True)
        self.thread.start()

    def _serve(self):
        import select
        devs = {}
        while not self.stop:
            try:
                r, _, _ = select.select([self.srv] + list(devs), [], [], 0.05)
            except (OSError, ValueError):
                break
            for s in r:
                if s is self.srv:
                    try:
                        c, _ = self.srv.accept()
                    except OSError:
                        continue
                    dev = self.device_factory()
                    dev.start()
                    devs[c] = [dev, 0, 0, b""]
                    self.conns.append(c)
                    try:
                        c.sendall(self.negotiate + bytes(dev.out))
                    except OSError:
                        pass
                    devs[c][1] = len(dev.out)
                else:
                    dev, sent, got, pend = devs[s]
                    try:
                        data = s.recv(65535)
                    except OSError:
                        data = b""
                    if not data:
                        s.close()
                        del devs[s]
                        continue
                    devs[s][2] = got + len(data)
                    if self.drop_after is not None and devs[s][2] >= self.drop_after:
                        s.close()
                        del devs[s]
                        continue
                    if self.mode == "silent":
                        continue
                    # a telnet server consumes the client's IAC verb opt replies; it does not echo them
                    data, devs[s][3] = _strip_iac(pend + data)
                    dev.feed(data)
                    if dev.closed:
                        try:
                            s.sendall(bytes(dev.out[sent:]))
                        except OSError:
                            pass
                        s.close()
                        del devs[s]
                        continue
                    try:
                        s.sendall(bytes(dev.out[sent:]))
                    except OSError:
                        pass
                    devs[s][1] = len(dev.out)
        for s in list(devs):
            s.close()

    def shutdown(self):
        self.stop = True
        self.thread.join(5)
        self.srv.close()


class ARunner:
    """one event loop per scenario (sync: none)"""

    def __init__(self, stack):
        self.stack = stack
        self.loop = asyncio.new_event_loop() if stack != "sync" else None

    def call(self, fn, *a, **kw):
        if self.stack == "sync":
            return fn(*a, **kw)
        return self.loop.run_until_complete(fn(*a, **kw))

    def call_cancelling(self, fn, transport, how="task", max_hangs=8):
        """asyncio only.  Run fn() as a task; whenever a read of `transport` starts to wait for ever (fault "hang")
        the awaiting task is cancelled: how == "task": task.cancel() at every hang; how == "wait_for": the call is
        wrapped in asyncio.wait_for(..., 0.02) — the first hang is ended by that timeout expiring (nothing else in a
        scripted run ever yields to the loop, so the timer can only fire there), later hangs (the timeout context
        cancels only once) by task.cancel().  Synchronisation is by events, never by sleeping.
        Returns (value, number of hangs ended by task.cancel(), hangs ended by the wait_for timeout)."""
        loop = self.loop
        stats = {"cancels": 0, "timeouts": 0}

        async def supervise():
            hang = asyncio.Event()
            prev, transport.on_hang = transport.on_hang, hang.set
            inner = fn() if how != "wait_for" else asyncio.wait_for(fn(), 0.02)
            task = loop.create_task(inner)
            first = True
            try:
                while not task.done():
                    waiter = loop.create_task(hang.wait())
                    await asyncio.wait({task, waiter}, return_when=asyncio.FIRST_COMPLETED)
                    if not waiter.done():
                        waiter.cancel()
                    if task.done():
                        break
                    hang.clear()
                    if stats["cancels"] + stats["timeouts"] >= max_hangs:
                        task.cancel()
                        raise Starved()
                    if how == "wait_for" and first:
                        first = False
                        stats["timeouts"] += 1
                        # let the timer of wait_for end this wait; a further hang or the end of the task wakes us
                        continue
                    first = False
                    stats["cancels"] += 1
                    task.cancel()
                return await task
            finally:
                transport.on_hang = prev
        try:
            return loop.run_until_complete(supervise()), stats
        except BaseException as e:
            e._c11_stats = stats
            raise

    def close(self):
        if self.loop is not None:
            self.loop.run_until_complete(asyncio.sleep(0))
            self.loop.close()
            self.loop = None
