"""C10 helper — host aliases (alias part of suite hostkey-loopback).

The name that is DIALLED differs from the name(s) under which known_hosts carries the server's key: the
server on 127.0.0.1 is reached through a name that resolves to it (localhost, 127.1, ...) while the file
lists its key under the peer address (plain, comma-listed, hashed, `[addr]:port`, hashed `[addr]:port`,
a * pattern or a CIDR block that covers the address), under another alias, or under an unrelated name —
and lists nothing, another key, or the right key for the dialled name itself.

Oracle (no model, no scrapli code): the entry for the host is the entry for the DIALLED name
(spec_entry_keys(text, dialled, port)); in strict mode a server whose key is not in that set must record
nothing and the attempt must end in ScrapliAuthenticationFailed.

A file is described by a layout (list of entries {names: [templates with {port}], hashed, key, role}) so that
a replay can rebuild it for the port and keys of the replaying run (hashed `[addr]:port` names cannot be
rewritten textually)."""
import socket

PEER = "127.0.0.1"
CANDIDATES = ["localhost", "LOCALHOST"]
NOISE_NAMES = ["10.0.0.1", "r1.example.net", "router-1", "127.0.0.11", "27.0.0.1", "127.0.0.1.evil.example"]
NAME_FORMS = ["plain", "comma", "hashed", "bracket", "bracket-hashed"]
VISIBLE_FORMS = ("plain", "comma", "hashed")     # forms of a name without port (any client reads them as the name's entry)
ADDR_CARRIERS = ["addr"]                           # + ("addr-wild", "addr-cidr") which have one form only
SIG_PEER_ADDR = "c10-asyncssh-peer-address-entry"


def is_address_spelling(name):
    """127.1, 2130706433, 0x7f.0.0.1 ...: not names but spellings of an address (ssh(1) rewrites them to the canonical
    text before it looks into known_hosts)"""
    try:
        socket.inet_aton(name)
        return True
    except OSError:
        return False


def loopback_names():
    """NAMES (not numeric spellings of the address) that resolve to 127.0.0.1, and only to it, on this machine:
    localhost in two letter cases and up to two more names /etc/hosts gives to 127.0.0.1"""
    cands = list(CANDIDATES)
    try:
        with open("/etc/hosts", encoding="utf-8") as f:
            extra = []
            for line in f:
                w = line.split("#")[0].split()
                if w and w[0] == PEER:
                    extra += [n for n in w[1:] if n not in cands and n not in extra]
            cands += sorted(extra)[:2]
    except OSError:
        pass
    out = []
    for n in cands:
        if is_address_spelling(n):
            continue
        try:
            infos = socket.getaddrinfo(n, 22, type=socket.SOCK_STREAM)
        except OSError:
            continue
        if {i[4][0] for i in infos} == {PEER}:
            out.append(n)
    return out


def oracle_names(dial):
    """the names under which an entry counts as an entry FOR THE DIALLED HOST (generous): the string as dialled, its lower
    case (host names are case-insensitive; ssh(1) lower-cases before the lookup) and, when the string is a numeric spelling
    of an address, the canonical text of that address"""
    out = [dial]
    if dial.lower() != dial:
        out.append(dial.lower())
    if is_address_spelling(dial):
        canon = socket.inet_ntoa(socket.inet_aton(dial))
        if canon not in out:
            out.append(canon)
    return out


def name_entry(rng, name, form, key, role):
    if form == "plain":
        return {"names": [name], "hashed": False, "key": key, "role": role}
    if form == "comma":
        extra = rng.sample(NOISE_NAMES, rng.randint(1, 2))
        pos = rng.randint(0, len(extra))
        return {"names": extra[:pos] + [name] + extra[pos:], "hashed": False, "key": key, "role": role}
    if form == "hashed":
        return {"names": [name], "hashed": True, "key": key, "role": role}
    if form == "bracket":
        return {"names": ["[%s]:{port}" % name], "hashed": False, "key": key, "role": role}
    if form == "bracket-hashed":
        return {"names": ["[%s]:{port}" % name], "hashed": True, "key": key, "role": role}
    raise ValueError(form)


def gen_layout(rng, keys_pub, sk, dial, rel, nameform, carrier, carrier_form, names):
    """rel: what the file says for the DIALLED name — absent | other_same | other_type | right.
    carrier: where the server's key is listed besides — addr | addr-wild | addr-cidr | alias | unrelated | none."""
    others = [k for k in keys_pub if k != sk]
    same = [k for k in others if keys_pub[k][0] == keys_pub[sk][0]]
    diff = [k for k in others if keys_pub[k][0] != keys_pub[sk][0]]
    lay = []
    for _ in range(rng.randint(0, 2)):
        lay.append(name_entry(rng, rng.choice(NOISE_NAMES), rng.choice(["plain", "hashed"]), rng.choice(list(keys_pub)), "noise"))
    if rel != "absent":
        key = {"right": sk, "other_same": rng.choice(same), "other_type": rng.choice(diff)}[rel]
        lay.insert(rng.randint(0, len(lay)), name_entry(rng, dial, nameform, key, "dial"))
    if carrier == "addr":
        e = name_entry(rng, PEER, carrier_form, sk, "carrier")
    elif carrier == "addr-wild":
        e = {"names": ["127.0.0.*"], "hashed": False, "key": sk, "role": "carrier"}
    elif carrier == "addr-cidr":
        e = {"names": ["127.0.0.0/8"], "hashed": False, "key": sk, "role": "carrier"}
    elif carrier == "alias":
        # another NAME of the machine (never the peer address: that is carrier addr; host names are case-insensitive: not the
        # dialled name in another letter case); on a machine with a single name: a name that does not resolve at all
        pool = [n for n in names if n.lower() != dial.lower()] or ["router-1"]
        e = name_entry(rng, rng.choice(pool), carrier_form, sk, "carrier")
    elif carrier == "unrelated":
        e = name_entry(rng, "router-1", carrier_form, sk, "carrier")
    else:
        e = None
    if e is not None:
        lay.insert(rng.randint(0, len(lay)), e)
    return lay


def render(M, rng, layout, port, keys_pub):
    lines = []
    for e in layout:
        ns = [t.replace("{port}", str(port)) for t in e["names"]]
        if e["hashed"]:
            ns = [M.hashed_host(rng, n) for n in ns]
        lines.append("%s %s %s" % (",".join(ns), keys_pub[e["key"]][0], keys_pub[e["key"]][1]))
    return "\n".join(lines) + "\n"


def in_known_region(lib, rel, nameform, carrier):
    """the listed finding c10-asyncssh-peer-address-entry: the dialled name has an entry with ANOTHER key and the peer
    address has one with the server's key — asyncssh trusts the union of both, the credentials go out during connect()
    and scrapli's own comparison with the name's entry raises only afterwards.  The generator keeps away from it; it is
    replayed once per run."""
    return lib == "Asyncssh" and rel in ("other_same", "other_type") and nameform in VISIBLE_FORMS and carrier.startswith("addr")


def plan(rng, names, thorough):
    """(lib, dial, rel, nameform, carrier, carrier_form, method, server key, strict)"""
    out = []
    if not names:
        return out
    methods = ["password", "key", "both"]
    rot = [rng.randrange(100)]

    def nxt(seq):
        rot[0] += 1
        return seq[rot[0] % len(seq)]

    def add(lib, rel, nameform, carrier, cform, dial=None, strict=None, method=None):
        dial = dial or nxt(names)
        if in_known_region(lib, rel, nameform, carrier):
            return
        out.append((lib, dial, rel, nameform, carrier, cform, method or nxt(methods), nxt(["A", "R"]), rng.choice([None, True]) if strict is None else strict))

    libs = ("Asyncssh", "Paramiko")
    for lib in libs:
        # the dialled name has no entry, the server's key is listed under the peer address (every form) / a pattern / a block
        for cform in NAME_FORMS:
            add(lib, "absent", "plain", "addr", cform)
        add(lib, "absent", "plain", "addr-wild", "plain")
        add(lib, "absent", "plain", "addr-cidr", "plain")
        # ... under another alias of the same machine
        add(lib, "absent", "plain", "alias", nxt(["plain", "hashed", "comma"]))
        add(lib, "absent", "plain", "alias", nxt(["bracket", "bracket-hashed"]))
        # the dialled name is listed with ANOTHER key in the [name]:port form, the address carries the right key
        add(lib, nxt(["other_same", "other_type"]), "bracket", "addr", nxt(["bracket", "bracket-hashed"]))
        # controls: the right key under the dialled name opens; strict off opens whatever the file says
        add(lib, "right", nxt(list(VISIBLE_FORMS)), nxt(["addr", "none", "unrelated"]), "plain")
        add(lib, "right", nxt(list(VISIBLE_FORMS)), "alias", "hashed")
        add(lib, "absent", "plain", "addr", "plain", strict=False)
        # dialled by address, the key is listed under a name of the machine only
        add(lib, "absent", "plain", "alias", nxt(["plain", "comma", "hashed"]), dial=PEER)
    # another key under the dialled name + the right key under the address: paramiko (for asyncssh this is the listed finding)
    for nameform in VISIBLE_FORMS:
        add("Paramiko", nxt(["other_same", "other_type"]), nameform, "addr", nxt(NAME_FORMS))
    if thorough:
        carriers = [("addr", f) for f in NAME_FORMS] + [("addr-wild", "plain"), ("addr-cidr", "plain")] + \
                   [("alias", f) for f in NAME_FORMS] + [("unrelated", "plain"), ("none", "plain")]
        for lib in libs:
            for dial in names + [PEER]:
                for rel in ("absent", "other_same", "other_type", "right"):
                    for nameform in NAME_FORMS:
                        if rel == "absent" and nameform != "plain":
                            continue
                        for carrier, cform in carriers:
                            if dial == PEER and carrier.startswith("addr"):
                                continue          # the address is the dialled name: the single-name matrix
                            if rng.random() < 0.35:
                                add(lib, rel, nameform, carrier, cform, dial=dial, strict=rng.choice([None, True, True, False]))
    return out


def known_case(names):
    """the listed finding, as one concrete scenario"""
    dial = "localhost" if "localhost" in names else (names[0] if names else None)
    if dial is None:
        return None
    return ("Asyncssh", dial, "other_same", "plain", "addr", "plain", "password", "A", None)
