"""C14 — the thread based timeout (scrapli/decorators.py _multiprocessing_timeout).

The sync timeout_wrapper runs the channel operation in a worker thread of a one-thread pool whenever the
transport is a SystemTransport / TelnetTransport, on windows, or when the driver is used from a thread
that is not the main thread.  When timeout_ops is up the CALLER closes the transport and raises
ScrapliTimeout, while the WORKER may still sit in send_and_read's timed read loop with
timeout_transport == int(read_duration): "the override never outlives the call" then needs the restore
(the worker's `finally`) to happen BEFORE the call ends, i.e. the pool's exit has to join the worker.

Scenario = a real sync driver over SimDevice with a scripted transport that behaves like a pty/socket:
a read with nothing pending BLOCKS (on an Event, no sleeping); close() releases it only after a
teardown latency - or never.  Real threads, sub-second timeouts.  Observed:
  before    the three timeouts before the call
  at_end    ... at the moment the call has ENDED (exception delivered / value returned), read by the
            thread that made the call, before anything else happens
  leaked    threads that did the call's transport I/O and are still alive at that moment
  settled   ... after every such thread has finished (the harness then lets the blocked read go and joins
            them); optionally the user reconfigures both timeouts between `at_end` and `settled`
  seen      (phase, timeouts) at every transport read/write of the call, up to its end
A call that has not ended when the watchdog's patience is over counts as `Blocks` (a call that never
ends is outside the statement); the blocked read is then let go and the end of the call is judged as well.

Nothing in scrapli is patched; the `windows` path sets the module's platform flag for the duration of
the scenario (scrapli.decorators._IS_WINDOWS is what sys.platform gives on import)."""
import threading

from .simdevice import ScriptedTransport, SimDevice, Starved, make_driver

GUARD = 20.0          # fail-safe bounds only: nothing below waits that long unless the machinery is broken
PATIENCE = 0.4        # a call that has not ended this long after its timeout_ops ran out is blocked
HOST = "router1"


class HarnessStuck(Exception):
    """a fail-safe bound was hit: the harness, not the property, failed"""


def val(ms, as_int=False):
    if as_int and ms % 1000 == 0:
        return ms // 1000
    return ms / 1000.0


def same_value(a, b):
    return type(a) in (int, float) and type(b) in (int, float) and a == b


def device_outputs(mode, line):
    if line.startswith("show bad"):
        return b"% Invalid input detected at '^' marker."
    if line.startswith("show"):
        return b"line one\nline two tokx\nline three"
    return b""


# ------------------------------------------------------------------------------------------------
# transport: a blocked read is released by close(), after a latency or never
# ------------------------------------------------------------------------------------------------
class PtyLikeTransport(ScriptedTransport):
    def pool_init(self, run):
        self.run = run
        self.session_timeout = 0
        self.closed_ev = threading.Event()     # close() was called
        self.release = threading.Event()       # the harness lets every blocked read go (after its observation / for cleanup)
        self.parked = threading.Event()        # a read is blocked
        self.latency = None                    # seconds a blocked read needs to come back after close(); None: it never does
        self.parked_at_close = None

    def open(self):
        self.opened = True
        self.closed_ev.clear()
        self.session_timeout = self._base_transport_args.timeout_transport

    def close(self):
        if self.parked_at_close is None:
            self.parked_at_close = self.parked.is_set()
        self.opened = False
        self.closed_ev.set()

    def read(self):
        self.run.io_event("r")
        try:
            return self._read()
        except Starved:
            pass
        # nothing pending: a pty / socket read blocks here; closing the transport makes it come back - in its own time
        from scrapli.exceptions import ScrapliConnectionError
        self.parked.set()
        try:
            if not self.closed_ev.wait(GUARD):
                self.run.stuck.append("a blocked read was never closed")
            elif self.latency is None:
                if not self.release.wait(GUARD):
                    self.run.stuck.append("a blocked read was never let go")
            else:
                self.release.wait(self.latency)
        finally:
            self.parked.clear()
        raise ScrapliConnectionError("simulated: read interrupted by close()")

    def write(self, channel_input):
        self.run.io_event("w")
        self._write(channel_input)


class SystemTransport(PtyLikeTransport):
    """carries the class name that selects the thread based timeout"""


class TelnetTransport(PtyLikeTransport):
    """carries the class name that selects the thread based timeout"""


class _SessMixin:
    def _set_timeout(self, value):
        from scrapli.exceptions import ScrapliConnectionNotOpened
        if not self.opened:
            raise ScrapliConnectionNotOpened
        self.session_timeout = value


class SessPtyLikeTransport(_SessMixin, PtyLikeTransport):
    pass


class _SessSystem(_SessMixin, SystemTransport):
    pass


class _SessTelnet(_SessMixin, TelnetTransport):
    pass


_SessSystem.__name__ = "SystemTransport"
_SessTelnet.__name__ = "TelnetTransport"

PATHS = ("system", "telnet", "thread", "windows")


def transport_class(path, has_set):
    if path == "system":
        return _SessSystem if has_set else SystemTransport
    if path == "telnet":
        return _SessTelnet if has_set else TelnetTransport
    return SessPtyLikeTransport if has_set else PtyLikeTransport


# ------------------------------------------------------------------------------------------------
# one scenario
# ------------------------------------------------------------------------------------------------
class PoolRun:
    def __init__(self, scen):
        self.scen = scen
        self.has_set = bool(scen.get("has_set"))
        self.kind = scen["kind"]
        self.events = []
        self.lock = threading.Lock()
        self.stuck = []
        self.tls = threading.local()
        self.io_threads = set()
        self.dev = SimDevice("generic" if self.kind == "generic" else "cisco_iosxe", host=HOST, outputs=device_outputs)
        self.dev.start()
        kw = dict(timeout_ops=val(scen["base_ops"], scen.get("base_int", False)),
                  timeout_transport=val(scen["base_tr"], scen.get("base_int", False)))
        self.d = make_driver(self.kind, "sync", self.dev, tuple(scen["policy"]), **kw)
        t = transport_class(scen["path"], self.has_set)(self.dev, tuple(scen["policy"]), None,
                                                        base_transport_args=self.d._base_transport_args)
        t.pool_init(self)
        self.t = t
        self.d.transport = t
        self.d.channel.transport = t
        orig = self.d.channel._read_until_prompt_or_time
        tls = self.tls

        def timed(*a, **k):
            tls.timed = True
            try:
                return orig(*a, **k)
            finally:
                tls.timed = False
        self.d.channel._read_until_prompt_or_time = timed

    def state(self):
        return (self.d.timeout_ops, self.d.timeout_transport, self.t.session_timeout if self.has_set else 0)

    def io_event(self, kind):
        th = threading.current_thread()
        with self.lock:
            self.io_threads.add(th)
            self.events.append(("timed" if getattr(self.tls, "timed", False) else "io", self.state(), kind, th))

    # -- one call ----------------------------------------------------------------------------------
    def invoke(self, spec):
        d, op = self.d, spec["op"]
        kw = {}
        if spec.get("ov") is not None:
            kw["timeout_ops"] = val(spec["ov"]["ms"], spec["ov"].get("int", False))
        if op == "channel.send_input_and_read":
            ckw = {}
            if "rd" in spec:
                ckw["read_duration"] = None if spec["rd"] is None else val(spec["rd"])
            return d.channel.send_input_and_read(spec["cmd"], **ckw)
        if self.kind == "generic":
            kw["failed_when_contains"] = ["% Invalid input"]
        if op == "send_and_read":
            if "rd" in spec:
                kw["read_duration"] = None if spec["rd"] is None else val(spec["rd"])
            return d.send_and_read(spec["cmd"], **kw)
        if op == "send_command":
            return d.send_command(spec["cmd"], **kw)
        if op == "send_interactive":
            return d.send_interactive([(spec["cmd"], "^" + HOST + r"\S*[#>]\s*$")], **kw)
        raise ValueError(op)

    def effective_timeout(self, spec):
        if spec.get("ov") is not None:
            return val(spec["ov"]["ms"])
        return float(self.d.timeout_ops)

    def call(self, spec):
        t, dev = self.t, self.dev
        silent = spec.get("silent")
        if silent:
            dev.silent_after = len(dev.plain) + (len(spec["cmd"]) if silent == "echo" else 0)
        rel = spec.get("release")
        t.latency = None if rel in (None, "never") else rel["after_ms"] / 1000.0
        t.release.clear()
        t.parked_at_close = None
        with self.lock:
            self.io_threads = set()
            e0 = len(self.events)
        me = threading.current_thread()
        configured = self.d.timeout_ops
        if spec.get("base_ops") is not None:
            # the user configures a short timeout_ops for what follows (only now: opening the connection and the
            # calls on a talking device must never run into it, however busy the machine is)
            self.d.timeout_ops = val(spec["base_ops"])
        rec = {"spec": spec, "gave_up": False, "blocked_state": None}
        watchdog = None
        if silent:
            def give_up():
                rec["blocked_state"] = self.state()
                rec["gave_up"] = True
                t.release.set()
            patience = (self.effective_timeout(spec) + PATIENCE) if rel == "never" else GUARD
            watchdog = threading.Timer(patience, give_up)
            watchdog.daemon = True
        before = self.state()
        ret = exc = None
        if watchdog:
            watchdog.start()
        try:
            ret = self.invoke(spec)
        except BaseException as e:  # noqa: every way the call can end
            exc = e
        at_end = self.state()                    # the call has ended: this is what the caller finds
        closed_after = not t.opened
        with self.lock:
            e1 = len(self.events)
            leaked = [th for th in self.io_threads if th is not me and th.is_alive()]
        if watchdog:
            watchdog.cancel()
            watchdog.join(GUARD)
        if rec["gave_up"] and rel != "never":
            self.stuck.append("fail-safe released a read that should have come back by itself")
        # the user goes on: possibly reconfigures the connection ...
        expected = at_end
        rc = spec.get("reconf")
        if rc:
            self.heal()
            self.d.timeout_ops = val(rc["ops"])
            self.d.timeout_transport = val(rc["tr"])
            expected = self.state()
        # ... and whatever is still running the call's body comes to its end
        t.release.set()
        for th in leaked:
            th.join(GUARD)
            if th.is_alive():
                self.stuck.append("a worker thread did not finish")
        settled = self.state()
        if exc is None:
            out = "FailedCommand" if getattr(ret, "failed", False) else "Ok"
        else:
            out = type(exc).__name__
        with self.lock:
            evs = list(self.events)
        rec.update({"before": before, "at_end": at_end, "outcome": out, "leaked": len(leaked), "expected_settled": expected,
                    "settled": settled, "seen": [(e[0], e[1]) for e in evs[e0:e1]],
                    "late_seen": [(e[0], e[1]) for e in evs[e1:]],
                    "on_worker": sorted({e[0] for e in evs[e0:e1] if e[3] is not me}),
                    "parked_at_close": t.parked_at_close, "closed_after": closed_after})
        if silent:
            dev.silent_after = None
        self.heal()
        if rc:
            # back to the configured values for the rest of the scenario
            self.d.timeout_transport = before[1]
        if rc or spec.get("base_ops") is not None:
            self.d.timeout_ops = configured
        return rec

    def heal(self):
        t = self.t
        self.dev.closed = False
        t.opened = True
        t.closed_ev.clear()
        t.delivered = len(self.dev.out)
        if self.has_set:
            t.session_timeout = self.d.timeout_transport

    def run_calls(self):
        self.d.open()
        self.initial = self.state()
        return [self.call(c) for c in self.scen["calls"]]


def run_scenario(scen):
    """the call records of one scenario on a fresh connection (raises HarnessStuck when a fail-safe was hit)"""
    import scrapli.decorators as deco
    run = PoolRun(scen)
    box = {}

    def body():
        try:
            box["recs"] = run.run_calls()
        except BaseException as e:  # noqa
            box["exc"] = e

    path = scen["path"]
    flag = deco._IS_WINDOWS
    try:
        if path == "windows":
            deco._IS_WINDOWS = True
        if path == "thread":
            th = threading.Thread(target=body, name="c14-caller", daemon=True)
            th.start()
            th.join(GUARD * 3)
            if th.is_alive():
                run.t.closed_ev.set()
                run.t.release.set()
                raise HarnessStuck("the calling thread did not come back")
        else:
            body()
    finally:
        deco._IS_WINDOWS = flag
    if "exc" in box:
        raise box["exc"]
    if run.stuck:
        raise HarnessStuck("; ".join(run.stuck))
    for r in box["recs"]:
        r["has_set"] = run.has_set
    return box["recs"]


# ------------------------------------------------------------------------------------------------
# the property, on the observations alone
# ------------------------------------------------------------------------------------------------
def oracle(rec):
    """the call ended => the configured values are what they were before, at that very moment, and nobody
    touches them afterwards (the user's own later assignments stay); while the call did its I/O the
    values passed for it were in effect"""
    bad = []
    b, a = rec["before"], rec["at_end"]
    spec = rec["spec"]
    if not same_value(b[0], a[0]):
        bad.append("timeout_ops %r -> %r when the call ended" % (b[0], a[0]))
    if not same_value(b[1], a[1]):
        bad.append("timeout_transport %r -> %r when the call ended" % (b[1], a[1]))
    if not rec["closed_after"] and not same_value(b[2], a[2]):
        bad.append("session timeout %r -> %r when the call ended" % (b[2], a[2]))
    e, s = rec["expected_settled"], rec["settled"]
    who = "%d thread(s) still running the call's body" % rec["leaked"]
    what = "the user's later assignment" if spec.get("reconf") else "the value at the end of the call"
    if not same_value(e[0], s[0]):
        bad.append("timeout_ops changed after the call had ended (%s): %s %r -> %r" % (who, what, e[0], s[0]))
    if not same_value(e[1], s[1]):
        bad.append("timeout_transport changed after the call had ended (%s): %s %r -> %r" % (who, what, e[1], s[1]))
    if spec.get("ov") is not None and spec["op"] != "channel.send_input_and_read":
        want = val(spec["ov"]["ms"], spec["ov"].get("int", False))
        wrong = [st[0] for _, st in rec["seen"] if not same_value(st[0], want)]
        if wrong:
            bad.append("timeout_ops=%r was passed but %r was in effect during the call's I/O" % (want, wrong[0]))
    if spec["op"] in ("send_and_read", "channel.send_input_and_read"):
        rd = spec.get("rd", 2500)
        want = int(val(2500 if rd is None else rd))
        wrong = [st[1] for ph, st in rec["seen"] if ph == "timed" and not same_value(st[1], want)]
        if wrong:
            bad.append("read_duration %r: timeout_transport %r during the timed read (expected %r)" % (rd, wrong[0], want))
    return bad or None


def signature(rec):
    b, a, e, s = rec["before"], rec["at_end"], rec["expected_settled"], rec["settled"]
    if not same_value(b[0], a[0]):
        which = "ops"
    elif not same_value(b[1], a[1]):
        which = "transport"
    elif not same_value(b[2], a[2]) and not rec["closed_after"]:
        which = "session"
    elif not (same_value(e[0], s[0]) and same_value(e[1], s[1])):
        which = "late-write"
    else:
        which = "not-applied"
    return "c14:pool:%s:%s:%s" % (rec["spec"]["op"], which, rec["outcome"])


# ------------------------------------------------------------------------------------------------
# model term (coq/model/TimeoutRestore.v, pool_call)
# ------------------------------------------------------------------------------------------------
def ms_of(v):
    if isinstance(v, bool) or not isinstance(v, (int, float)):
        return None
    return int(round(v * 1000))


def z(n):
    return "(%d)" % n


def dedup(seq):
    out = []
    for x in seq:
        if not out or out[-1] != x:
            out.append(x)
    return out


def triple(st):
    return "(%s, %s, %s)" % tuple(z(ms_of(x)) for x in st)


def case_term(rec, joins):
    """Coq term of a call that ran into its timeout on the thread mechanism, or (None, why)"""
    spec = rec["spec"]
    if not spec.get("silent"):
        return None, "pool: call on a talking device (covered by the main suite's operations)"
    if spec["op"] not in ("send_and_read", "channel.send_input_and_read", "send_command", "send_interactive"):
        return None, "pool: operation"
    if not rec["parked_at_close"]:
        return None, "pool: the timeout hit a worker that was not blocked in a read"
    if rec["late_seen"]:
        return None, "pool: I/O after the end of the call"
    if rec["gave_up"]:
        out, end_state = "Blocks", rec["blocked_state"]
    elif rec["outcome"] == "ScrapliTimeout":
        out, end_state = "(Raised ETimeout)", rec["at_end"]
    else:
        return None, "pool: silent device but outcome %s" % rec["outcome"]
    ov = spec.get("ov") if spec["op"] != "channel.send_input_and_read" else None
    o = "OvNone" if ov is None else "(OvVal %s)" % z(ov["ms"])
    timed = [st for ph, st in rec["seen"] if ph == "timed"]
    if spec["op"] in ("send_and_read", "channel.send_input_and_read") and timed:
        rd = spec.get("rd", 2500)
        w = "(WTimed %s %d)" % (z(2500 if rd is None else rd), len(timed) - 1)
    elif timed:
        return None, "pool: timed read in an operation without one"
    else:
        w = "WPlain"
    k = "WakeNever" if spec.get("release") == "never" else "WakeLater"
    rc = spec.get("reconf")
    rct = "None" if not rc else "(Some (%s, %s))" % (z(rc["ops"]), z(rc["tr"]))
    seen = ["(%s, %s)" % ("PhTimed" if ph == "timed" else "PhIo", triple(st)) for ph, st in dedup(rec["seen"])]
    return "(mkcfg true %s, %s, %s, %s, %s, %s, %s, %s, [%s], %s, %s)" % (
        "true" if rec["has_set"] else "false", "true" if joins else "false", triple(rec["before"]), o, w, k,
        triple(end_state), out, "; ".join(seen), rct, triple(rec["settled"])), None


# ------------------------------------------------------------------------------------------------
# generators
# ------------------------------------------------------------------------------------------------
def _scen(path, kind, has_set, calls, base_ops=30000, base_tr=30000, base_int=False, policy=("whole",)):
    return {"suite": "pool", "path": path, "kind": kind, "has_set": has_set, "base_ops": base_ops, "base_tr": base_tr,
            "base_int": base_int, "policy": list(policy), "calls": calls}


OK_CALL = {"op": "send_and_read", "ov": {"ms": 5000}, "rd": 3000, "cmd": "show version"}
AFTER_CALL = {"op": "send_command", "ov": {"ms": 7500}, "cmd": "show version"}


def timed_out(op="send_and_read", ov=60, rd=5000, silent="echo", release=100, reconf=None, cmd="show version"):
    """a call on a device that falls silent: `ov` ms as per-call timeout_ops, or (ov None / the channel method, which takes
    none) as the connection's configured timeout_ops"""
    c = {"op": op, "cmd": cmd, "silent": silent, "release": "never" if release is None else {"after_ms": release}}
    if op == "channel.send_input_and_read" or ov is None:
        c["base_ops"] = 60 if ov is None else ov
    if op != "channel.send_input_and_read":
        c["ov"] = None if ov is None else {"ms": ov}
    if op in ("send_and_read", "channel.send_input_and_read") and rd != "default":
        c["rd"] = rd
    if reconf:
        c["reconf"] = reconf
    return c


def fixed_scenarios(thorough):
    """every way onto the thread mechanism x the operations x how the blocked read comes back"""
    out = [
        _scen("system", "generic", False, [OK_CALL, timed_out(), AFTER_CALL]),
        _scen("thread", "generic", True, [timed_out(rd="default", reconf={"ops": 20000, "tr": 11000}), AFTER_CALL]),
        _scen("telnet", "cisco_iosxe", False, [timed_out(ov=None, rd=1000)], base_tr=12500),
        _scen("windows", "generic", False, [timed_out(op="channel.send_input_and_read", rd=2999)]),
        _scen("system", "generic", True, [timed_out(release=None, rd=4000), AFTER_CALL], base_tr=10000, base_int=True),
        _scen("thread", "generic", False, [timed_out(op="send_command"), timed_out(silent="all", rd=0)]),
    ]
    if thorough:
        for path in PATHS:
            for has_set in (False, True):
                for op in ("send_and_read", "channel.send_input_and_read", "send_command", "send_interactive"):
                    for release in (100, None):
                        for silent in ("echo", "all"):
                            if silent == "all" and (release is None or op != "send_and_read"):
                                continue
                            out.append(_scen(path, "generic", has_set, [timed_out(op=op, release=release, silent=silent), AFTER_CALL]))
        for path in PATHS:
            out.append(_scen(path, "cisco_iosxe", True, [OK_CALL, timed_out(rd=2500, reconf={"ops": 0, "tr": 45250}), AFTER_CALL]))
    return out


def gen_scenario(rng):
    path = rng.choice(PATHS)
    kind = rng.choice(["generic", "generic", "cisco_iosxe"])
    op = rng.choice(["send_and_read", "send_and_read", "send_and_read", "channel.send_input_and_read", "send_command", "send_interactive"])
    base_ops = rng.choice([30000, 10000, 45250])
    ov = rng.choice([50, 60, 80])
    configured = op == "channel.send_input_and_read" or rng.random() < 0.25
    rd = rng.choice([2500, "default", 1000, 2999, 500, 10750, 0])
    reconf = {"ops": rng.choice([0, 20000, 7500]), "tr": rng.choice([11000, 45250, 5000])} if rng.random() < 0.4 else None
    calls = []
    if rng.random() < 0.5:
        calls.append(dict(rng.choice([OK_CALL, AFTER_CALL, {"op": "send_and_read", "ov": None, "cmd": "show bad thing", "rd": 1000}])))
    c = timed_out(op=op, ov=ov, rd=rd, silent="echo" if rng.random() < 0.85 else "all",
                  release=rng.choice([90, 100, 120]), reconf=reconf, cmd=rng.choice(["show version", "show ip route"]))
    if configured:
        c["base_ops"] = ov
        if "ov" in c:
            c["ov"] = None
    calls.append(c)
    if rng.random() < 0.6:
        calls.append(dict(AFTER_CALL))
    return _scen(path, kind, rng.random() < 0.4, calls, base_ops=base_ops, base_tr=rng.choice([30000, 10000, 12500, 45250]),
                 base_int=rng.random() < 0.3, policy=rng.choice([("whole",), ("bytes", 8), ("bytes", 23)]))


def jsonable_rec(rec):
    r = lambda st: [repr(x) for x in st]  # noqa
    return {"spec": rec["spec"], "before": r(rec["before"]), "at_end_of_call": r(rec["at_end"]), "outcome": rec["outcome"],
            "call_blocked_until_released": rec["gave_up"], "threads_still_in_the_call_at_its_end": rec["leaked"],
            "expected_afterwards": r(rec["expected_settled"]), "afterwards": r(rec["settled"]),
            "seen": [[p, r(s)] for p, s in dedup(rec["seen"])], "seen_after_the_end": [[p, r(s)] for p, s in dedup(rec["late_seen"])]}
