"""C11 suite `ssh-open` (ORACLE-ONLY): every failure POINT of the library transports' open().

AsyncsshTransport.open(): connect (refused / lost / timed out / key exchange), authentication (PermissionDenied),
host key value check after connect (strict), open_session (ChannelOpenError, connection lost, OSError, a non-ssh
exception), stream setup (pty / shell request refused after the channel exists).
ParamikoTransport.open(): socket connect, start_client, host key check, authentication (rejected / session lost),
open_session, get_pty, invoke_shell.

Two worlds:
 * stub library objects patched into the plugin modules (`connect` of the asyncssh plugin; `Socket` and
   `_ParamikoTransport` of the paramiko plugin) that RECORD close()/abort() calls — real drivers (IOS-XE with its default
   on_open/on_close hooks, generic) on top, a SimDevice behind a healthy session;
 * in-process loopback servers (asyncssh.listen on 127.0.0.1, background loop as in harness/c10_loopback.py) that reject
   the password, refuse the session channel / the pty / the shell, disconnect when the session is requested, hang up
   before the banner, or are not listening at all — real asyncssh / paramiko clients underneath.

Histories: with-block (the open failing inside it) then a healthy with-block; open (failing) / close / close / open /
operate / close; open (failing) inside a with-block after a healthy open-operate-close.

Oracle (nothing of scrapli's bookkeeping is trusted alone): at every release point (close() returned or raised, with-block
left) every library object that open() acquired — connection, channel, socket — has had close()/abort() called (stub) /
the server has seen every connection it accepted go away and no client socket to the server's port is in /proc/self/fd,
no thread is left (loopback); the transport holds no handle, isalive() is False; close() of a released connection raises at
most a scrapli exception; a released connection opens again against a healthy device."""
import asyncio
import gc
import os
import socket as _socket
import threading

from . import c11_lib as L

SIG_PARAMIKO = "c11-paramiko-failed-open-keeps-socket"
# the listed finding's region: ParamikoTransport.open() failing after the socket is connected and before the channel exists,
# with the ssh session still up (a session that ENDED — handshake failure, EOF — makes paramiko close the socket by itself)
PARAMIKO_REGION = ("hostkey", "auth", "open_session")
PARAMIKO_REGION_SERVERS = ("auth_denied", "refuse_session")
SESSION_ENDS = ("EOFError", "timeout")


def in_paramiko_region(op):
    f = op.get("fail") or {}
    return (f.get("step") in PARAMIKO_REGION and f.get("exc") not in SESSION_ENDS) or op.get("server") in PARAMIKO_REGION_SERVERS

ASYNCSSH_FAILS = {
    "connect": ["ConnectionRefusedError", "ConnectionLost", "TimeoutError", "KeyExchangeFailed", "HostKeyNotVerifiable"],
    "auth": ["PermissionDenied"],
    "hostkey": ["mismatch", "none"],                       # strict only: the key VALUE is checked after connect() returned
    "open_session": ["ChannelOpenError", "ConnectionLost", "BrokenPipeError", "RuntimeError"],
    "pty": ["ChannelOpenError"], "shell": ["ChannelOpenError"],
}
PARAMIKO_FAILS = {
    "socket": ["ScrapliConnectionNotOpened"],
    "start_client": ["SSHException", "EOFError", "timeout"],
    "hostkey": ["mismatch", "unknown"],
    "auth": ["AuthenticationException", "EOFError", "silent"],   # silent: auth_password returns, is_authenticated() False
    "open_session": ["ChannelException", "SSHException", "EOFError"],
    "get_pty": ["SSHException", "EOFError"], "invoke_shell": ["SSHException", "EOFError"],
}
KEY_A = "AAAAC3NzaC1lZDI1NTE5AAAAIA0000000000000000000000000000000000000000000"
KEY_B = "AAAAC3NzaC1lZDI1NTE5AAAAIB1111111111111111111111111111111111111111111"


def _asyncssh_exc(name):
    import asyncssh
    if name == "ChannelOpenError":
        return asyncssh.ChannelOpenError(asyncssh.OPEN_ADMINISTRATIVELY_PROHIBITED, "Session refused")
    if name == "ConnectionLost":
        return asyncssh.ConnectionLost("Connection lost")
    if name == "PermissionDenied":
        return asyncssh.PermissionDenied("Permission denied")
    if name == "KeyExchangeFailed":
        return asyncssh.KeyExchangeFailed("No matching key exchange algorithm found")
    if name == "HostKeyNotVerifiable":
        return asyncssh.HostKeyNotVerifiable("Host key is not trusted")
    if name == "TimeoutError":
        return asyncio.TimeoutError()
    return {"ConnectionRefusedError": ConnectionRefusedError, "BrokenPipeError": BrokenPipeError,
            "RuntimeError": RuntimeError}[name]("scripted failure")


def _paramiko_exc(name):
    import paramiko.ssh_exception as pe
    if name == "ChannelException":
        return pe.ChannelException(1, "Administratively prohibited")
    if name == "timeout":
        return _socket.timeout("timed out")
    return {"SSHException": pe.SSHException, "AuthenticationException": pe.AuthenticationException,
            "EOFError": EOFError}[name]("scripted failure")


# ------------------------------------------------------------------------------------------------
# stub library objects (they record; they never release anything by themselves)
# ------------------------------------------------------------------------------------------------
class World:
    """everything the stub library handed to the transport, in order of acquisition"""

    def __init__(self, platform):
        self.platform = platform
        self.objects = []          # every connection / socket / channel ever made
        self.fail = None           # {"step":..., "exc":...} for the next open()
        self.calls = []            # (object label, method) release calls, for the replay print-out

    def new(self, obj):
        obj.label = "%s#%d" % (type(obj).__name__, len(self.objects))
        self.objects.append(obj)
        return obj

    def device(self):
        dev = L.SimDevice(self.platform if self.platform != "generic" else "cisco_iosxe", outputs={"show version": b"v1\nline2"})
        dev.start()
        return dev

    def unreleased(self):
        return [o.label for o in self.objects if not o.released()]


class _Key:
    def __init__(self, b64):
        self.b64 = b64

    def export_public_key(self, *a, **kw):                   # asyncssh
        return b"ssh-ed25519 " + self.b64.encode() + b" stub\n"

    def get_base64(self):                                    # paramiko
        return self.b64


# -- asyncssh ----------------------------------------------------------------------------------
class _ATransport:
    def __init__(self, conn):
        self.conn = conn

    def is_closing(self):
        return self.conn.closed


class StubConn:
    """what asyncssh.connect returns: authenticated connection"""

    def __init__(self, world, fail):
        self.world, self.fail = world, fail or {}
        self.closed = False
        self.channels = []
        self._auth_complete = True
        self._transport = _ATransport(self)

    def released(self):
        return self.closed

    def get_server_host_key(self):
        if self.fail.get("step") == "hostkey":
            return None if self.fail["exc"] == "none" else _Key(KEY_B)
        return _Key(KEY_A)

    async def open_session(self, *a, **kw):
        if self.closed:
            raise _asyncssh_exc("ChannelOpenError")
        step = self.fail.get("step")
        if step == "open_session":
            raise _asyncssh_exc(self.fail["exc"])
        ch = self.world.new(StubAChan(self))
        self.channels.append(ch)
        if step in ("pty", "shell"):
            ch.closed = True          # asyncssh closes a channel whose pty / shell request was refused by itself
            raise _asyncssh_exc(self.fail["exc"])
        return _AWriter(ch), _AReader(ch), _AReader(ch)

    def close(self):
        self.world.calls.append((self.label, "close"))
        self.closed = True

    def abort(self):
        self.world.calls.append((self.label, "abort"))
        self.closed = True

    async def wait_closed(self):
        self.world.calls.append((self.label, "wait_closed"))


class StubAChan:
    def __init__(self, conn):
        self.conn = conn
        self.closed = False
        self.dev = conn.world.device()
        self.delivered = 0

    def released(self):
        return self.closed or self.conn.closed


class _AReader:
    def __init__(self, ch):
        self.ch = ch

    def at_eof(self):
        ch = self.ch
        return ch.dev.closed and ch.delivered >= len(ch.dev.out)

    async def read(self, n):
        ch = self.ch
        if ch.released():
            import asyncssh
            raise asyncssh.ConnectionLost("Connection lost")
        if ch.delivered >= len(ch.dev.out):
            if ch.dev.closed:
                return b""
            raise L.Starved()
        b = bytes(ch.dev.out[ch.delivered:ch.delivered + n])
        ch.delivered += len(b)
        return b


class _AWriter:
    def __init__(self, ch):
        self.ch = ch

    def write(self, b):
        if self.ch.released():
            raise BrokenPipeError("channel closed")
        self.ch.dev.feed(bytes(b))

    def close(self):
        self.ch.conn.world.calls.append((self.ch.label, "close"))
        self.ch.closed = True


def _stub_connect(world):
    async def connect(**kw):
        fail, world.fail = world.fail, None
        if fail and fail["step"] in ("connect", "auth"):
            raise _asyncssh_exc(fail["exc"])      # asyncssh.connect cleans up after itself: nothing is handed out
        return world.new(StubConn(world, fail))
    return connect


# -- paramiko ----------------------------------------------------------------------------------
class StubSock:
    def __init__(self):
        self.closed = False
        self.used = False

    def released(self):
        return self.closed


def _stub_socket_class(world):
    class StubSocket:
        """stands in for scrapli.transport.base.base_socket.Socket"""

        def __init__(self, host, port, timeout):
            self.host, self.port, self.timeout = host, port, timeout
            self.sock = None

        def open(self):
            if world.fail and world.fail["step"] == "socket":
                world.fail = None
                from scrapli.exceptions import ScrapliConnectionNotOpened
                raise ScrapliConnectionNotOpened("connection refused (scripted)")
            if not self.isalive():
                self.sock = world.new(StubSock())

        def isalive(self):
            return self.sock is not None and not self.sock.closed

        def __bool__(self):
            return self.isalive()

        def close(self):
            if self.sock is not None and not self.sock.closed:
                world.calls.append((self.sock.label, "close"))
                self.sock.closed = True
    return StubSocket


class StubPChan:
    def __init__(self, tr):
        self.tr = tr
        self.closed = False
        self.eof_received = False
        self.dev = tr.world.device()
        self.delivered = 0

    def released(self):
        return self.closed or self.tr.gone()

    def settimeout(self, v):
        pass

    def _step(self, name):
        f = self.tr.fail
        if f.get("step") == name:
            self.tr._maybe_end(name)
            raise _paramiko_exc(f["exc"])

    def get_pty(self, *a, **kw):
        self._step("get_pty")

    def invoke_shell(self):
        self._step("invoke_shell")

    def recv(self, n):
        if self.released():
            return b""
        if self.delivered >= len(self.dev.out):
            if self.dev.closed:
                self.eof_received = True
                return b""
            raise L.Starved()
        b = bytes(self.dev.out[self.delivered:self.delivered + n])
        self.delivered += len(b)
        return b

    def send(self, b):
        if self.released():
            raise OSError("Socket is closed")
        self.dev.feed(bytes(b))
        return len(b)

    def close(self):
        self.tr.world.calls.append((self.label, "close"))
        self.closed = True


def _stub_ptransport_class(world):
    class StubPTransport:
        """stands in for paramiko.Transport: lives exactly as long as its socket"""

        def __init__(self, sock):
            self.world = world
            self.sock = sock
            self.fail, world.fail = (world.fail or {}), None
            self.closed = False
            self.authed = False
            self.started = False
            self.disabled_algorithms = {}

        def gone(self):
            return self.closed or self.sock is None or self.sock.closed

        def _step(self, name):
            if self.fail.get("step") == name:
                self._maybe_end(name)
                raise _paramiko_exc(self.fail["exc"])

        def _maybe_end(self, name):
            # a failed handshake / a session that went away ends paramiko's transport thread, which closes the socket it
            # was given; a request the device merely REFUSED leaves the session (and the socket) up
            if name == "start_client" or self.fail["exc"] in SESSION_ENDS:
                world.calls.append((self.sock.label, "closed by the library: ssh session ended"))
                self.sock.closed = True

        def start_client(self, *a, **kw):
            import paramiko.ssh_exception as pe
            if self.sock is None or self.sock.closed or self.sock.used:
                # a socket another ssh session already spoke on: no banner is coming
                raise pe.SSHException("Error reading SSH protocol banner")
            self.sock.used = True
            self._step("start_client")
            self.started = True

        def get_remote_server_key(self):
            return _Key(KEY_B if self.fail.get("step") == "hostkey" and self.fail["exc"] == "mismatch" else KEY_A)

        def auth_password(self, username, password, *a, **kw):
            if self.fail.get("step") == "auth":
                if self.fail["exc"] == "silent":
                    return []
                self._maybe_end("auth")
                raise _paramiko_exc(self.fail["exc"])
            self.authed = True
            return []

        def auth_publickey(self, username, key, *a, **kw):
            return self.auth_password(username, None)

        def is_authenticated(self):
            return self.authed and not self.gone()

        def is_alive(self):
            return self.started and not self.gone()

        def open_session(self, *a, **kw):
            import paramiko.ssh_exception as pe
            if self.gone():
                raise pe.SSHException("SSH session not active")
            self._step("open_session")
            return world.new(StubPChan(self))

        def close(self):
            world.calls.append(("PTransport(%s)" % self.sock.label, "close"))
            self.closed = True
            self.sock.closed = True          # paramiko.Transport.close() closes the socket it was given
    return StubPTransport


# ------------------------------------------------------------------------------------------------
# running a history on the stubs
# ------------------------------------------------------------------------------------------------
def _driver(lib, platform, port, strict, known_hosts, timeouts=0):
    if platform == "generic":
        from scrapli.driver.generic import AsyncGenericDriver, GenericDriver
        cls = AsyncGenericDriver if lib == "asyncssh" else GenericDriver
    else:
        from scrapli.driver.core import AsyncIOSXEDriver, IOSXEDriver
        cls = AsyncIOSXEDriver if lib == "asyncssh" else IOSXEDriver
    return cls(host="127.0.0.1", port=port, auth_username="scrapli", auth_password="scrapli", auth_strict_key=bool(strict),
               ssh_known_hosts_file=known_hosts if strict else "", ssh_config_file="", transport=lib,
               timeout_socket=5, timeout_transport=timeouts, timeout_ops=timeouts)


def _known_hosts(tmpdir, key_b64=KEY_A, name="stub", host="127.0.0.1"):
    p = os.path.join(tmpdir, "known_hosts_%s" % name)
    with open(p, "w") as f:
        f.write("%s ssh-ed25519 %s\n" % (host, key_b64))
    return p


def _handles(t):
    """handle attributes of the transport that still refer to something (a paramiko transport keeps its Socket wrapper
    object for re-use: what counts there is whether the wrapped socket is open)"""
    held = [a for a in ("session", "stdin", "stdout", "session_channel") if getattr(t, a, None) is not None]
    s = getattr(t, "socket", None)
    if s is not None:
        try:
            alive = bool(s.isalive())
        except Exception:  # noqa
            alive = True
        if alive:
            held.append("socket")
    return held


class _Run:
    """one history; ops: {"op": "open"|"with"|"operate"|"close", "fail": {"step","exc"}?, "body_exc": name?}"""

    def __init__(self, sc, d):
        self.sc, self.d = sc, d
        self.is_async = sc["lib"] == "asyncssh"
        self.loop = asyncio.new_event_loop() if self.is_async else None

    def call(self, fn, *a):
        if self.is_async:
            return self.loop.run_until_complete(fn(*a))
        return fn(*a)

    def do(self, op):
        d = self.d
        if op["op"] == "open":
            self.call(d.open)
        elif op["op"] == "close":
            self.call(d.close)
        elif op["op"] == "operate":
            self.call(d.send_command, "show version")
        elif op["op"] == "with":
            n, body_exc = op.get("body_ops", 1), op.get("body_exc")
            if self.is_async:
                async def go():
                    async with d as conn:
                        for _ in range(n):
                            await conn.send_command("show version")
                        if body_exc:
                            raise L.exc_by_name(body_exc)("body failure")
                self.loop.run_until_complete(go())
            else:
                with d as conn:
                    for _ in range(n):
                        conn.send_command("show version")
                    if body_exc:
                        raise L.exc_by_name(body_exc)("body failure")
        else:
            raise ValueError(op["op"])

    def finish(self):
        if self.loop is not None:
            self.loop.run_until_complete(asyncio.sleep(0))
            self.loop.close()


def _result(fn):
    import scrapli.exceptions as se
    try:
        fn()
    except Exception as e:  # noqa  (Starved is a BaseException: a harness failure, propagates)
        return type(e).__name__, isinstance(e, se.ScrapliException)
    return "ok", None


def run_stub(sc, tmpdir):
    lib = sc["lib"]
    world = World(sc["platform"])
    kh = _known_hosts(tmpdir)
    if lib == "asyncssh":
        import scrapli.transport.plugins.asyncssh.transport as m
        saved = {"connect": m.connect}
        m.connect = _stub_connect(world)
    else:
        import scrapli.transport.plugins.paramiko.transport as m
        saved = {"Socket": m.Socket, "_ParamikoTransport": m._ParamikoTransport}
        m.Socket = _stub_socket_class(world)
        m._ParamikoTransport = _stub_ptransport_class(world)
    obs = []
    try:
        d = _driver(lib, sc["platform"], 22, sc.get("strict"), kh)
        kh_other = _known_hosts(tmpdir, name="other", host="192.0.2.1")
        run = _Run(sc, d)
        th0 = L.threads()
        for op in sc["ops"]:
            if sc.get("strict"):      # "unknown": the host is not in the known hosts file during that open()
                d.transport.plugin_transport_args.ssh_known_hosts_file = kh_other if (op.get("fail") or {}).get("exc") == "unknown" else kh
            world.fail = dict(op["fail"]) if op.get("fail") else None
            n_calls = len(world.calls)
            res, scrapli_exc = _result(lambda: run.do(op))
            world.fail = None
            try:
                alive = bool(d.isalive())
            except Exception as e:  # noqa
                alive = "isalive raised %s" % type(e).__name__
            obs.append({"res": res, "scrapli_exc": scrapli_exc, "acquired": [o.label for o in world.objects],
                        "unreleased": world.unreleased(), "handles": _handles(d.transport), "isalive": alive,
                        "calls": [list(c) for c in world.calls[n_calls:]],
                        "threads": _threads(th0)})
        run.finish()
    finally:
        for k, v in saved.items():
            setattr(m, k, v)
    return obs


# ------------------------------------------------------------------------------------------------
# loopback servers
# ------------------------------------------------------------------------------------------------
MODES = ["ok", "auth_denied", "refuse_session", "refuse_pty", "refuse_shell", "drop_at_session", "hangup", "refused"]


def _mk_loopback():
    import asyncssh
    from . import c10_loopback as LB

    class _Session(asyncssh.SSHServerSession):
        def __init__(self, mode):
            self.mode = mode
            self.chan = None

        def connection_made(self, chan):
            self.chan = chan

        def pty_requested(self, *a):
            return self.mode != "refuse_pty"

        def shell_requested(self):
            return self.mode != "refuse_shell"

        def session_started(self):
            self.chan.write(b"r1#")

        def data_received(self, data, datatype):
            data = bytes(data)
            if b"exit" in data:
                self.chan.exit(0)
                return
            self.chan.write(data.replace(b"\n", b"\r\nr1#") if b"\n" in data else data)

        def eof_received(self):
            self.chan.exit(0)
            return False

    class _Srv(asyncssh.SSHServer):
        def __init__(self, st):
            self.st = st
            self.conn = None

        def connection_made(self, conn):
            self.conn = conn
            self.st.made += 1
            self.st.idle.clear()

        def connection_lost(self, exc):
            self.st.lost += 1
            if self.st.lost >= self.st.made:
                self.st.idle.set()

        def begin_auth(self, username):
            return True

        def password_auth_supported(self):
            return True

        def validate_password(self, username, password):
            return self.st.mode != "auth_denied"

        def session_requested(self):
            if self.st.mode == "refuse_session":
                return False
            if self.st.mode == "drop_at_session":
                self.conn.abort()
                return False
            return _Session(self.st.mode)

    class State:
        def __init__(self, mode):
            self.mode, self.made, self.lost = mode, 0, 0
            self.idle = None
            self.port = None

        async def wait_idle(self, timeout):
            try:
                await asyncio.wait_for(self.idle.wait(), timeout)
                return True
            except asyncio.TimeoutError:
                return False

    class Loop(LB.Loopback):
        def __init__(self):
            LB.Loopback.__init__(self)
            self.key = LB.gen_key("ssh-ed25519")
            self.key_b64 = LB.pub_b64(self.key)
            self.states = {}

        def server(self, mode):
            if mode in self.states:
                return self.states[mode]
            st = State(mode)

            async def go():
                st.idle = asyncio.Event()
                st.idle.set()
                if mode == "hangup":
                    async def handle(r, w):
                        w.close()
                    return await asyncio.start_server(handle, "127.0.0.1", 0)
                return await asyncssh.listen("127.0.0.1", 0, server_factory=lambda: _Srv(st), server_host_keys=[self.key],
                                             encoding=None, signature_algs=["ssh-ed25519"])
            if mode == "refused":
                s = _socket.socket()
                s.bind(("127.0.0.1", 0))
                st.port = s.getsockname()[1]
                s.close()
                st.idle = None
            else:
                srv = self.call(go())
                st.port = srv.sockets[0].getsockname()[1]
                self.servers.append(srv)
            self.states[mode] = st
            return st

        def settle(self, client_loop, timeout=2.0):
            """wait (event-driven, no sleep) until every server has seen every connection it accepted go away;
            returns the number of connections the servers still hold"""
            held = 0
            for st in self.states.values():
                if st.idle is None:
                    continue
                fut = asyncio.run_coroutine_threadsafe(st.wait_idle(timeout), self.loop)
                if client_loop is not None:
                    client_loop.run_until_complete(asyncio.wrap_future(fut, loop=client_loop))
                else:
                    fut.result(timeout + 5)
                held += max(0, st.made - st.lost)
            return held

        def close(self):
            LB.Loopback.close(self)
            try:
                self.loop.close()
            except Exception:  # noqa
                pass

        def forget(self):
            for st in self.states.values():
                st.made = st.lost = 0
                if st.idle is not None:
                    self.loop.call_soon_threadsafe(st.idle.set)
    return Loop()


def _threads(before):
    """new threads; the workers of an event loop's default executor (asyncio_N) belong to the loop, not to a connection"""
    return [x for x in L.threads() if x not in before and not x.startswith("asyncio_")]


def client_sockets(ports):
    """inode -> fd of the sockets of THIS process that are connected to one of the servers' ports (client side)"""
    inodes = set()
    for fn in ("/proc/net/tcp", "/proc/net/tcp6"):
        try:
            with open(fn) as f:
                lines = f.read().splitlines()[1:]
        except OSError:
            continue
        for ln in lines:
            p = ln.split()
            if int(p[2].rsplit(":", 1)[1], 16) in ports and p[9] != "0":
                inodes.add(p[9])
    out = []
    for fd, target in L.fd_snapshot().items():
        if target.startswith("socket:[") and target[8:-1] in inodes:
            out.append(fd)
    return sorted(out)


def run_loopback(sc, tmpdir, lb):
    """ops carry "server": mode instead of "fail" """
    lib = sc["lib"]
    gc.collect()
    lb.forget()
    for op in sc["ops"]:
        if op["op"] in ("open", "with"):
            lb.server(op.get("server", "ok"))
    ports = {st.port for st in lb.states.values()}
    th0 = L.threads()
    kh = _known_hosts(tmpdir, lb.key_b64, name="loop")
    first = next(op.get("server", "ok") for op in sc["ops"] if op["op"] in ("open", "with"))
    d = _driver(lib, "generic", lb.states[first].port, sc.get("strict"), kh, timeouts=5)
    run = _Run(sc, d)
    obs = []
    leaked = False
    try:
        for op in sc["ops"]:
            if op["op"] in ("open", "with"):
                port = lb.states[op.get("server", "ok")].port
                d.port = d._base_transport_args.port = port
            res, scrapli_exc = _result(lambda: run.do(op))
            o = {"res": res, "scrapli_exc": scrapli_exc}
            if op["op"] in ("close", "with"):
                # release point: give the event loops / the paramiko thread what they need to finish (event-driven waits,
                # bounded; a leak that was already seen in this history is not waited for again)
                o["server_still_holds"] = lb.settle(run.loop, 0.2 if leaked else 2.0)
                for t in threading.enumerate():
                    if t.name not in th0 and not t.name.startswith("asyncio_") and t is not threading.main_thread():
                        t.join(0.2 if leaked else 2.0)
                leaked = leaked or bool(o["server_still_holds"])
            else:
                o["server_still_holds"] = None
            try:
                alive = bool(d.isalive())
            except Exception as e:  # noqa
                alive = "isalive raised %s" % type(e).__name__
            o.update({"client_sockets": len(client_sockets(ports)), "handles": _handles(d.transport), "isalive": alive,
                      "threads": _threads(th0)})
            obs.append(o)
    finally:
        # do not let leftovers reach the next history: close what the transport still refers to, and library connections
        # that nothing refers to any more (found through the garbage collector: closing their bare fds would let a later
        # finalizer close an unrelated descriptor)
        t = d.transport
        try:
            if getattr(t, "session", None) is not None:
                t.session.close()
        except Exception:  # noqa
            pass
        s = getattr(getattr(t, "socket", None), "sock", None)
        try:
            if s is not None:
                s.close()
        except Exception:  # noqa
            pass
        if client_sockets(ports):
            import asyncssh
            import paramiko
            for obj in gc.get_objects():
                try:
                    if isinstance(obj, asyncssh.SSHClientConnection):
                        obj.abort()
                    elif isinstance(obj, paramiko.Transport):
                        obj.close()
                except Exception:  # noqa
                    pass
        try:
            lb.settle(run.loop, 0.5)
        except Exception:  # noqa
            pass
        run.finish()
        for th in threading.enumerate():
            if th.name not in th0 and not th.name.startswith("asyncio_") and th is not threading.main_thread():
                th.join(1.0)
    return obs


# ------------------------------------------------------------------------------------------------
# oracle
# ------------------------------------------------------------------------------------------------
def _healthy(op):
    return not op.get("fail") and op.get("server", "ok") == "ok"


def oracle(sc, obs):
    """[(op index, class, what)]"""
    bad = []
    released = True
    for i, (op, o) in enumerate(zip(sc["ops"], obs)):
        held = []
        if o.get("unreleased"):
            held.append("library objects handed to open() never closed: %s" % o["unreleased"])
        if o.get("server_still_holds"):
            held.append("the device still holds %d ssh connection(s)" % o["server_still_holds"])
        if o.get("client_sockets"):
            held.append("%d socket(s) to the device open" % o["client_sockets"])
        if o["threads"]:
            held.append("threads left %s" % o["threads"])
        if o["handles"]:
            held.append("transport still holds %s" % o["handles"])
        if o["isalive"]:
            held.append("isalive() %s" % o["isalive"])
        if op["op"] in ("close", "with"):
            if held:
                bad.append((i, "release", "after %s (%s): %s" % (op["op"], o["res"], "; ".join(held))))
            if op["op"] == "close" and released and o["res"] != "ok" and not o["scrapli_exc"]:
                bad.append((i, "repeat", "close() of a closed connection raised %s (not a scrapli exception)" % o["res"]))
        if op["op"] in ("open", "with") and released and _healthy(op):
            want = (op.get("body_exc") or "ok") if op["op"] == "with" else "ok"
            if o["res"] != want:
                bad.append((i, "reopen", "%s on a released connection with a healthy device: %s" % (op["op"], o["res"])))
        if op["op"] in ("open", "with") and not _healthy(op) and o["res"] == "ok":
            bad.append((i, "harness", "the scripted failure did not happen"))
        if op["op"] in ("close", "with"):
            released = not held
        elif op["op"] == "open":
            released = False
    return bad


def signature(sc, i, klass):
    """the listed finding's region: paramiko, a release point or re-open after an open() that failed between the socket
    connect and the channel (close() only releases the socket when it has a channel)"""
    if sc["lib"] == "paramiko" and klass in ("release", "reopen"):
        if any(in_paramiko_region(prev) for prev in sc["ops"][:i + 1]):
            return SIG_PARAMIKO
    return "c11-ssh-open-%s" % klass


# ------------------------------------------------------------------------------------------------
# generators
# ------------------------------------------------------------------------------------------------
def _shapes(rng, fail_key, fail_val, which=None):
    f = {fail_key: fail_val}
    shapes = {
        "with": [dict({"op": "with"}, **f), {"op": "with", "body_ops": 1, "body_exc": rng.choice([None, "ValueError"])}],
        "plain": [dict({"op": "open"}, **f), {"op": "close"}, {"op": "close"}, {"op": "open"}, {"op": "operate"}, {"op": "close"}],
        "after": [{"op": "open"}, {"op": "operate"}, {"op": "close"}, dict({"op": "with"}, **f), {"op": "close"},
                  {"op": "with", "body_ops": 1}],
    }
    return [(k, v) for k, v in shapes.items() if which is None or k in which]


def stub_scenarios(rng, thorough):
    """every failure point x exception class of both open() methods; quick: every point with its first class + one drawn class and the
    with / plain shapes, thorough: every class x every shape x both platforms"""
    out = []
    for lib, table in (("asyncssh", ASYNCSSH_FAILS), ("paramiko", PARAMIKO_FAILS)):
        for step, excs in table.items():
            for exc in (excs if thorough else excs[:1] + rng.sample(excs[1:], max(0, min(1, len(excs) - 1)))):
                strict = step == "hostkey" or (rng.random() < 0.3 and exc not in ("KeyExchangeFailed", "HostKeyNotVerifiable", "ConnectionLost"))
                if step == "connect" and exc in ("KeyExchangeFailed", "HostKeyNotVerifiable"):
                    strict = rng.random() < 0.5
                for platform in (("cisco_iosxe", "generic") if thorough else (rng.choice(["cisco_iosxe", "cisco_iosxe", "generic"]),)):
                    for name, ops in _shapes(rng, "fail", {"step": step, "exc": exc}, None if thorough else ("with", "plain")):
                        out.append({"lib": lib, "world": "stub", "platform": platform, "strict": bool(strict), "shape": name, "ops": ops})
    return out


def loopback_scenarios(rng, thorough):
    """thorough: every server mode x shape, both libraries; quick: asyncssh — the session channel refused after authentication
    (with-block and plain) + 2 drawn modes, paramiko — 1 drawn mode, one drawn shape each"""
    pairs = []
    for lib in ("asyncssh", "paramiko"):
        for mode in MODES:
            if mode == "ok":
                continue
            pairs.append((lib, mode))
    if not thorough:
        a = [p for p in pairs if p[0] == "asyncssh" and p[1] != "refuse_session"]
        b = [p for p in pairs if p[0] == "paramiko"]
        pairs = [("asyncssh", "refuse_session")] + rng.sample(a, 2) + rng.sample(b, 1)
    out = []
    for lib, mode in pairs:
        names = ("with", "plain", "after") if thorough else (rng.choice(["with", "plain"]),)
        if not thorough and (lib, mode) == ("asyncssh", "refuse_session"):
            names = ("with", "plain")
        for name, ops in _shapes(rng, "server", mode, names):
            out.append({"lib": lib, "world": "loopback", "platform": "generic", "strict": rng.random() < 0.3, "shape": name, "ops": ops})
    return out


def classify(sc):
    for op in sc["ops"]:
        if op.get("fail"):
            return "%s %s/%s" % (sc["lib"], op["fail"]["step"], op["fail"]["exc"])
        if op.get("server", "ok") != "ok":
            return "%s server %s" % (sc["lib"], op["server"])
    return "%s healthy" % sc["lib"]
