"""C08 implementation side: the REAL scrapli transports / channels / drivers over scripted low-level
objects (fake socket under the real base_socket.Socket, fake StreamReader/Writer, fake pty session,
fake paramiko channel/session, fake asyncssh reader/writer/connection) that produce, call by call,
the events of a scenario -- and the real-runtime scenarios (pty child, loopback TCP, loopback SSH).

A scenario is a JSON-able dict (so that it can be shipped to a worker process and written to a replay
file); run_case(case) returns the canonical observation (exception class names, booleans, elapsed).

Library model of the fakes (what a dead peer looks like to each library; coq/model/ConnLoss.v has the
same reading, the loopback / pty scenarios confront it with the real OS and libraries):
  * an empty read (EOF) is sticky: every later low-level read is empty again, reader.at_eof() /
    channel.eof_received / the pty's EOF flag are set;
  * a connection-loss exception is sticky: the low-level read (write) raises it again, and the library's
    liveness probe (sock.send(b""), Transport.is_alive(), waitpid, _transport.is_closing()) says dead;
  * a timeout exception is neither."""
import asyncio
import socket
import threading
import time

from . import simdevice

PROMPT = "r1#"
HANG_AFTER = 4.0      # a read that nothing will ever end is reported as a hang after this long


class Hung(BaseException):
    """a low-level call that can never return was reached with no timeout armed (would hang forever)"""


# ------------------------------------------------------------------------------------------------
# exception classes by canonical name
# ------------------------------------------------------------------------------------------------
def exc_class(name):
    import paramiko.ssh_exception as pe
    import asyncssh.misc as am
    from scrapli.transport.plugins.system.ptyprocess import PtyProcessError
    table = {
        "Exception": Exception, "OSError": OSError, "ConnectionError": ConnectionError,
        "ConnectionResetError": ConnectionResetError, "BrokenPipeError": BrokenPipeError,
        "ConnectionRefusedError": ConnectionRefusedError, "ConnectionAbortedError": ConnectionAbortedError,
        "TimeoutError": TimeoutError, "gaierror": socket.gaierror, "EOFError": EOFError,
        "IncompleteReadError": asyncio.IncompleteReadError, "AttributeError": AttributeError,
        "PtyProcessError": PtyProcessError,
        "SSHException": pe.SSHException, "AuthenticationException": pe.AuthenticationException,
        "ChannelException": pe.ChannelException,
        "AsyncsshError": am.Error, "DisconnectError": am.DisconnectError, "ConnectionLost": am.ConnectionLost,
        "PermissionDenied": am.PermissionDenied, "HostKeyNotVerifiable": am.HostKeyNotVerifiable,
        "KeyExchangeFailed": am.KeyExchangeFailed, "ChannelOpenError": am.ChannelOpenError,
    }
    if name in ASYNCSSH_EXTRA:
        return getattr(am, name)
    return table[name]


# asyncssh's further exception classes for a session lost with a disconnect reason (asyncssh.misc; api docs
# "Exceptions"): subclasses of DisconnectError, one per SSH disconnect reason code, constructed from (reason)
ASYNCSSH_DISCONNECTS = ("ProtocolError", "MACError", "CompressionError", "ServiceNotAvailable", "ProtocolNotSupported")
ASYNCSSH_EXTRA = ASYNCSSH_DISCONNECTS


def make_exc(name):
    cls = exc_class(name)
    if name in ASYNCSSH_DISCONNECTS:
        return cls("scripted")
    if name == "IncompleteReadError":
        return cls(b"", 1)
    if name == "ChannelException":
        return cls(2, "Connect failed")
    if name in ("AsyncsshError", "DisconnectError"):
        return cls(11, "scripted")
    if name == "ChannelOpenError":
        return cls(1, "scripted")
    if name in ("ConnectionLost", "PermissionDenied", "HostKeyNotVerifiable", "KeyExchangeFailed"):
        return cls("scripted")
    if issubclass(cls, OSError) and name not in ("gaierror",):
        import errno
        code = {"ConnectionResetError": errno.ECONNRESET, "BrokenPipeError": errno.EPIPE,
                "ConnectionRefusedError": errno.ECONNREFUSED, "ConnectionAbortedError": errno.ECONNABORTED,
                "TimeoutError": errno.ETIMEDOUT}.get(name, errno.EBADF)
        return cls(code, "scripted " + name)
    return cls("scripted " + name)


def canon_exc(e):
    """(class name as the scenario names it, is a ScrapliException)"""
    from scrapli.exceptions import ScrapliException
    n = type(e).__name__
    if n == "timeout":
        n = "TimeoutError"
    if n == "Error" and type(e).__module__.startswith("asyncssh"):
        n = "AsyncsshError"
    return n, isinstance(e, ScrapliException)


TIMEOUT_NAMES = ("TimeoutError",)


# ------------------------------------------------------------------------------------------------
# the scripted environment
# ------------------------------------------------------------------------------------------------
class Env:
    """events of one scenario.  recvs: ["D",hex] | ["E"] | ["R",cls] | ["B"] ; exhausted: ["B"]
    sends: ["ok"] | ["R",cls] ; exhausted: ok.   probes: ["T"] | ["F"] | ["R",cls] ; exhausted: T.
    closes: ["ok"] | ["R",cls] ; exhausted: ok."""

    def __init__(self, case, wire=None):
        self.recvs = [list(x) for x in case.get("recvs", [])]
        self.sends = [list(x) for x in case.get("sends", [])]
        self.probes = [list(x) for x in case.get("probes", [])]
        self.closes = [list(x) for x in case.get("closes", [])]
        self.wire = wire             # a Wire (device-backed): recv/send events come from it instead
        self.pty = False
        self.hang_after = max(HANG_AFTER, (case.get("To") or 0) + 1.5, (case.get("Ti") or 0) + 1.5)
        self.pdead = False           # a liveness probe found the connection dead: it stays dead
        self.blocked = False         # a read with nothing to come was reached: the peer stays silent
        self.leof = False
        self.lerr = None
        self.werr = None
        self.closed = False          # the low-level object was closed by the transport
        self.wake = threading.Event()
        self.written = []
        self.log = []                # low-level calls in order (for debugging / replay output)
        self.awake = None            # asyncio future to release blocked async reads

    @property
    def dead(self):
        return self.lerr is not None or self.werr is not None or self.pdead

    # -- events ---------------------------------------------------------------------------------
    def recv_event(self):
        if self.leof:
            return ["E"]
        if self.lerr is not None:
            return ["R", self.lerr]
        if self.blocked:
            return ["B"]
        if self.wire is not None:
            ev = self.wire.recv_event()
        else:
            ev = self.recvs.pop(0) if self.recvs else ["B"]
        if ev[0] == "B" and self.wire is None:
            self.blocked = True
        if self.pty and ev[0] == "R" and ev[1] == "EOFError":
            ev = ["E"]           # ptyprocess: EIO / empty read -> EOFError + EOF flag: the same thing
        if ev[0] == "E":
            self.leof = True
        elif ev[0] == "R" and ev[1] not in TIMEOUT_NAMES:
            self.lerr = ev[1]
        self.log.append(("recv", ev[0], ev[1] if len(ev) > 1 and ev[0] == "R" else None))
        return ev

    def send_event(self, data):
        if self.werr is not None:
            return ["R", self.werr]
        if self.wire is not None:
            ev = self.wire.send_event(data)
        else:
            ev = self.sends.pop(0) if self.sends else ["ok"]
        if ev[0] == "R" and ev[1] not in TIMEOUT_NAMES:
            self.werr = ev[1]
        if ev[0] == "ok":
            self.written.append(bytes(data))
        self.log.append(("send", ev[0], len(data)))
        return ev

    def probe_event(self, dead_event):
        """liveness probe of the library; dead_event: what a dead connection answers"""
        if self.dead:
            return dead_event
        ev = self.probes.pop(0) if self.probes else ["T"]
        self.log.append(("probe", ev[0], None))
        if ev[0] != "T":
            self.pdead = True
            self.wake.set()          # a connection found dead does not keep a reader blocked
        return ev

    def close_event(self):
        ev = self.closes.pop(0) if self.closes else ["ok"]
        self.closed = True
        self.wake.set()
        if self.awake is not None and not self.awake.done():
            try:
                self.awake.get_loop().call_soon_threadsafe(lambda: self.awake.done() or self.awake.set_result(None))
            except RuntimeError:
                pass
        return ev

    # -- blocking -------------------------------------------------------------------------------
    def block_sync(self):
        """a read with nothing to come: returns when the transport closes the low-level object (what
        scrapli's timeout does); never otherwise (bounded by the harness watchdog)"""
        self.log.append(("block", None, None))
        if not self.closed:
            self.wake.clear()        # only what happens from now on (close, a probe finding it dead) ends the wait
        if not self.wake.wait(self.hang_after):
            raise Hung()

    async def block_async(self):
        self.log.append(("block", None, None))
        self.awake = asyncio.get_running_loop().create_future()
        try:
            await asyncio.wait_for(asyncio.shield(self.awake), self.hang_after)
        except asyncio.TimeoutError:
            raise Hung()


# ------------------------------------------------------------------------------------------------
# fakes
# ------------------------------------------------------------------------------------------------
class FakeSock(socket.socket):
    """under the REAL scrapli.transport.base.base_socket.Socket (which insists on a socket.socket)"""

    def __new__(cls, env):
        return socket.socket.__new__(cls)

    def __init__(self, env):   # no real descriptor is created
        self.env = env
        self.shut = False
        self.shutdown_events = True

    def recv(self, n):
        ev = self.env.recv_event()
        if ev[0] == "B":
            self.env.block_sync()
            return b""           # the socket was shut down underneath the blocked recv
        if ev[0] == "D":
            return bytes.fromhex(ev[1])
        if ev[0] == "E":
            return b""
        raise make_exc(ev[1])

    def send(self, b):
        if len(b) == 0:
            if self.shut:
                raise OSError(9, "Bad file descriptor")
            ev = self.env.probe_event(["R", "BrokenPipeError"])
            if ev[0] == "R":
                raise make_exc(ev[1])
            if ev[0] == "F":
                raise make_exc("BrokenPipeError")
            return 0
        ev = self.env.send_event(b)
        if ev[0] == "R":
            raise make_exc(ev[1])
        return len(b)

    def settimeout(self, t):
        pass

    def shutdown(self, how):
        if not self.shutdown_events:      # paramiko: the scenario's close events describe Channel.close()
            return
        ev = self.env.close_event()
        if ev[0] == "R":
            raise make_exc(ev[1])

    def close(self):
        self.shut = True
        self.env.closed = True
        self.env.wake.set()

    def detach(self):
        return -1

    def fileno(self):
        return -1

    def __del__(self):
        pass

    def __repr__(self):
        return "<FakeSock>"


class FakeReader:
    """asyncio.StreamReader (asynctelnet) / asyncssh SSHReader (asyncssh)"""

    def __init__(self, env):
        self.env = env

    async def read(self, n):
        ev = self.env.recv_event()
        if ev[0] == "B":
            await self.env.block_async()
            return b""
        if ev[0] == "D":
            return bytes.fromhex(ev[1])
        if ev[0] == "E":
            return b""
        raise make_exc(ev[1])

    def at_eof(self):
        return self.env.leof


class FakeWriter:
    def __init__(self, env, closes=False):
        self.env = env
        self.closes = closes
        self.nclose = 0

    def write(self, b):
        ev = self.env.send_event(b)
        if ev[0] == "R":
            raise make_exc(ev[1])

    def close(self):
        self.nclose += 1
        if self.closes and self.nclose == 1:
            ev = self.env.close_event()
            if ev[0] == "R":
                raise make_exc(ev[1])
        self.env.closed = True


class FakePty:
    """the PtyProcess interface the system transport uses; EOF handling as ptyprocess.read does it
    (EIO / empty read -> EOFError and the EOF flag)"""

    def __init__(self, env):
        self.env = env
        self.flag_eof = False

    def read(self, n):
        ev = self.env.recv_event()
        if ev[0] == "B":
            self.env.block_sync()
            self.flag_eof = True
            raise EOFError("scripted: pty closed")
        if ev[0] == "D":
            return bytes.fromhex(ev[1])
        if ev[0] == "E" or (ev[0] == "R" and ev[1] == "EOFError"):
            self.flag_eof = True
            raise EOFError("End Of File (EOF). scripted")
        raise make_exc(ev[1])

    def write(self, b):
        ev = self.env.send_event(b)
        if ev[0] == "R":
            raise make_exc(ev[1])
        return len(b)

    def eof(self):
        return self.flag_eof

    def isalive(self):
        ev = self.env.probe_event(["F"])
        if ev[0] == "R":
            raise make_exc(ev[1])
        return ev[0] == "T"

    def close(self):
        ev = self.env.close_event()
        if ev[0] == "R":
            raise make_exc(ev[1])


class FakeParamikoChannel:
    def __init__(self, env):
        self.env = env
        self.closed = False
        self.eof_received = 0

    def recv(self, n):
        ev = self.env.recv_event()
        if ev[0] == "B":
            raise make_exc("TimeoutError")     # Channel.settimeout(timeout_transport) elapsed
        if ev[0] == "D":
            return bytes.fromhex(ev[1])
        if ev[0] == "E":
            self.eof_received = True
            return b""
        raise make_exc(ev[1])

    def send(self, b):
        ev = self.env.send_event(b)
        if ev[0] == "R":
            if ev[1] not in TIMEOUT_NAMES:
                self.closed = True            # paramiko: send raises iff the channel is closed / eof sent
            raise make_exc(ev[1])
        return len(b)

    def settimeout(self, t):
        pass

    def close(self):
        ev = self.env.close_event()
        self.closed = True
        if ev[0] == "R":
            raise make_exc(ev[1])


class FakeParamikoSession:
    def __init__(self, env):
        self.env = env

    def is_alive(self):
        ev = self.env.probe_event(["F"])
        if ev[0] == "R":
            raise make_exc(ev[1])
        return ev[0] == "T"

    def close(self):        # paramiko.Transport.close(): stops its thread and closes the socket; does not raise
        pass


class _FakeAioTransport:
    def __init__(self, env):
        self.env = env

    def is_closing(self):
        ev = self.env.probe_event(["F"])
        if ev[0] == "R":
            raise make_exc(ev[1])
        return ev[0] != "T"


class FakeAsyncsshConn:
    def __init__(self, env):
        self.env = env
        self._auth_complete = True
        self._transport = _FakeAioTransport(env)

    def close(self):
        ev = self.env.close_event()
        if ev[0] == "R":
            raise make_exc(ev[1])


# ------------------------------------------------------------------------------------------------
# real transports over the fakes
# ------------------------------------------------------------------------------------------------
SYNC_TR = ("telnet", "system", "paramiko")
ASYNC_TR = ("asynctelnet", "asyncssh")
ALL_TR = SYNC_TR + ASYNC_TR


def stack_of(tr):
    return "sync" if tr in SYNC_TR or tr == "sim" else "async"


def bta(Ti):
    from scrapli.transport.base.base_transport import BaseTransportArgs
    return BaseTransportArgs(transport_options={}, host="h", port=23, timeout_socket=5, timeout_transport=Ti)


def new_transport(tr, Ti=0.0, args=None):
    args = args or bta(Ti)
    if tr == "telnet":
        from scrapli.transport.plugins.telnet.transport import PluginTransportArgs, TelnetTransport
        return TelnetTransport(args, PluginTransportArgs())
    if tr == "asynctelnet":
        from scrapli.transport.plugins.asynctelnet.transport import AsynctelnetTransport, PluginTransportArgs
        return AsynctelnetTransport(args, PluginTransportArgs())
    if tr == "system":
        from scrapli.transport.plugins.system.transport import PluginTransportArgs, SystemTransport
        return SystemTransport(args, PluginTransportArgs(auth_username="u"))
    if tr == "paramiko":
        from scrapli.transport.plugins.paramiko.transport import ParamikoTransport, PluginTransportArgs
        return ParamikoTransport(args, PluginTransportArgs(auth_username="u"))
    if tr == "asyncssh":
        from scrapli.transport.plugins.asyncssh.transport import AsyncsshTransport, PluginTransportArgs
        return AsyncsshTransport(args, PluginTransportArgs(auth_username="u"))
    raise ValueError(tr)


def attach(t, tr, env):
    """put the transport in the state open() leaves it in, over the fakes"""
    if tr in ("telnet", "paramiko"):
        from scrapli.transport.base.base_socket import Socket
        s = Socket(host="h", port=23, timeout=5)
        s.sock = FakeSock(env)
        t.socket = s
        if tr == "paramiko":
            s.sock.shutdown_events = False
            t.session = FakeParamikoSession(env)
            t.session_channel = FakeParamikoChannel(env)
    elif tr == "asynctelnet":
        t.stdout = FakeReader(env)
        t.stdin = FakeWriter(env)
    elif tr == "system":
        env.pty = True
        t.session = FakePty(env)
    elif tr == "asyncssh":
        t.stdout = FakeReader(env)
        t.stdin = FakeWriter(env)
        t.session = FakeAsyncsshConn(env)
    else:
        raise ValueError(tr)


class Loop:
    """uniform caller for sync / asyncio code"""

    def __init__(self, stack):
        self.loop = asyncio.new_event_loop() if stack == "async" else None

    def call(self, fn, *a, **kw):
        r = fn(*a, **kw)
        if asyncio.iscoroutine(r):
            return self.loop.run_until_complete(r)
        return r

    def close(self):
        if self.loop is not None:
            try:
                self.loop.run_until_complete(asyncio.sleep(0))
            finally:
                self.loop.close()
                self.loop = None


def observe(loop, fn, *a, **kw):
    """-> ["ret", value] | ["exc", class name, is_scrapli] , elapsed"""
    t0 = time.monotonic()
    try:
        r = loop.call(fn, *a, **kw)
        out = ["ret", r]
    except Hung:
        out = ["hang"]
    except simdevice.Starved:
        out = ["starved"]
    except Exception as e:  # noqa
        n, s = canon_exc(e)
        out = ["exc", n, s]
    return out, time.monotonic() - t0


def _restore_globals(saved):
    import signal
    from scrapli.settings import Settings
    Settings.NO_TERMINATE_ON_TIMEOUT = saved["noterm"]
    signal.signal(signal.SIGALRM, saved["alrm"])
    signal.setitimer(signal.ITIMER_REAL, 0)


def _save_globals():
    import signal
    from scrapli.settings import Settings
    return {"noterm": Settings.NO_TERMINATE_ON_TIMEOUT, "alrm": signal.getsignal(signal.SIGALRM)}


# ------------------------------------------------------------------------------------------------
# channel operations and bare transport calls over the real transports
# ------------------------------------------------------------------------------------------------
def new_channel(tr, t, To, prompt=PROMPT, lock=False):
    """lock: channel_lock=True -- every public channel operation runs under the channel's lock (an operation that a
    loss interrupts must give it back: the next one on the dead connection must not wait for it)"""
    from scrapli.channel.base_channel import BaseChannelArgs
    if stack_of(tr) == "sync":
        from scrapli.channel.sync_channel import Channel as C
    else:
        from scrapli.channel.async_channel import AsyncChannel as C
    return C(transport=t, base_channel_args=BaseChannelArgs(comms_prompt_pattern=prompt, timeout_ops=To,
                                                            channel_lock=bool(lock)))


def channel_op(ch, op):
    k = op["op"]
    if k == "get_prompt":
        return ch.get_prompt()
    if k == "send_input":
        return ch.send_input(op["input"])
    if k == "interact":
        return ch.send_inputs_interact([tuple(e) for e in op["events"]])
    if k == "login_telnet":
        return ch.channel_authenticate_telnet(op.get("user", "admin"), op.get("password", "pw"))
    if k == "login_ssh":
        return ch.channel_authenticate_ssh(op.get("password", "pw"), op.get("passphrase", "pp"))
    if k == "send_return":
        return ch.send_return()
    if k == "send_and_read":
        return ch.send_input_and_read(op["input"], expected_outputs=op.get("expect"), read_duration=op.get("dur", 0.8))
    raise ValueError(k)


def run_channel_case(case):
    tr = case["tr"]
    env = Env(case)
    t = new_transport(tr, case.get("Ti", 0.0))
    if case.get("init", "open") in ("open", "closed"):
        attach(t, tr, env)
    loop = Loop(stack_of(tr))
    saved = _save_globals()
    obs = []
    try:
        if case.get("init") == "closed":
            observe(loop, t.close)
        ch = new_channel(tr, t, case["To"], lock=case.get("lock"))
        for op in case["ops"]:
            if op["op"] == "isalive":
                o, el = observe(loop, t.isalive)
                o = ["bool", bool(o[1])] if o[0] == "ret" else o
            elif op["op"] == "close":
                o, el = observe(loop, t.close)
                o = ["ok"] if o[0] == "ret" else o
            elif op["op"] == "read":
                o, el = observe(loop, t.read)
                o = ["ok"] if o[0] == "ret" else o
            elif op["op"] == "write":
                o, el = observe(loop, t.write, b"x\n")
                o = ["ok"] if o[0] == "ret" else o
            else:
                o, el = observe(loop, channel_op, ch, op)
                o = ["ok"] if o[0] == "ret" else o
            lost, rlost = bool(env.leof or env.dead), bool(env.leof or env.lerr is not None)
            a, _ = observe(loop, t.isalive)
            alive = bool(a[1]) if a[0] == "ret" else a
            obs.append({"out": o, "elapsed": round(el, 3), "alive": alive, "lost": lost, "rlost": rlost,
                        "lost2": bool(env.leof or env.dead), "attached": _attached(t, tr)})
    finally:
        _restore_globals(saved)
        loop.close()
    res = {"ops": obs, "lowlevel": [list(x) for x in env.log[-40:]]}
    if case.get("neg"):
        res["replies"] = [w.hex() for w in env.written[:12]]
    return res


def _attached(t, tr):
    if tr in ("telnet",):
        return t.socket is not None
    if tr == "paramiko":
        return t.session_channel is not None
    if tr == "system":
        return t.session is not None
    return t.stdin is not None and t.stdout is not None


# ------------------------------------------------------------------------------------------------
# whole drivers over a device-backed wire
# ------------------------------------------------------------------------------------------------
class Wire:
    """low-level event source backed by a SimDevice: the device's (decorated) output stream is served in
    chunks; at byte offset `drop_byte` of that stream, or at data write number `drop_write` (1-based),
    the session drops in the manner `how` (["E"] | ["R",cls]); after the drop the write side answers
    `after_w` (["ok"] | ["R",cls])."""

    def __init__(self, device, chunk=("whole",), drop_byte=None, drop_write=None, how=("E",), after_w=("ok",)):
        self.device = device
        self.chunker = simdevice.Chunker(chunk)
        self.delivered = 0
        self.drop_byte, self.drop_write = drop_byte, drop_write
        self.how, self.after_w = list(how), list(after_w)
        self.dropped = False
        self.nwrites = 0

    def recv_event(self):
        if self.dropped:
            return list(self.how) if self.how[0] != "ok" else ["E"]
        pending = len(self.device.out) - self.delivered
        if self.drop_byte is not None:
            pending = min(pending, self.drop_byte - self.delivered)
            if pending <= 0:
                self.dropped = True
                return list(self.how)
        if self.device.closed and pending <= 0:
            self.dropped = True
            return ["E"]
        if pending <= 0:
            return ["B"]
        n = max(1, self.chunker.take(self.delivered, pending))
        b = bytes(self.device.out[self.delivered:self.delivered + n])
        self.delivered += n
        return ["D", b.hex()]

    def send_event(self, data):
        if self.dropped:
            return list(self.after_w)
        self.nwrites += 1
        if self.drop_write is not None and self.nwrites >= self.drop_write:
            self.dropped = True
            return list(self.how) if self.how[0] == "R" else ["R", "BrokenPipeError"]
        self.device.feed(bytes(data))
        return ["ok"]


def make_driver(case, env):
    """real driver of the requested platform; transport = the real class over the fakes, or the
    simulated transport of harness/simdevice.py (tr == "sim" / "asim")"""
    tr = case["tr"]
    stack = "sync" if tr in SYNC_TR or tr == "sim" else "async"
    kind = case.get("platform", "cisco_iosxe")
    cls = simdevice.driver_class(kind, stack)
    name = {"sim": "telnet", "asim": "asynctelnet"}.get(tr, tr)
    args = dict(host="sim", transport=name, auth_bypass=True, auth_username="admin", auth_password="pw",
                auth_strict_key=False, timeout_ops=case.get("To", 0.4), timeout_transport=case.get("Ti", 0.0),
                timeout_socket=5)
    if kind == "generic":
        args["comms_prompt_pattern"] = r"^\S{1,32}[#>$]\s?$"
    if case.get("secondary"):
        args["auth_secondary"] = case["secondary"]
    if case.get("priv"):
        args["default_desired_privilege_level"] = case["priv"]
    if case.get("lock"):
        args["channel_lock"] = True
    d = cls(**args)
    return d, stack


def run_driver_case(case):
    tr = case["tr"]
    dev = simdevice.SimDevice(platform=case.get("platform", "cisco_iosxe") if case.get("platform") != "generic" else "generic",
                              host=case.get("host", "r1"), login_mode=case.get("login_mode"),
                              outputs={k: v.encode() for k, v in case.get("outputs", {}).items()},
                              secret=case.get("secret"))
    drop = case.get("drop") or {}
    saved = _save_globals()
    obs = []
    if tr in ("sim", "asim"):
        d, stack = make_driver(case, None)
        fault = {}
        if drop.get("byte") is not None:
            fault["drop_at"] = drop["byte"]
        if drop.get("write") is not None:
            fault["write_exc_at"] = drop["write"]
        tcls = simdevice.ScriptedTransport if stack == "sync" else simdevice.AsyncScriptedTransport
        t = tcls(dev, tuple(case.get("chunk", ("whole",))), fault, base_transport_args=d._base_transport_args)
        d.transport = t
        d.channel.transport = t
        dev.start()
        env = None
        wire = None
        t.c08_dropped = False
        orig_exc = t._exc

        def _exc():
            t.c08_dropped = True
            return orig_exc()
        t._exc = _exc
    else:
        wire = Wire(dev, tuple(case.get("chunk", ("whole",))), drop.get("byte"), drop.get("write"),
                    drop.get("how", ["E"]), drop.get("after_w", ["ok"]))
        env = Env({"probes": case.get("probes", [])}, wire=wire)
        d, stack = make_driver(case, env)
        # open(): everything the real open() does except dialling out -- the low-level objects are the fakes
        t = d.transport
        orig_open = t.open

        if stack == "sync":
            def fake_open():
                t._pre_open_closing_log(closing=False)
                if tr == "telnet":
                    t._eof = False
                    t._raw_buf = t._cooked_buf = t._control_buf = b""
                    t._control_char_sent_counter = 0
                attach(t, tr, env)
                t._post_open_closing_log(closing=False)
        else:
            async def fake_open():
                t._pre_open_closing_log(closing=False)
                if tr == "asynctelnet":
                    t._eof = False
                    t._raw_buf = t._cooked_buf = t._control_buf = b""
                    t._control_char_sent_counter = 0
                attach(t, tr, env)
                t._post_open_closing_log(closing=False)
        t.open = fake_open
        dev.start()
    loop = Loop(stack)
    try:
        for op in case["ops"]:
            k = op["op"]
            if k == "open":
                o, el = observe(loop, d.open)
            elif k == "close":
                o, el = observe(loop, d.close)
            elif k == "send_command":
                o, el = observe(loop, d.send_command, op["cmd"])
            elif k == "send_commands":
                o, el = observe(loop, d.send_commands, op["cmds"])
            elif k == "send_configs":
                o, el = observe(loop, d.send_configs, op["cfgs"])
            elif k == "send_config":
                o, el = observe(loop, d.send_config, op["cfg"])
            elif k == "send_interactive":
                o, el = observe(loop, d.send_interactive, [tuple(e) for e in op["events"]])
            elif k == "get_prompt":
                o, el = observe(loop, d.get_prompt)
            elif k == "acquire_priv":
                o, el = observe(loop, d.acquire_priv, op["priv"])
            elif k == "send_and_read":
                o, el = observe(loop, d.send_and_read, op["cmd"], expected_outputs=op.get("expect"),
                                read_duration=op.get("dur", 0.2))
            elif k == "isalive":
                o, el = observe(loop, d.isalive)
                o = ["bool", bool(o[1])] if o[0] == "ret" else o
            else:
                raise ValueError(k)
            if o[0] == "ret":
                r = o[1]
                failed = getattr(r, "failed", None)
                o = ["ok", bool(failed)]
            a, _ = observe(loop, d.isalive)
            alive = bool(a[1]) if a[0] == "ret" else a
            obs.append({"op": k, "out": o, "elapsed": round(el, 3), "alive": alive,
                        "dropped": (wire.dropped if wire is not None else bool(t.c08_dropped)),
                        "delivered": (wire.delivered if wire is not None else t.delivered),
                        "nwrites": (wire.nwrites if wire is not None else t.nwrites),
                        "attached": (_attached(t, tr) if wire is not None else bool(t.opened))})
    finally:
        _restore_globals(saved)
        loop.close()
    dropped = (wire.dropped if wire is not None else None)
    return {"ops": obs, "dropped": dropped, "delivered": (wire.delivered if wire is not None else t.delivered),
            "stream_len": len(dev.out), "nwrites": (wire.nwrites if wire is not None else t.nwrites)}


# ------------------------------------------------------------------------------------------------
# Telnet option negotiation: the device's opening burst; Driver.open() with in-channel authentication over the fakes
# ------------------------------------------------------------------------------------------------
IAC, DONT, DO, WONT, WILL = 255, 254, 253, 252, 251
NEG_CMDS = {"do_sga": (DO, 3), "do": (DO, 24), "dont": (DONT, 1), "will": (WILL, 1), "wont": (WONT, 31), "will_sga": (WILL, 3),
            "do_naws": (DO, 31)}


def neg_burst(names):
    """IAC <cmd> <option> for every name: what a Telnet server opens the session with"""
    return b"".join(bytes((IAC,) + NEG_CMDS[n]) for n in names)


def run_dopen_case(case):
    """the real (Async)GenericDriver with in-channel Telnet authentication (auth_bypass False) over the scripted socket /
    stream pair: open() = transport.open() (the dial-out replaced by attaching the fakes) + channel_authenticate_telnet;
    the scenario's recvs start with the device's option burst, its sends say which reply (or later write) fails"""
    from scrapli.driver import AsyncGenericDriver, GenericDriver
    tr = case["tr"]
    stack = stack_of(tr)
    env = Env(case)
    saved = _save_globals()
    d = (GenericDriver if stack == "sync" else AsyncGenericDriver)(
        host="h", transport=tr, auth_bypass=False, auth_username="admin", auth_password="pw",
        timeout_ops=case.get("To", 0.4), timeout_transport=case.get("Ti", 0.0), timeout_socket=5, comms_prompt_pattern=r"^r1#$")
    t = d.transport

    def reset():
        t._pre_open_closing_log(closing=False)
        t._eof = False
        t._raw_buf = t._cooked_buf = t._control_buf = b""
        t._control_char_sent_counter = 0
        attach(t, tr, env)
        t._post_open_closing_log(closing=False)
    if stack == "sync":
        t.open = reset
    else:
        async def areset():
            reset()
        t.open = areset
    loop = Loop(stack)
    obs = []
    try:
        for op in case["ops"]:
            k = op["op"]
            if k == "open":
                o, el = observe(loop, d.open)
            elif k == "close":
                o, el = observe(loop, d.close)
            elif k == "get_prompt":
                o, el = observe(loop, d.get_prompt)
            elif k == "send_command":
                o, el = observe(loop, d.send_command, op.get("cmd", "show x"))
            else:
                raise ValueError(k)
            o = ["ok"] if o[0] == "ret" else o
            lost, rlost = bool(env.leof or env.dead), bool(env.leof or env.lerr is not None)
            a, _ = observe(loop, d.isalive)
            alive = bool(a[1]) if a[0] == "ret" else a
            obs.append({"op": k, "out": o, "elapsed": round(el, 3), "alive": alive, "lost": lost, "rlost": rlost,
                        "lost2": bool(env.leof or env.dead), "attached": _attached(t, tr)})
    finally:
        _restore_globals(saved)
        loop.close()
    return {"ops": obs, "replies": [w.hex() for w in env.written[:12]], "lowlevel": [list(x) for x in env.log[-40:]]}


# ------------------------------------------------------------------------------------------------
# open(): the library calls of each transport's open(), scripted
# ------------------------------------------------------------------------------------------------
def run_open_case(case):
    """case: {"tr":..., "steps": {name: ["ok"] | ["R",cls] | ["val", x]}}, patched library entry points:
       telnet/paramiko: socket.getaddrinfo / socket.socket(connect)
       paramiko: Transport.start_client / auth_password / is_authenticated / open_session / get_pty / invoke_shell
       asynctelnet: asyncio.open_connection ; asyncssh: connect / open_session"""
    import unittest.mock as mock
    tr = case["tr"]
    steps = case["steps"]
    env = Env(case)
    t = new_transport(tr, case.get("Ti", 0.3))
    t.plugin_transport_args.auth_strict_key = bool(case.get("strict", False))
    loop = Loop(stack_of(tr))
    saved = _save_globals()

    def step(name):
        ev = steps.get(name, ["ok"])
        if ev[0] == "R":
            raise make_exc(ev[1])
        return ev

    patches = []
    if tr in ("telnet", "paramiko"):
        import scrapli.transport.base.base_socket as bs

        class _S(FakeSock):
            def __new__(cls, *a, **kw):
                return socket.socket.__new__(cls)

            def __init__(self, *a, **kw):
                self.env = env

            def connect(self, addr):
                step("connect")

        _real = socket

        class _SockMod:
            socket = _S
            gaierror = _real.gaierror
            timeout = _real.timeout
            SOCK_STREAM = _real.SOCK_STREAM
            SHUT_RDWR = _real.SHUT_RDWR
            AddressFamily = _real.AddressFamily

            @staticmethod
            def getaddrinfo(h, p):
                step("getaddrinfo")
                return [(_real.AF_INET, _real.SOCK_STREAM, 6, "", ("127.0.0.1", p))]

        patches.append(mock.patch.object(bs, "socket", _SockMod))
    if tr == "paramiko":
        import scrapli.transport.plugins.paramiko.transport as pt
        chan = FakeParamikoChannel(env)

        class _Chan:
            closed = False
            eof_received = 0

            def settimeout(self, v):
                pass

            def get_pty(self):
                step("get_pty")

            def invoke_shell(self):
                step("invoke_shell")

            def recv(self, n):
                return chan.recv(n)

            def send(self, b):
                return chan.send(b)

            def close(self):
                pass

        class _PT:
            def __init__(self, sock):
                self.authed = False
                self.disabled_algorithms = {}

            def start_client(self):
                step("start_client")

            def auth_password(self, username, password):
                ev = step("auth_password")
                self.authed = ev[0] == "ok"

            def is_authenticated(self):
                return self.authed

            def open_session(self):
                step("open_session")
                return _Chan()

            def is_alive(self):
                return True

            def close(self):        # paramiko.Transport.close(): never raises
                pass

            def get_remote_server_key(self):
                raise AssertionError("not used (non strict)")

        patches.append(mock.patch.object(pt, "_ParamikoTransport", _PT))
    if tr == "asynctelnet":
        async def open_connection(host=None, port=None):
            step("open_connection")
            return FakeReader(env), FakeWriter(env)
        patches.append(mock.patch("asyncio.open_connection", open_connection))
    if tr == "asyncssh":
        import scrapli.transport.plugins.asyncssh.transport as at

        class _Conn(FakeAsyncsshConn):
            async def open_session(self, **kw):
                step("open_session")
                return FakeWriter(env), FakeReader(env), None

            def get_server_host_key(self):
                return None

        async def connect(**kw):
            step("connect")
            return _Conn(env)
        patches.append(mock.patch.object(at, "connect", connect))
        if case.get("strict"):
            patches.append(mock.patch.object(at.AsyncsshTransport, "_verify_key", lambda self: None))
            patches.append(mock.patch.object(at.AsyncsshTransport, "_verify_key_value", lambda self: None))
    if tr == "system":
        import scrapli.transport.plugins.system.transport as st

        class _Pty:
            @classmethod
            def spawn(cls, *a, **kw):
                step("spawn")
                return FakePty(env)
        patches.append(mock.patch.object(st, "PtyProcess", _Pty))
        t.open_cmd = ["ssh", "h"]
    try:
        for p in patches:
            p.start()
        o, el = observe(loop, t.open)
        o = ["ok"] if o[0] == "ret" else o
        a, _ = observe(loop, t.isalive)
        alive = bool(a[1]) if a[0] == "ret" else a
    finally:
        for p in reversed(patches):
            p.stop()
        _restore_globals(saved)
        loop.close()
    return {"out": o, "elapsed": round(el, 3), "alive": alive}


# ------------------------------------------------------------------------------------------------
# real runtime: pty child, loopback TCP (telnet / asynctelnet), loopback SSH (paramiko / asyncssh / system)
# ------------------------------------------------------------------------------------------------
SH_DEVICE = ("printf 'r1#'; while IFS= read -r l; do case \"$l\" in "
             "*dropmid*) printf 'partial outp'; %(end)s;; "
             "*dropnow*) %(end)s;; "
             "'') continue;; "
             "esac; printf 'out of %%s\\nr1#' \"$l\"; done")
SH_ENDS = {"exit": "exit 0", "kill": "kill -9 $$", "exit3": "exit 3"}


def run_pty_case(case):
    """real SystemTransport + real PtyProcess + real child process that ends its session mid-way"""
    from scrapli.driver import GenericDriver
    saved = _save_globals()
    import signal
    old_chld = signal.getsignal(signal.SIGCHLD)
    if case.get("sigchld_ignored"):
        signal.signal(signal.SIGCHLD, signal.SIG_IGN)
    d = GenericDriver(host="h", transport="system", auth_bypass=True, timeout_ops=case.get("To", 2.0),
                      timeout_transport=case.get("Ti", 2.0), comms_prompt_pattern=r"^r1#$")
    if case["end"] == "at_once":
        d.transport.open_cmd = ["/bin/sh", "-c", "exit 3"]
    else:
        d.transport.open_cmd = ["/bin/sh", "-c", SH_DEVICE % {"end": SH_ENDS[case["end"]]}]
    loop = Loop("sync")
    obs = []
    try:
        obs = _runtime_ops(loop, d, case["ops"])
    finally:
        try:
            d.transport.close()
        except Exception:  # noqa
            pass
        signal.signal(signal.SIGCHLD, old_chld)
        _restore_globals(saved)
        loop.close()
    return {"ops": obs}


def _runtime_ops(loop, d, ops):
    obs = []
    for op in ops:
        k = op["op"]
        if k == "open":
            o, el = observe(loop, d.open)
        elif k == "send_command":
            o, el = observe(loop, d.send_command, op["cmd"])
        elif k == "get_prompt":
            o, el = observe(loop, d.get_prompt)
        elif k == "write":
            o, el = observe(loop, d.transport.write, b"x\n")
        elif k == "close":
            o, el = observe(loop, d.close)
        else:
            raise ValueError(k)
        o = ["ok"] if o[0] == "ret" else o
        a, ael = observe(loop, d.isalive)
        alive = bool(a[1]) if a[0] == "ret" else a
        obs.append({"op": k, "out": o, "elapsed": round(el, 3), "alive": alive, "alive_elapsed": round(ael, 3)})
    return obs


class TcpDevice:
    """loopback TCP peer: prints r1#, answers lines, and on a line containing dropmid / dropnow ends the
    connection in the manner `end`: "fin" (close), "rst" (SO_LINGER 0 + close), "fin_keep" (shutdown
    of its write side only: the client sees EOF while its own writes still succeed)"""

    def __init__(self, end, burst=b"", after=b""):
        self.end = end
        self.burst, self.after = burst, after      # "neg_fin" / "neg_rst": sent on accept, then the device hangs up
        self.hungup = threading.Event()
        self.srv = socket.socket()
        self.srv.setsockopt(socket.SOL_SOCKET, socket.SO_REUSEADDR, 1)
        self.srv.bind(("127.0.0.1", 0))
        self.srv.listen(4)
        self.port = self.srv.getsockname()[1]
        self.stop = False
        self.conns = []
        self.thread = threading.Thread(target=self._serve, name="c08-tcp", daemon=True)
        self.thread.start()

    def _serve(self):
        import struct
        while not self.stop:
            try:
                c, _ = self.srv.accept()
            except OSError:
                return
            self.conns.append(c)
            try:
                if self.end == "at_once":
                    c.close()
                    continue
                if self.end == "rst_at_once":
                    c.setsockopt(socket.SOL_SOCKET, socket.SO_LINGER, struct.pack("ii", 1, 0))
                    c.close()
                    continue
                if self.end in ("neg_fin", "neg_rst"):
                    # the opening option burst (and what follows it), then gone before a single option is answered:
                    # the client's replies meet a closed connection (the first one draws the RST, the next ones EPIPE)
                    c.sendall(self.burst + self.after)
                    if self.end == "neg_rst":
                        c.setsockopt(socket.SOL_SOCKET, socket.SO_LINGER, struct.pack("ii", 1, 0))
                    c.close()
                    self.hungup.set()
                    continue
                c.sendall(b"r1#")
                buf = b""
                while True:
                    data = c.recv(4096)
                    if not data:
                        break
                    # echo like a device, drop telnet negotiation replies
                    data = bytes(x for x in data if x < 0xf0)
                    c.sendall(data.replace(b"\n", b"\r\n"))
                    buf += data
                    while b"\n" in buf:
                        line, buf = buf.split(b"\n", 1)
                        if b"dropmid" in line or b"dropnow" in line:
                            if b"dropmid" in line:
                                c.sendall(b"partial outp")
                            if self.end == "rst":
                                c.setsockopt(socket.SOL_SOCKET, socket.SO_LINGER, struct.pack("ii", 1, 0))
                                c.close()
                            elif self.end == "fin_keep":
                                c.shutdown(socket.SHUT_WR)
                                # keep reading (and discarding) what the client still writes
                                c.settimeout(3)
                                try:
                                    while c.recv(4096):
                                        pass
                                except OSError:
                                    pass
                                c.close()
                            else:
                                c.close()
                            raise StopIteration
                        if line.strip():      # an empty line (the driver's opening return) gets no answer
                            c.sendall(b"out of " + line + b"\r\nr1#")
            except (StopIteration, OSError):
                pass

    def shutdown(self):
        self.stop = True
        try:
            self.srv.close()
        except OSError:
            pass
        for c in self.conns:
            try:
                c.close()
            except OSError:
                pass
        self.thread.join(2)


class _SetupFailed(RuntimeError):
    pass


def run_tcp_case(case):
    """the scenario's SET-UP (the first connection of a `preopen` case, made before anything under test runs) can fail on a
    heavily loaded machine (connect / hang-up wait expiring): that says nothing about the property, so the set-up is tried
    again with a fresh device (3 attempts) before the scenario counts as 'could not be run'"""
    last = None
    for _ in range(3):
        try:
            return _run_tcp_case(case)
        except _SetupFailed as e:
            last = e
    raise RuntimeError(str(last))


def _run_tcp_case(case):
    from scrapli.driver import AsyncGenericDriver, GenericDriver
    saved = _save_globals()
    dev = TcpDevice(case["end"], neg_burst(case.get("neg", [])), case.get("after", "").encode())
    stack = "sync" if case["tr"] == "telnet" else "async"
    cls = GenericDriver if stack == "sync" else AsyncGenericDriver
    d = cls(host="127.0.0.1", port=dev.port, transport=case["tr"], auth_bypass=not case.get("auth"), auth_username="admin",
            auth_password="pw", timeout_ops=case.get("To", 1.0),
            timeout_transport=case.get("Ti", 1.0), timeout_socket=2, comms_prompt_pattern=r"^r1#$")
    loop = Loop(stack)
    try:
        if case.get("preopen") and stack == "sync":
            # the connection is made first (transport.open()); the device answers it with its burst and hangs up; only
            # then does the driver's open() run (it finds the socket open): the order of the events on the wire does not
            # depend on how the two threads are scheduled
            o, _ = observe(loop, d.transport.open)
            if o[0] != "ret" or not dev.hungup.wait(10):
                raise _SetupFailed("loopback device: %s" % (o,))
        obs = _runtime_ops(loop, d, case["ops"])
    finally:
        try:
            d.transport.close()
        except Exception:  # noqa
            pass
        _restore_globals(saved)
        loop.close()
        dev.shutdown()
    return {"ops": obs}


def run_ssh_case(case):
    """real paramiko / asyncssh / system(ssh binary) transport against an in-process asyncssh server
    whose session ends mid-way: exit (channel closed, connection kept), abort (TCP gone), disconnect,
    close; or that fails the opening at a chosen stage"""
    from . import c08_loopback
    from scrapli.driver import AsyncGenericDriver, GenericDriver
    saved = _save_globals()
    srv = c08_loopback.SshDevice(case["end"], stage=case.get("stage", ""))
    tr = case["tr"]
    stack = "sync" if tr in SYNC_TR else "async"
    cls = GenericDriver if stack == "sync" else AsyncGenericDriver
    d = cls(host="127.0.0.1", port=srv.port, transport=tr, auth_username="u", auth_password="p", auth_strict_key=False,
            timeout_ops=case.get("To", 2.0), timeout_transport=case.get("Ti", 2.0), timeout_socket=3,
            comms_prompt_pattern=r"^r1#$")
    loop = Loop(stack)
    try:
        obs = _runtime_ops(loop, d, case["ops"])
    finally:
        try:
            d.transport.close()
        except Exception:  # noqa
            pass
        _restore_globals(saved)
        loop.close()
        srv.shutdown()
    return {"ops": obs}


# ------------------------------------------------------------------------------------------------
RUNNERS = {"channel": run_channel_case, "driver": run_driver_case, "dopen": run_dopen_case,
           "open": run_open_case, "pty": run_pty_case, "tcp": run_tcp_case, "ssh": run_ssh_case}


_WARM = []


def warm_up():
    """everything that is imported or created lazily is paid for before the first timed operation"""
    if _WARM:
        return
    _WARM.append(1)
    import logging
    logging.getLogger("paramiko").setLevel(100)
    logging.getLogger("asyncio").setLevel(100)
    exc_class("OSError")
    import scrapli.driver.core  # noqa
    import scrapli.channel.async_channel  # noqa
    import scrapli.channel.sync_channel  # noqa
    for tr in ALL_TR:
        new_transport(tr)
    run_channel_case({"kind": "channel", "tr": "telnet", "To": 0.5, "Ti": 0.2, "recvs": [["D", "0a723123"], ["R", "OSError"]],
                      "ops": [{"op": "get_prompt"}, {"op": "get_prompt"}]})
    run_channel_case({"kind": "channel", "tr": "asynctelnet", "To": 0.5, "Ti": 0.2, "recvs": [["D", "0a723123"], ["R", "OSError"]],
                      "ops": [{"op": "get_prompt"}, {"op": "get_prompt"}]})


def run_case(case):
    warm_up()
    return RUNNERS[case["kind"]](case)
