"""C02 — results do not depend on how device output is chunked or decorated.

proof: coq/proofs/Chunking_Proofs.v over coq/model/Chunking.v, props/C02.v (read() is a stream function
for every chunking / CR placement / cut inside a sequence; decorated streams strip to their text; loop
and whole-operation chunk independence for all chunk lists / read schedules by induction; rough =
subsequence; the model's strip IS re.sub of the source's ANSI_ESCAPE_PATTERN).
tie: Gen_Chunking.v regenerated from the source on every run + correspondence `chan-chunking`: the REAL
sync and asyncio channels over a causal device under whole / 1-byte / every single cut / (thorough) every
pair of cuts / random cuts, CR and every sequence family inserted at every character boundary, strict
and rough, get_prompt / send_input / send_inputs_interact / in-channel telnet + ssh login — devices with
one-line AND two-line prompts (junos "{master:0}" / "{backup:1}" / "{master}[edit]" line + a prompt pattern
spanning both lines) in every operation kind, logins with a rejected password / passphrase where the ssh
client's message and the re-asked prompt are one device answer — and the model (vm_compute) on the same
schedules.  oracle: results, write logs and completion equal across
segmentations and decorations of one causal stream (independent of the model)."""
import ast
import copy
import itertools
import json
import os
import re

from . import common
from .common import coq_bool, coq_bytes, coq_list

LEVEL = "proof"
SOURCES = ["scrapli/channel/sync_channel.py", "scrapli/channel/async_channel.py",
           "scrapli/channel/base_channel.py", "scrapli/helper.py"]

PROMPT = r"^[a-z0-9.\-@()/:]{1,32}[#>$]$"
PROMPT_SP = r"^[a-z0-9.\-@()/:]{1,48}[#>$]\s?$"
# two-line prompts: the junos privilege-level patterns (optional "{master:0}" / "{master:0}[edit]" line in front of user@host> / #)
JUNOS_EXEC = r"^({\w+(:(\w+){0,1}\d){0,1}}\n){0,1}[\w\-@()/:\.]{1,63}>\s?$"
JUNOS_ANY = r"^({\w+(:(\w+){0,1}\d){0,1}}(\[edit\]){0,1}\n){0,1}[\w\-@()/:\.]{1,63}[>#]\s?$"
JUNOS_CONF = r"^({\w+(:(\w+){0,1}\d){0,1}}\[edit\]\n){0,1}[\w\-@()/:\.]{1,63}#\s?$"
DENIED = "Permission denied, please try again."
OUTS = [b"", b"out", b"line one\nline  two   \n\nlast line",
        b"Building configuration...\n\nCurrent configuration : 87 bytes\n!\nhostname router1\n!\nend",
        b"Interface   IP-Address   OK? Method Status\nGi1         10.0.0.1     YES NVRAM  up",
        b"% Invalid input detected at '^' marker.\n"]


# ------------------------------------------------------------------------------------------------
# scenarios
# ------------------------------------------------------------------------------------------------
# round 4: scenarios that are also run decorated (two-line prompt devices of every operation kind, a rejected ssh password)
TWO_LINE_DECO = ("junos2-get_prompt", "junos2-send_input", "junos2-interact", "ssh-rejected-password")


ROUND4 = ("junos2-get_prompt", "junos2-send_input", "junos2-send_input-rough", "junos2-edit", "junos2-interact", "junos2-interact-complete",
          "ssh-rejected-password", "ssh-rejected-passphrase", "ssh-key-ignored-then-password")


def cli(name, ops, platform="cisco_iosxe", outputs=None, rough=False, pattern=PROMPT, secret=None, mode=None,
        host="router1", banner="", user="admin", ret="\n", depth=1000, nl="0d0a"):
    dv = {"type": "cli", "platform": platform, "host": host, "outputs": {k: v.hex() for k, v in (outputs or {}).items()},
          "nl": nl, "banner": banner, "user": user}
    if secret is not None:
        dv["secret"] = secret
    if mode:
        dv["mode"] = mode
    return {"name": name, "device": dv, "ops": ops,
            "cfg": {"prompt_pattern": pattern, "rough": rough, "ret": ret, "depth": depth}}


def login(name, kind, op, **dv):
    d = {"type": "login", "kind": kind}
    d.update(dv)
    if "motd" in d and isinstance(d["motd"], bytes):
        d["motd"] = d["motd"].hex()
    return {"name": name, "device": d, "ops": [op], "cfg": {"prompt_pattern": PROMPT, "rough": False, "ret": "\n", "depth": 1000}}


def si(inp, **kw):
    d = {"op": "send_input", "input": inp}
    d.update(kw)
    return d


def base_scenarios(rng, thorough):
    S = []
    S.append(cli("get_prompt", [{"op": "get_prompt"}]))
    S.append(cli("send_input-strict", [si("show version")], outputs={"show version": OUTS[3]}))
    S.append(cli("send_input-rough", [si("show version")], outputs={"show version": OUTS[1]}, rough=True))
    S.append(cli("send_input-rough-doubled", [si("show ip access"), si("show class")], outputs={"show ip access": OUTS[1], "show class": OUTS[2]}, rough=True))
    S.append(cli("send_input-upper-rough", [si("Show IP Route")], outputs={"Show IP Route": OUTS[4]}, rough=True))
    S.append(cli("send_input-upper-strict", [si("Show IP Route", strip=False)], outputs={"Show IP Route": OUTS[2]}))
    S.append(cli("send_input-trailing-ws", [si("show  clock "), si("show clock")], outputs={"show  clock": b"12:00:01 UTC", "show clock": b"12:00:02 UTC"}))
    S.append(cli("send_input-empty-out", [si("terminal length 0"), {"op": "get_prompt"}]))
    S.append(cli("history", [{"op": "get_prompt"}, si("show a"), si("show b", strip=False), {"op": "get_prompt"}, si("show c")],
                 outputs={"show a": OUTS[1], "show b": OUTS[2], "show c": OUTS[5]}))
    S.append(cli("history-rough", [si("show a"), {"op": "get_prompt"}, si("Show B")],
                 outputs={"show a": OUTS[2], "Show B": OUTS[1]}, rough=True))
    S.append(cli("eager", [si("interface Gi1", eager=True), si("description x")], mode="configuration", outputs={}))
    S.append(cli("eager_input", [si("show x", eager_input=True)], outputs={"show x": OUTS[1]}))
    S.append(cli("interact-enable", [{"op": "interact", "events": [["enable", "Password:", False], ["s3cret", "router1#", True]]},
                                     si("show a")], mode="exec", secret="s3cret", outputs={"show a": OUTS[1]}))
    S.append(cli("interact-complete", [{"op": "interact", "events": [["enable", "Password:", False], ["s3cret", "", True]],
                                        "complete": ["^router1#$"]}], mode="exec", secret="s3cret"))
    S.append(cli("interact-no-password", [{"op": "interact", "events": [["enable", "Password:", False], ["s3cret", "", True]],
                                           "complete": ["^router1#$"]}, {"op": "get_prompt"}], mode="exec"))
    S.append(cli("interact-wrong", [{"op": "interact", "events": [["enable", "Password:"], ["nope", "Password:", True], ["s3cret", "", True]]}],
                 mode="exec", secret="s3cret"))
    S.append(cli("nxos-trailing-blank", [{"op": "get_prompt"}, si("show version"), si("show clock")], platform="cisco_nxos",
                 pattern=PROMPT_SP, host="switch1", outputs={"show version": OUTS[1], "show clock": OUTS[2]}))
    S.append(cli("junos-banner", [si("show version"), {"op": "get_prompt"}], platform="juniper_junos", pattern=r"^[a-z0-9.\-@()/:]{1,48}[#>$%]\s?$",
                 host="vmx1", user="boxen", banner="{master}", outputs={"show version": b"Hostname: vmx1\nModel: vmx"}))
    # devices whose prompt is TWO lines and a prompt pattern that spans both (a read boundary can fall between them)
    jn = dict(platform="juniper_junos", host="vsrx1", user="boxen")
    S.append(cli("junos2-get_prompt", [{"op": "get_prompt"}], pattern=JUNOS_EXEC, banner="{master:0}", **jn))
    S.append(cli("junos2-send_input", [si("show version"), {"op": "get_prompt"}, si("show system uptime", strip=False)], pattern=JUNOS_EXEC,
                 banner="{backup:1}", outputs={"show version": b"Hostname: vsrx1\nModel: vsrx", "show system uptime": b"up 3 days"}, **jn))
    S.append(cli("junos2-send_input-rough", [si("show version"), {"op": "get_prompt"}], pattern=JUNOS_EXEC, banner="{master:0}", rough=True,
                 outputs={"show version": b"Hostname: vsrx1\nModel: vsrx"}, **jn))
    S.append(cli("junos2-edit", [{"op": "get_prompt"}, si("show | compare"), {"op": "get_prompt"}], pattern=JUNOS_ANY,
                 banner="{master}", mode="configuration", outputs={"show | compare": b"[edit system]\n-  host-name vsrx1;\n+  host-name x;"}, **jn))
    S.append(cli("junos2-interact", [{"op": "interact", "events": [["configure", "", False], ["exit", "", False]]}, {"op": "get_prompt"}],
                 pattern=JUNOS_ANY, banner="{master:0}", **jn))
    S.append(cli("junos2-interact-complete", [{"op": "interact", "events": [["configure", "Password:", False], ["s3cret", "", True]],
                                               "complete": [JUNOS_CONF]}, {"op": "get_prompt"}], pattern=JUNOS_ANY, banner="{master}", **jn))
    S.append(cli("crlf-return", [si("show a"), {"op": "get_prompt"}], ret="\r\n", outputs={"show a": OUTS[1]}))
    S.append(cli("small-window", [si("show run")], depth=40, outputs={"show run": OUTS[3]}))
    S.append(cli("blocks-no-prompt", [si("show a")], pattern=r"^[a-z0-9]{1,32}>$", outputs={"show a": OUTS[1]}))
    S[-1]["expect"] = ["blocks"]
    # in-channel logins
    S.append(login("telnet-login", "telnet", {"op": "auth_telnet", "user": "admin", "password": "pw1"}, motd=b"\r\nWelcome to router1\r\n\r\n"))
    S.append(login("telnet-login-wrong-once", "telnet", {"op": "auth_telnet", "user": "admin", "password": "pw1"}, password="pw1", user="admin",
                   login_text="login: "))
    S.append(login("telnet-login-fails", "telnet", {"op": "auth_telnet", "user": "admin", "password": "bad"}))
    S[-1]["expect"] = ["raised:ScrapliAuthenticationFailed"]
    S.append(login("ssh-password", "ssh", {"op": "auth_ssh", "password": "pw1", "passphrase": ""}, motd=b"Last login: Mon Jan  1 00:00:00 2024 from 10.0.0.9\r\n"))
    S.append(login("ssh-passphrase", "ssh", {"op": "auth_ssh", "password": "pw1", "passphrase": "kp"}, ask_passphrase=True, passphrase="kp"))
    S.append(login("ssh-wrong-password", "ssh", {"op": "auth_ssh", "password": "bad", "passphrase": ""}))
    S[-1]["expect"] = ["raised:ScrapliAuthenticationFailed"]
    # a rejected credential: the ssh client's message and the re-asked prompt are ONE answer of the device — whether they arrive in
    # one read is the segmentation's choice (whole: together; a cut in between / 1-byte reads: the message first)
    S.append(login("ssh-rejected-password", "ssh", {"op": "auth_ssh", "password": "bad", "passphrase": ""}, deny_text=DENIED, quiet=True))
    S[-1]["expect"] = ["raised:ScrapliAuthenticationFailed"]
    S.append(login("ssh-rejected-passphrase", "ssh", {"op": "auth_ssh", "password": "pw1", "passphrase": "bad"}, ask_passphrase=True,
                   passphrase="kp", deny_text=DENIED))
    S[-1]["expect"] = ["raised:ScrapliAuthenticationFailed"]
    S.append(login("ssh-key-ignored-then-password", "ssh", {"op": "auth_ssh", "password": "pw1", "passphrase": ""},
                   quiet=True, preamble="@@@@@@@@@@@@\n@ WARNING: UNPROTECTED PRIVATE KEY FILE! @\n@@@@@@@@@@@@\nThis private key will be ignored.\n"))
    S[-1]["expect"] = ["raised:ScrapliAuthenticationFailed"]
    S.append(login("ssh-denied", "ssh", {"op": "auth_ssh", "password": "bad", "passphrase": ""}, deny_after=1))
    S[-1]["expect"] = None   # before fix ad58f65 the asyncio loop did not read the 'permission denied' text (C06 / C09)
    # generated command / output variety
    words = ["show", "ip", "int", "brief", "run", "|", "i", "Gi1", "VRF", "x-y_z", "10.0.0.1/24", "é"]
    for k in range(12 if thorough else 5):
        cmd = " ".join(rng.choice(words) for _ in range(rng.randint(1, 4)))
        if rng.random() < 0.3:
            cmd = cmd.upper() if rng.random() < 0.5 else cmd.title()
        out = b"\n".join(bytes(rng.choice(b"abcdefgh ijklm.:/-0123456789") for _ in range(rng.randint(0, 30))).rstrip()
                         for _ in range(rng.randint(0, 4)))
        rough = rng.random() < 0.5
        S.append(cli("gen-%d%s" % (k, "-rough" if rough else ""), [si(cmd, strip=rng.random() < 0.7), {"op": "get_prompt"}],
                     outputs={cmd.encode("utf-8").decode("latin-1").strip(): out}, rough=rough,
                     host=rng.choice(["router1", "r", "core-sw.lab:1"])))
    return S


def policies(n, rng, thorough, n_random=4, pairs=False):
    """segmentations of an n-byte causal stream as Chunker policies"""
    out = [("whole",), ("bytes", 1), ("bytes", 2), ("bytes", 7)]
    out += [("cuts", [c]) for c in range(1, n)]
    if pairs:
        out += [("cuts", [a, b]) for a, b in itertools.combinations(range(1, n), 2)]
    for _ in range(n_random):
        if n > 3:
            k = rng.randint(2, min(8, n - 1))
            out.append(("cuts", sorted(rng.sample(range(1, n), k))))
        out.append(("random", rng.randint(0, 10 ** 6), rng.choice([2, 3, 5, 9])))
    return out


def decorate(scn, where, seq):
    s2 = copy.deepcopy(scn)
    ins = s2["device"].setdefault("insertions", {})
    for k in where:
        ins[str(k)] = (bytes.fromhex(ins.get(str(k), "")) + seq).hex()
    return s2


# ------------------------------------------------------------------------------------------------
# model cases (Coq terms)
# ------------------------------------------------------------------------------------------------
_HANDLER = {}


def ssh_handler_called(stack):
    """does channel_authenticate_ssh of this stack call _ssh_message_handler? (read from the source; the asyncio loop
    does since fix ad58f65)"""
    if stack not in _HANDLER:
        import inspect
        from scrapli.channel import AsyncChannel, Channel
        cls = Channel if stack == "sync" else AsyncChannel
        _HANDLER[stack] = "_ssh_message_handler(" in inspect.getsource(cls.channel_authenticate_ssh)
    return _HANDLER[stack]


def ssh_messages():
    """lower-case texts `_ssh_message_handler` looks for in output.lower() (read from the source's AST)"""
    src = open(os.path.join(common.REPO, "scrapli/channel/base_channel.py")).read()
    tree = ast.parse(src)
    out = []
    for node in ast.walk(tree):
        if isinstance(node, ast.FunctionDef) and node.name == "_ssh_message_handler":
            for test in ast.walk(node):
                if isinstance(test, ast.Compare) and len(test.ops) == 1 and isinstance(test.ops[0], ast.In):
                    left, right = test.left, test.comparators[0]
                    if isinstance(left, ast.Constant) and isinstance(left.value, bytes) and isinstance(right, ast.Call) \
                            and isinstance(right.func, ast.Attribute) and right.func.attr == "lower":
                        if left.value not in out:
                            out.append(left.value)
    return out


class Model:
    HEADER = """From Verif Require Import Bytes Regex RegexPrio Chunking.
From Gen Require Import Gen_Chunking.
Inductive opd := OGet | OSend (inp : bytes) (s e ei : bool) | OInt (evs : list event) | OAuth (a : auth).
Definition prog_of (c : cfg) (o : opd) : prog :=
  match o with
  | OGet => p_get_prompt c
  | OSend i s e ei => p_send_input c i s e ei
  | OInt evs => p_interact c evs []
  | OAuth a => p_auth 8 c a 0 0 0 []
  end.
Definition exp := (nat * list bytes * list bytes * bytes * bytes)%type.
Fixpoint run_ops (c : cfg) (ops : list (opd * list nat * exp)) (d : list bytes) (pend h : bytes) : bool :=
  match ops with
  | [] => true
  | (o, sched, (k, res, ws, resid, hd)) :: r =>
      match exec (list bytes) script_feed (c_hb c) (prog_of c o) d pend h sched [] with
      | Done _ r' d' pend' h' ws' =>
          Nat.eqb k 0 && lbeq r' res && lbeq ws' ws && beq pend' resid && beq h' hd && run_ops c r d' pend' h'
      | Raised _ e d' pend' h' ws' => Nat.eqb k 1 && lbeq ws' ws && beq pend' resid && beq h' hd
      | Blocks _ acc d' h' ws' => Nat.eqb k 2 && lbeq ws' ws && beq h' hd
      end
  end.
Definition mk (c : cfg) (i : bytes) (s : list bytes) (o : list (opd * list nat * exp)) := (c, i, s, o).
Definition chk (c : cfg * bytes * list bytes * list (opd * list nat * exp)) : bool :=
  let '(cf, init, script, ops) := c in run_ops cf ops script init [].
Definition tidy_of (c : cfg * bytes * list bytes * list (opd * list nat * exp)) : bool :=
  let '(cf, init, script, ops) := c in
  match ops with
  | [(o, _, _)] => tidy (list bytes) script_feed (c_hb cf) (prog_of cf o) script init []
  | _ => true
  end.
"""

    def __init__(self, rep):
        from gen import regex as rx
        self.rx = rx
        self.rep = rep
        self.pats = {}
        self.terms, self.meta = [], []
        self.msgs = None
        self.failed = set()

    def pat(self, cp):
        key = (cp.pattern, cp.flags)
        if key not in self.pats:
            term, _ = self.rx.translate(cp.pattern, cp.flags)
            self.pats[key] = ("pat%d" % len(self.pats), term)
        return self.pats[key][0]

    def header(self):
        return self.HEADER + "\n".join("Definition %s : re := %s." % v for v in self.pats.values()) + "\n"

    def add(self, scn, stack, policy, ob, meta):
        """returns False when the scenario cannot be expressed (reported as broken by the caller)"""
        from scrapli.channel.base_channel import BaseChannel
        cfgd = scn["cfg"]
        cpat = cfgd["prompt_pattern"]
        gp = BaseChannel._get_prompt_pattern
        try:
            cterm = "(mkCfg gen_hb %d%%nat %s %s %s)" % (cfgd.get("depth", 1000), self.pat(gp(class_pattern=cpat)),
                                                      coq_bytes(cfgd.get("ret", "\n").encode()), coq_bool(cfgd.get("rough", False)))
            ops = []
            for op, o in zip(scn["ops"], ob["ops"]):
                k = op["op"]
                if k == "get_prompt":
                    od = "OGet"
                elif k == "send_input":
                    od = "(OSend %s %s %s %s)" % (coq_bytes(op["input"].encode("utf-8")), coq_bool(op.get("strip", True)),
                                                 coq_bool(op.get("eager", False)), coq_bool(op.get("eager_input", False)))
                elif k == "interact":
                    comp = op.get("complete")
                    cterms = coq_list([self.pat(gp(class_pattern=cpat, pattern=p)) for p in (comp or [])])
                    evs = []
                    for e in op["events"]:
                        hidden = e[2] if len(e) > 2 else False
                        echo = bool(e[1]) and hidden is not True
                        evs.append("(mkEv %s %s %s %s)" % (coq_bytes(e[0].encode("utf-8")), coq_bool(echo),
                                                          self.pat(gp(class_pattern=cpat, pattern=e[1])), cterms))
                    od = "(OInt %s)" % coq_list(evs)
                else:
                    ch = self._chan(cfgd)
                    if k == "auth_telnet":
                        od = "(OAuth (mkAuth (Some %s) %s None %s %s [] []))" % (
                            self.pat(ch.auth_telnet_login_pattern), self.pat(ch.auth_password_pattern),
                            coq_bytes(op["user"].encode()), coq_bytes(op["password"].encode()))
                    else:
                        if self.msgs is None:
                            self.msgs = ssh_messages()
                        msgs = self.msgs if ssh_handler_called(stack) else []
                        od = "(OAuth (mkAuth None %s (Some %s) [] %s %s %s))" % (
                            self.pat(ch.auth_password_pattern), self.pat(ch.auth_passphrase_pattern),
                            coq_bytes(op["password"].encode()), coq_bytes(op["passphrase"].encode()),
                            coq_list([coq_bytes(x) for x in msgs]))
                kind = {"done": 0, "blocks": 2, "raised:ScrapliAuthenticationFailed": 1}.get(o["kind"])
                if kind is None:
                    return False
                sched = "[" + ";".join(str(len(r)) for r in o["reads"]) + "]%nat"
                exp = "(%d%%nat, %s, %s, %s, %s)" % (kind, coq_list([coq_bytes(x) for x in o["result"]]),
                                                    coq_list([coq_bytes(x) for x in o["writes"]]),
                                                    coq_bytes(o["residue"]), coq_bytes(o["held"]))
                ops.append("(%s, %s, %s)" % (od, sched, exp))
        except self.rx.Unsupported as e:
            self.rep.broken.append("regex translator (scenario %s): %s" % (scn["name"], e))
            return False
        term = "(mk %s %s %s %s)" % (cterm, coq_bytes(ob["init"]), coq_list([coq_bytes(a) for a in ob["answers"]]), coq_list(ops))
        self.terms.append(term)
        self.meta.append(meta)
        return True

    def _chan(self, cfgd):
        from .c02_lib import make_channel, make_device
        ch, _ = make_channel("sync", make_device({"type": "cli"}), ("whole",), cfgd)
        return ch


# ------------------------------------------------------------------------------------------------
# the oracle: one causal stream, many segmentations / decorations
# ------------------------------------------------------------------------------------------------
def hexify(x):
    if isinstance(x, bytes):
        return x.hex()
    if isinstance(x, (list, tuple)):
        return [hexify(y) for y in x]
    return x


def explore(rep, model, scn, thorough, stats, viol, label="base", base_canon=None, pols=None, model_quota=None, cut_sample=None):
    """runs scn on both stacks under the policies; oracle = canonical observation equal to the base one.
    returns {stack: canon of the whole-read run}"""
    from . import c02_lib as L
    rng = rep.rng
    out = {}
    for stack in ("sync", "async"):
        ob0 = L.run_scenario(scn, stack, ("whole",))
        c0 = L.canon(ob0)
        ref = base_canon[stack] if base_canon else c0
        out[stack] = c0
        if label == "base" and scn.get("expect", 0) is not None:
            want = scn.get("expect") or ["done"] * len(scn["ops"])
            kinds = [o["kind"] for o in ob0["ops"]]
            if kinds != want:
                viol.append({"scenario": scn, "stack": stack, "policy": ["whole"], "label": "expected-completion",
                             "got": kinds, "want": want, "expect": want})
        n = len(ob0["stream"])
        plist = pols(n) if pols else policies(n, rng, thorough)
        stats["streams"].append(n)
        for pol in plist:
            ob = ob0 if pol == ("whole",) else L.run_scenario(scn, stack, pol)
            c = L.canon(ob)
            nreads = sum(len(o["reads"]) for o in ob["ops"])
            rep.case((scn["name"], label, stack, json.dumps(pol)), nontrivial=nreads > len(ob["ops"]))
            stats["runs"] += 1
            stats["kinds"][ob["ops"][-1]["kind"]] = stats["kinds"].get(ob["ops"][-1]["kind"], 0) + 1
            if c != ref:
                viol.append({"scenario": scn, "stack": stack, "policy": list(pol), "label": label,
                             "got": hexify(c), "want": hexify(ref)})
            take = model_quota is None or model_quota.get(stack, 0) > 0
            psample = 1.0 if pol[0] != "cuts" else ((cut_sample or stats["cut_sample"]) if len(pol[1]) == 1 else stats["pair_sample"] if len(pol[1]) == 2 else 1.0)
            if take and rng.random() < psample:
                ok = model.add(scn, stack, pol, ob, {"scenario": scn, "stack": stack, "policy": list(pol), "label": label})
                if not ok and ("model-inexpressible:" + scn["name"]) not in stats["inexpr"]:
                    stats["inexpr"].append("model-inexpressible:" + scn["name"])
                if model_quota is not None:
                    model_quota[stack] -= 1
    return out


def same_across(scn, stack, pols):
    """oracle on one scenario: list of (policy, canon) that differ from the whole-read run"""
    from . import c02_lib as L
    ref = L.canon(L.run_scenario(scn, stack, ("whole",)))
    bad = []
    for pol in pols:
        c = L.canon(L.run_scenario(scn, stack, tuple(pol)))
        if c != ref:
            bad.append((pol, c, ref))
    return bad


# ------------------------------------------------------------------------------------------------
# findings (known / fixed) — replayed on every run
# ------------------------------------------------------------------------------------------------
def finding_failing_stacks(f):
    """re-run a finding's scenario; the stacks on which the property still fails on it"""
    from . import c02_lib as L
    scn = f["scenario"]
    bad = []
    for stack in f.get("stacks", ["sync", "async"]):
        ref_scn = f.get("reference") or scn
        ref = L.canon(L.run_scenario(ref_scn, stack, tuple(f.get("reference_policy", ["whole"]))))
        got = L.canon(L.run_scenario(scn, stack, tuple(f["policy"])))
        if got != ref:
            bad.append(stack)
    return bad


def finding_fails(f):
    return bool(finding_failing_stacks(f))


def unit_probe():
    """direct probes of the helper functions on the real code (fixed findings' regression corpus)"""
    from scrapli.helper import output_roughly_contains_input as rough
    bad = []
    if rough(input_=b"show", output=b"sh"):
        bad.append("rough: partial echo accepted")
    if not rough(input_=b"show", output=b"s h o w"):
        bad.append("rough: interleaved echo rejected")
    return bad


# ------------------------------------------------------------------------------------------------
# unit-level correspondence
# ------------------------------------------------------------------------------------------------
UNIT_HEADER = """From Verif Require Import Bytes Regex RegexPrio Chunking.
From Gen Require Import Gen_Chunking.
Inductive ucase := URead (cs : list bytes) (pieces : list bytes) (hd : bytes) | URough (i o : bytes) (r : bool)
  | UStrip (s out : bytes).
Definition chk (c : ucase) : bool :=
  match c with
  | URead cs pieces hd => let (h, ps) := reads gen_hb [] cs in lbeq ps pieces && beq h hd
  | URough i o r => Bool.eqb (roughly i o) r
  | UStrip s out => beq (strip s) out && beq (sub_all gen_ansi s) out
  end.
"""


class _ListTransport:
    def __init__(self, chunks):
        self.chunks = list(chunks)

        class _A:
            host, port, logging_uid = "h", 23, ""
        self._base_transport_args = _A()

    def read(self):
        return self.chunks.pop(0)


def real_reads(chunks):
    """the real sync read() over pre-queued chunks: (pieces, held)"""
    from scrapli.channel.base_channel import BaseChannelArgs
    from scrapli.channel.sync_channel import Channel
    ch = Channel(transport=_ListTransport(chunks), base_channel_args=BaseChannelArgs())
    ch.open()
    out = [ch.read() for _ in chunks]
    return out, bytes(ch._ansi_partial)


def real_reads_async(chunks):
    from scrapli.channel.async_channel import AsyncChannel
    from scrapli.channel.base_channel import BaseChannelArgs
    from .c02_lib import loop

    class _T(_ListTransport):
        async def read(self):
            return self.chunks.pop(0)
    ch = AsyncChannel(transport=_T(chunks), base_channel_args=BaseChannelArgs())
    ch.open()

    async def go():
        return [await ch.read() for _ in chunks]
    return loop().run_until_complete(go()), bytes(ch._ansi_partial)


def read_differs(chunks):
    whole, got = real_reads([b"".join(chunks)]), real_reads(list(chunks))
    return (b"".join(whole[0]), whole[1]) != (b"".join(got[0]), got[1])


def shrink_read(chunks):
    """greedy byte deletion keeping 'two chunks, the segmentation changes what read() returns'"""
    a, b = chunks
    changed = True
    while changed:
        changed = False
        for i in range(len(a) + len(b)):
            a2, b2 = (a[:i] + a[i + 1:], b) if i < len(a) else (a, b[:i - len(a)] + b[i - len(a) + 1:])
            if a2 and b2 and well_bounded(a2 + b2) and read_differs([a2, b2]):
                a, b, changed = a2, b2, True
                break
    return [a, b]


def well_bounded(s):
    """no 0x9B/0x9D and no ESC followed by more than 60 bytes without a terminator (a sufficient test)"""
    s = s.replace(b"\r", b"")
    if b"\x9b" in s or b"\x9d" in s:
        return False
    return all(len(part) <= 60 or any(0x40 <= c <= 0x7e or c in (7, 10) for c in part[2:62]) for part in s.split(b"\x1b")[1:])


def unit_cases(rng, n):
    from scrapli.channel.base_channel import BaseChannel
    from scrapli.helper import output_roughly_contains_input as rough
    terms, meta = [], []
    alpha = [27, 27, 27, 27, 155, 157, 32, 10, 13, 9, 91, 91, 93, 55, 56, 77, 69, 48, 49, 59, 109, 7, 64, 126, 97, 98, 63, 35]
    for k in range(n):
        r = rng.random()
        if r < 0.6:
            ln = rng.choice([0, 1, 2, 3, 5, 8, 13, 21, 70 if rng.random() < 0.1 else 9])
            if rng.random() < 0.15:
                s = b"a\x1b[" + bytes(rng.choice(b"0123456789;") for _ in range(rng.choice([62, 63, 64, 65, 66, 70]))) + rng.choice([b"m", b"", b"\n"]) + b"z"
            else:
                s = bytes(rng.choice(alpha) for _ in range(ln))
            cuts = sorted(rng.sample(range(0, len(s) + 1), min(rng.randint(0, 5), len(s) + 1)))
            chunks = common.cut(s, cuts)
            fn = real_reads if k % 2 == 0 else real_reads_async
            pieces, hd = fn(list(chunks))
            terms.append("(URead %s %s %s)" % (coq_list([coq_bytes(c) for c in chunks]), coq_list([coq_bytes(p) for p in pieces]), coq_bytes(hd)))
            meta.append(("read", [c.hex() for c in chunks]))
        elif r < 0.8:
            i = bytes(rng.choice(b"abcs") for _ in range(rng.randint(0, 5)))
            o = bytes(rng.choice(b"abcs x") for _ in range(rng.randint(0, 9)))
            terms.append("(URough %s %s %s)" % (coq_bytes(i), coq_bytes(o), coq_bool(bool(rough(input_=i, output=o)))))
            meta.append(("rough", i.hex(), o.hex()))
        else:
            s = bytes(rng.choice(alpha) for _ in range(rng.randint(0, 16)))
            terms.append("(UStrip %s %s)" % (coq_bytes(s), coq_bytes(BaseChannel._strip_ansi(buf=s))))
            meta.append(("strip", s.hex()))
    return terms, meta


# ------------------------------------------------------------------------------------------------
def run(rep):
    from gen import gen_chunking
    from . import c02_lib as L

    rng = rep.rng
    thorough = rep.tier == "thorough"
    info = {}
    # 1. regenerate from the source
    try:
        _, info = gen_chunking.generate(rep.workdir)
        rc, out, _ = common.coqc(os.path.join(rep.workdir, "Gen_Chunking.v"), rep.workdir)
        if rc:
            rep.broken.append("Gen_Chunking.v")
            rep.notes.append(out[-2000:])
    except Exception as e:  # translator aborted: broken tie
        rep.broken.append("gen_chunking:%s" % (e,))
    gen_ok = not rep.broken
    # 2. proofs
    ok, _ = rep.build_static()
    rep.add_static_obligations("props/C02.v", ok)
    if not ok:
        rep.broken.append("static-build")
    if ok and gen_ok:
        rep.compile_props("props/C02.v")

    # 3. implementation runs + oracle; model cases collected on the way
    model = Model(rep)
    stats = {"runs": 0, "streams": [], "kinds": {}, "inexpr": [], "cut_sample": 1.0 if thorough else 0.35, "pair_sample": 0.2,
             "decorated_runs": 0, "families": {}, "scenarios": 0}
    viol = []
    # findings first
    for f in rep.findings:
        try:
            fr = json.load(open(os.path.join(common.VERIF, f["replay"])))
            failing = finding_failing_stacks(fr)
            fails = bool(failing)
        except Exception as e:  # noqa
            rep.broken.append("finding %s cannot be replayed: %r" % (f["id"], e))
            continue
        rep.case(("finding", f["id"]))
        if f["kind"] == "known":
            if fails:
                rep.known(f["signature"])
            else:
                rep.notes.append("known finding %s no longer reproduces" % f["id"])
        elif fails:
            viol.append({"scenario": fr["scenario"], "stack": failing[0], "policy": fr["policy"], "label": "fixed-finding:" + f["id"],
                         "reference": fr.get("reference"), "got": "differs", "want": "equal"})
    for msg in unit_probe():
        rep.broken.append("helper probe: " + msg)

    scenarios = base_scenarios(rng, thorough)
    stats["scenarios"] = len(scenarios)
    base = {}
    strict_twin = {}
    for i, scn in enumerate(scenarios):
        pairs_ok = thorough and i < 9
        def pols(n, _p=pairs_ok):
            return policies(n, rng, thorough, n_random=8 if thorough else 4, pairs=_p and n <= 120)
        ref = None
        if scn["cfg"]["rough"]:
            # rough matching with an exact echo must behave like strict matching: the strict twin is the reference
            twin = copy.deepcopy(scn)
            twin["cfg"]["rough"] = False
            ref = {stack: L.canon(L.run_scenario(twin, stack, ("whole",))) for stack in ("sync", "async")}
            strict_twin[scn["name"]] = twin
        # the oracle sees EVERY single cut on the real channels; the model is run on a sample of them (a thinner one for the round-4
        # scenarios in the quick tier: their login / multi-op runs are the most expensive model cases)
        thin = 0.15 if (not thorough and scn["name"] in ROUND4) else None
        got = explore(rep, model, scn, thorough, stats, viol, pols=pols, base_canon=ref, cut_sample=thin)
        base[scn["name"]] = ref or got
    rep.sample({"scenario": scenarios[1]["name"], "ops": scenarios[1]["ops"], "policies": "whole, 1-/2-/7-byte reads, every single cut, random cuts"})
    try:    # two illustrative samples for the evidence file; on a broken tree an operation may not complete — never fatal
        ob_s = L.run_scenario(decorate(scenarios[1], [3], L.FAMILIES["SGR"]), "sync", ("bytes", 1))
        rep.sample({"scenario": "send_input-strict [SGR@3] 1-byte reads", "stream": ob_s["stream"].hex(), "reads": len(ob_s["ops"][0]["reads"]),
                    "result": ob_s["ops"][0]["result"][1].hex(), "writes": [w.hex() for w in ob_s["ops"][0]["writes"]]})
        ob_s = L.run_scenario([x for x in scenarios if x["name"] == "telnet-login"][0], "async", ("cuts", [7, 40]))
        rep.sample({"scenario": "telnet-login cuts at 7, 40 (asyncio)", "completion": ob_s["ops"][0]["kind"], "writes": [w.hex() for w in ob_s["all_writes"]]})
    except Exception as e:  # noqa
        rep.notes.append("evidence sample could not be produced: %r" % (e,))

    # decorations: CR and every sequence family at every character boundary of the (undecorated) stream
    deco_scn = [s for s in scenarios if s["name"] in (
        "get_prompt", "send_input-strict", "send_input-rough", "history", "interact-enable", "telnet-login", "ssh-password",
        "nxos-trailing-blank", "send_input-upper-strict") + TWO_LINE_DECO]
    fams = list(L.FAMILIES.items())
    for scn in deco_scn:
        ob = L.run_scenario(scn, "sync", ("whole",))
        nplain = len(ob["plain"])
        for fam, seq in fams:
            if not thorough and fam in ("CSI-long", "SGR0", "ESC8", "ESCE") and scn["name"] not in ("send_input-strict",):
                continue
            stats["families"][fam] = stats["families"].get(fam, 0) + 1
            positions = list(range(0, nplain + 1))
            if not thorough and scn["name"] not in ("send_input-strict", "get_prompt"):
                positions = sorted(rng.sample(positions, min(len(positions), 8 if scn["name"] in TWO_LINE_DECO else 12)))
            for k in positions:
                d = decorate(scn, [k], seq)

                def pols(n, _k=k, _seq=seq):
                    # whole, 1-byte, and cuts inside the inserted sequence
                    out = [("whole",), ("bytes", 1)]
                    dob = L.run_scenario(d, "sync", ("whole",))
                    at = dob["stream"].find(_seq)
                    if at >= 0:
                        inner = [at + j for j in range(1, len(_seq))]
                        out += [("cuts", [c]) for c in (inner if thorough else rng.sample(inner, min(2, len(inner))))]
                        if len(inner) >= 2:
                            out.append(("cuts", sorted(rng.sample(inner, 2))))
                    out.append(("random", rng.randint(0, 10 ** 6), 3))
                    return out
                before = stats["runs"]
                explore(rep, model, d, thorough, stats, viol, label="%s@%d" % (fam, k), base_canon=base[scn["name"]], pols=pols,
                        model_quota={"sync": 1, "async": 1} if (k % (3 if thorough else 7)) == 0 else {"sync": 0, "async": 0})
                stats["decorated_runs"] += stats["runs"] - before
        # several decorations at once + CR everywhere
        many = copy.deepcopy(scn)
        for k in range(0, nplain + 1):
            if rng.random() < 0.5:
                many = decorate(many, [k], rng.choice(fams)[1])
        explore(rep, model, many, thorough, stats, viol, label="many", base_canon=base[scn["name"]],
                pols=lambda n: [("whole",), ("bytes", 1), ("bytes", 3), ("random", rng.randint(0, 10 ** 6), 5)] +
                [("cuts", [c]) for c in (range(1, n) if thorough else rng.sample(range(1, n), min(25, n - 1)))])
    # rough mode: extra characters interleaved with the echo (before its last character)
    for scn in [s for s in scenarios if s["cfg"]["rough"] and s["name"].startswith(("send_input", "history", "gen"))]:
        ob = L.run_scenario(scn, "sync", ("whole",))
        first = scn["ops"][0]
        if first["op"] != "send_input":
            continue
        elen = len(first["input"].encode("utf-8").rstrip())
        for trial in range(6 if thorough else 3):
            d = copy.deepcopy(scn)
            for k in range(0, elen):   # offsets 0..elen-1: in front of echoed characters, never after the last
                if rng.random() < 0.4:
                    # extras must not themselves complete the echo early: use bytes that are not in the input
                    pool = [c for c in b"\x08 *~^`" if c not in first["input"].lower().encode("utf-8")]
                    d = decorate(d, [k], bytes(rng.choice(pool) for _ in range(rng.randint(1, 3))))
            explore(rep, model, d, thorough, stats, viol, label="rough-extras", base_canon=base[scn["name"]],
                    pols=lambda n: [("whole",), ("bytes", 1), ("bytes", 2)] + [("cuts", [c]) for c in range(1, min(n, elen + 12))])

    # strict mode: white space and backspaces interleaved with the echo (the comparison ignores them)
    for scn in [s for s in scenarios if not s["cfg"]["rough"] and s["name"] in ("send_input-strict", "send_input-upper-strict", "history", "crlf-return")]:
        first = [o for o in scn["ops"] if o["op"] == "send_input"][0]
        ob = L.run_scenario(scn, "sync", ("whole",))
        start = ob["plain"].find(first["input"].encode("utf-8"))
        elen = len(first["input"].encode("utf-8").rstrip())
        for trial in range(4 if thorough else 2):
            d = copy.deepcopy(scn)
            for k in range(start, start + elen):
                if rng.random() < 0.4:
                    d = decorate(d, [k], bytes(rng.choice(b"\x08 \t\x08 ") for _ in range(rng.randint(1, 3))))
            explore(rep, model, d, thorough, stats, viol, label="strict-extras", base_canon=base[scn["name"]],
                    pols=lambda n: [("whole",), ("bytes", 1), ("bytes", 2)] + [("cuts", [c]) for c in range(1, min(n, start + elen + 14))])

    # unit-level correspondence: read() over arbitrary (also ill-formed) byte streams and chunkings, the rough test
    uterms, umeta = unit_cases(rng, 3000 if thorough else 900)
    stats["unit_cases"] = len(uterms)
    for mm in umeta:
        rep.case(("unit",) + tuple(map(str, mm)), nontrivial=mm[0] != "read" or len(mm[1]) > 1)

    # 4. the model on the collected runs
    bad, log = ([], "")
    # login runs cost the model ~100x a get_prompt run and sit next to each other: deal the cases round-robin over the shards
    # (terms and their meta together) so that the parallel shards finish at about the same time
    shard = min(400, max(150, -(-len(model.terms) // common.JOBS)))     # quick tier: one wave of shards; bounded (memory of one coqc)
    nsh = max(1, -(-len(model.terms) // shard))
    order = sorted(range(len(model.terms)), key=lambda i: (i % nsh, i))
    model.terms, model.meta = [model.terms[i] for i in order], [model.meta[i] for i in order]
    if gen_ok and ok:
        bad, log = common.eval_cases(rep.workdir, "cases_c02", model.header(), model.terms, "chk", shard=shard, timeout=800)
    stats["model_cases"] = len(model.terms)
    ubad = None
    if gen_ok and ok:
        ubad, ulog = common.eval_cases(rep.workdir, "unit_c02", UNIT_HEADER, uterms, "chk", shard=300)
        if ubad is None:
            rep.broken.append("correspondence chan-chunking/unit (model evaluation failed)")
            rep.notes.append(ulog)
        elif ubad:
            rep.broken.append("correspondence chan-chunking/unit: model differs from implementation on %d of %d cases" % (len(ubad), len(uterms)))
            for ix in ubad[:3]:
                rep.notes.append("unit disagreement: %r" % (umeta[ix],))
            # search: does the disagreement show as a chunk dependence of read() on a well-bounded stream?
            found = False
            for ix in ubad[:40]:
                mm = umeta[ix]
                if mm[0] == "rough":
                    continue
                S_ = b"".join(bytes.fromhex(x) for x in mm[1]) if mm[0] == "read" else bytes.fromhex(mm[1])
                S_ = S_.replace(b"\x9b", b"").replace(b"\x9d", b"")   # stay inside the property's domain
                if not well_bounded(S_):
                    continue
                for ext in (b"", b"x", b"m", b"\x07"):
                    T_ = S_ + ext
                    whole = real_reads([T_])
                    for c in range(1, len(T_)):
                        chunks = [T_[:c], T_[c:]]
                        got = real_reads(chunks)
                        if (b"".join(whole[0]), whole[1]) != (b"".join(got[0]), got[1]):
                            chunks = shrink_read(chunks)
                            whole, got = real_reads([b"".join(chunks)]), real_reads(chunks)
                            rep.violation("read() depends on the segmentation: chunks %r give %r (+held %r), one read gives %r (+held %r)" % (
                                chunks, b"".join(got[0]), got[1], b"".join(whole[0]), whole[1]),
                                {"suite": "chan-chunking/unit", "unit_read": [x.hex() for x in chunks]})
                            found = True
                            break
                    if found:
                        break
                if found:
                    break
    stats["unit_disagreements"] = None if ubad is None else len(ubad)
    untidy = None
    if gen_ok and ok:
        singles = [t for t, m in zip(model.terms, model.meta) if len(m["scenario"]["ops"]) == 1 and m["policy"] == ["whole"] and m["label"] == "base"]
        u, _ = common.eval_cases(rep.workdir, "tidy_c02", model.header(), singles, "tidy_of", shard=4)
        untidy = None if u is None else len(u)
        stats["single_op_whole_runs"] = len(singles)
        stats["of_which_not_tidy"] = untidy
    for msg in stats["inexpr"]:
        rep.broken.append(msg)

    rep.coverage["correspondence"] = {
        "suite": "chan-chunking", "implementation_runs": stats["runs"], "decorated_runs": stats["decorated_runs"],
        "scenarios": stats["scenarios"], "stream_lengths": {"min": min(stats["streams"]), "max": max(stats["streams"]),
                                                              "mean": round(sum(stats["streams"]) / len(stats["streams"]), 1)},
        "completion_kinds_of_last_op": stats["kinds"], "decoration_families": stats["families"],
        "model_cases": stats["model_cases"], "model_disagreements": None if bad is None else len(bad),
        "unit_cases": stats.get("unit_cases"), "unit_disagreements": stats.get("unit_disagreements"),
        "oracle_failures": len(viol), "tidy": {k: stats[k] for k in ("single_op_whole_runs", "of_which_not_tidy") if k in stats}}
    rep.coverage["generated_from"] = common.source_hashes(SOURCES)
    rep.coverage["generated"] = info
    rep.rule = ("scenario = causal device (CLI of 4 vendors' prompt shapes incl. two-line junos prompts matched by a two-line pattern, "
                "telnet / ssh login front ends incl. rejected credentials = client message + re-asked prompt in one answer, client warning "
                "in front of the first prompt) + operation history "
                "(get_prompt, send_input strict/rough/eager/eager_input, send_inputs_interact, in-channel logins) + decoration "
                "(CR and each of %d sequence families at every character boundary; several at once; rough-mode extras) + segmentation "
                "(whole, 1-/2-/7-byte reads, every single cut, %srandom cuts; cuts inside inserted sequences); both stacks; "
                "non-trivial = more reads than operations; distinct = (scenario, decoration, stack, segmentation)"
                % (len(fams), "every pair of cuts for the first scenarios (streams <= 120 B), " if thorough else ""))

    # 5. verdicts
    seen = set()
    for v in viol:
        key = (v["scenario"]["name"], v["label"].split("@")[0], v["stack"])
        if key in seen or len(seen) >= 6:
            continue
        seen.add(key)
        rep.violation("chunking/decoration changes the outcome: scenario %s [%s] stack %s policy %s: got %s, reference %s" % (
            v["scenario"]["name"], v["label"], v["stack"], v["policy"], str(v["got"])[:300], str(v["want"])[:300]),
            {"suite": "chan-chunking", "scenario": v["scenario"], "stacks": [v["stack"]], "policy": v["policy"],
             "reference": v.get("reference") or reference_of(v, scenarios), "expect": v.get("expect"),
             "rerun": "./check C02 --replay <this file>"})
    if bad is None:
        rep.broken.append("correspondence chan-chunking (model evaluation failed)")
        rep.notes.append(log)
    elif bad:
        rep.broken.append("correspondence chan-chunking: model differs from implementation on %d of %d runs" % (len(bad), len(model.terms)))
        for ix in bad[:3]:
            m = model.meta[ix]
            rep.notes.append("disagreement: scenario %s [%s] stack %s policy %s" % (m["scenario"]["name"], m["label"], m["stack"], m["policy"]))
        if not viol:
            # search for a failing input of the property near the disagreements: every single and double cut, 1-byte reads
            found = 0
            for ix in bad[:4]:
                m = model.meta[ix]
                ob = L.run_scenario(m["scenario"], m["stack"], ("whole",))
                n = len(ob["stream"])
                pl = [("bytes", 1)] + [("cuts", [c]) for c in range(1, n)]
                if n <= 80:
                    pl += [("cuts", [a, b]) for a, b in itertools.combinations(range(1, n), 2)]
                ref_scn = reference_of(m, scenarios)
                ref = L.canon(L.run_scenario(ref_scn, m["stack"], ("whole",)))
                for pol in pl:
                    c = L.canon(L.run_scenario(m["scenario"], m["stack"], pol))
                    if c != ref:
                        rep.violation("chunking/decoration changes the outcome (found by search near a model disagreement): scenario %s stack %s policy %s" % (
                            m["scenario"]["name"], m["stack"], list(pol)),
                            {"suite": "chan-chunking", "scenario": m["scenario"], "stacks": [m["stack"]], "policy": list(pol),
                             "reference": ref_scn})
                        found += 1
                        break
                if found:
                    break
    L.close_loop()


def reference_of(v, scenarios):
    """the undecorated scenario a decorated one is compared with (for rough matching: its strict twin)"""
    name = v["scenario"]["name"]
    for s in scenarios:
        if s["name"] == name:
            if s["cfg"]["rough"]:
                s = copy.deepcopy(s)
                s["cfg"]["rough"] = False
            return s
    return v["scenario"]


def replay(path):
    from . import c02_lib as L
    r = json.load(open(path))
    if "unit_read" in r:
        chunks = [bytes.fromhex(x) for x in r["unit_read"]]
        whole, got = real_reads([b"".join(chunks)]), real_reads(chunks)
        print("chunks %r -> %r held %r ; one read -> %r held %r" % (chunks, got[0], got[1], whole[0], whole[1]))
        bad = (b"".join(whole[0]), whole[1]) != (b"".join(got[0]), got[1])
        print("property FAILS on this input" if bad else "property holds on this input")
        return 1 if bad else 0
    if "scenario" not in r:
        print("nothing to replay (no concrete input): %s" % r.get("what"))
        return 1
    fails = False
    for stack in r.get("stacks", ["sync", "async"]):
        ref_scn = r.get("reference") or r["scenario"]
        ref = L.canon(L.run_scenario(ref_scn, stack, tuple(r.get("reference_policy", ["whole"]))))
        ob = L.run_scenario(r["scenario"], stack, tuple(r["policy"]))
        got = L.canon(ob)
        print("[%s] policy %s" % (stack, r["policy"]))
        if r.get("expect"):
            kinds = [o["kind"] for o in ob["ops"]]
            print("  completion expected %s observed %s" % (r["expect"], kinds))
            if kinds != r["expect"]:
                fails = True
        print("  reference (whole reads, undecorated):", ref)
        print("  observed                            :", got)
        if got != ref:
            fails = True
    L.close_loop()
    print("property FAILS on this input" if fails else "property holds on this input")
    return 1 if fails else 0


MANIFEST = {
    "category": "proof",
    "text": "Coq theorems (props/C02.v, axiom-free): read() — CR removal, carry-over of a trailing partial escape sequence, ANSI stripping — "
            "is a function of the byte stream for EVERY chunk list (cuts inside a sequence, 1-byte reads, CRs anywhere included); a text decorated "
            "with well-formed CSI/SGR/OSC-title/ESC 7,8,M,E sequences at any character boundary reads back as exactly the text; the model's strip IS "
            "re.sub of the source's ANSI_ESCAPE_PATTERN (pattern regenerated and compared on every run); every accumulate-and-match loop "
            "(_read_until_input strict+rough, _read_until_prompt, _read_until_explicit_prompt, get_prompt, the login loops) has a canonical form and "
            "returns the same buffer under all segmentations when its test does not hold at a proper prefix of the stream; echo tests are monotone so "
            "completion never depends on chunking; whole operations (get_prompt, send_input, send_inputs_interact, in-channel logins as programs) "
            "against ANY causal device give the same results, write log and completion for ALL read schedules under the computed side condition "
            "`tidy`; the prompt pattern is an arbitrary compiled regex searched in the WHOLE accumulated buffer, so prompts spanning two lines "
            "(junos `{master:0}\\nuser@host>`) are covered by the same theorems, and the ssh login program looks for the client's error texts "
            "BEFORE the credential prompts of the same buffer (a message followed by a re-asked prompt fails the login under every "
            "segmentation); rough matching = subsequence (iff) and monotone. Refuted with witnesses: the unconditional statements (8-bit 0x9B/0x9D "
            "prefixes; sequences longer than the 64-byte hold-back; a prompt-like line prefix at a read boundary) and the superseded code (per-chunk "
            "stripping, leftmost hold-back, `output in input_`). A prompt's optional trailing blank (`#\\s?$`) can stay unread under some chunkings: "
            "only surrounding white space of raw_result may differ, which the oracle tolerates. Tie: Gen_Chunking.v + correspondence of the model with "
            "both real channels on the same schedules; independent oracle: results, write logs, completion equal across segmentations/decorations.",
    "note": "Trusted: Coq kernel + vm_compute; hand model coq/model/Chunking.v (tied by the chan-chunking correspondence on every run; strip also by "
            "theorems to the generated patterns: strip = re.sub of ANSI_ESCAPE_PATTERN, held-back language = ANSI_ESCAPE_PARTIAL_PATTERN; the scan order of ANSI_ESCAPE_OR_PARTIAL_PATTERN by a parse-tree check in the translator + correspondence); gen/gen_chunking.py + gen/regex.py; RegexPrio engine's "
            "agreement with CPython re (regex-conformance of other checks + this correspondence); harness/simdevice.py, LoginDev, scripted transports. "
            "Section variables: the device (state type D, feed) in exec theorems. Not modelled: timeouts, the time-driven return of the telnet login "
            "loop (disabled by a large timeout_ops), _read_until_prompt_or_time, channel logging. Known findings: prompt-like line prefix at a read "
            "boundary; 0x9B/0x9D sequences; sequences with more than 64 parameter bytes cut beyond the bound; 'login:' at a line end inside a MOTD. "
            "Two-line prompts and rejected-credential logins (round 4) are inside the model: the junos privilege patterns go through the "
            "regex translator unchanged and p_get_prompt / p_send_input / p_interact / p_auth are run on the same schedules (no oracle-only "
            "scenarios); the order 'messages, then prompts' of p_auth is tied to the source by that correspondence only (not by the translator). "
            "Rough mode: extras must precede the last echoed character (what a device prints after it cannot be told from command output); the "
            "absolute part of the oracle is only the expected completion kind and 'rough with an exact echo = strict' (exact results are C01's).",
    "technique": "Coq proof by induction over chunk lists / read schedules with 'first prefix of the stream satisfying Q' as canonical form, a one-pass "
                 "stream walk equivalent to the two-pass code, regex-engine equivalence proof for the ANSI pattern + vm_compute correspondence against both channels",
}
