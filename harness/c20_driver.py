"""C20 helper — whole sessions through the REAL Driver.open() / AsyncDriver.open() (and the generic drivers that
inherit them) over a scripted transport: banner + in-channel login dialogue (telnet, sync and asyncio; system-style
ssh password / passphrase prompts, sync) + motd + first prompt + on_open + operations + close.

The transport object is the one the driver built (TelnetTransport / SystemTransport / AsynctelnetTransport); only its
five I/O entry points (open / read / write / close / isalive) are replaced, so nothing touches the network.  A read
with nothing left raises Starved (a BaseException: "would block for ever"); timeout_ops = 0 so no timer runs.
Observers: every byte the transport served from the first read of the session to close (the wire record), the moment
BaseChannel.open() ran relative to the reads, and the channel-log sink AFTER close (path, True = ./scrapli_channel.log,
a BytesIO that keeps its value when the channel closes it)."""
import asyncio
import io
import os
import shutil

from . import common

COMBOS = [("sync", "telnet"), ("sync", "system"), ("asyncio", "asynctelnet")]
PROMPTS = [b"router#", b"router>", b"sw-1(config)#", b"host.lab:/$"]
BANNERS = [b"", b"\r\nUser Access Verification\r\n\r\n", b"\x1b[2J\x1b[H*** lab \xfe\xff ***\r\n",
           b"Trying 10.0.0.1...\r\nConnected.\r\nEscape character is '^]'.\r\n", b"100% 'authorized' use only\r\r\n",
           b"\xff\xfb\x01\xff\xfb\x03\r\n\x00"]
MOTDS = [b"", b"last seen from 10.0.0.1 -- 100% 'ok' \xfe\r\n", b"\x1b[1;32mwelcome\x1b[0m\r\n\r\n", b"line1\rline2\r\n"]
OUTPUTS = [b"line1\r\nline2", b"\x1b[1mbold\x1b[0m text", b"", b"a\rb", b"50% 'done' \xc3\x28"]
CMDS = ["show version", "terminal length 0", "x"]


class KeepBytesIO(io.BytesIO):
    """a BytesIO (BaseChannel.open takes it as the sink) that remembers what it held when the channel closed it"""
    kept = None

    def close(self):
        if not self.closed:
            self.kept = self.getvalue()
        super().close()


class VirtualTimeLoop(asyncio.SelectorEventLoop):
    """an event loop whose clock is virtual: when every task waits for a timer (AsyncChannel's login loops
    `await asyncio.sleep(0.1)` after every read) the clock jumps to that timer instead of the process sleeping.
    Deterministic and without wall-clock waits; the code under test is untouched."""

    def __init__(self):
        super().__init__()
        self._vt = 0.0
        real_select = self._selector.select

        def select(timeout=None):
            if timeout is None:
                raise RuntimeError("event loop would block for ever")
            if timeout > 0:
                self._vt += timeout
            return real_select(0)
        self._selector.select = select

    def time(self):
        return self._vt


def _cut(rng, b, maxcuts=3):
    if len(b) < 2:
        return [b] if b else []
    cuts = sorted(set(rng.randrange(1, len(b)) for _ in range(rng.choice([0, 0, 1, 2, maxcuts]))))
    return common.cut(b, cuts)


def _op_response(rng, op, prompt):
    """the phases of the device's answer (it waits for the return after echoing the input)"""
    if op[0] == "get_prompt":
        return [b"\r\n" + prompt]
    if op[0] in ("send_input", "send_command"):
        return [op[1].encode(), b"\r\n" + rng.choice(OUTPUTS) + b"\r\n" + prompt]
    raise ValueError(op)


def gen_driver_case(rng, i, gen_chunk):
    stack, transport = COMBOS[i % len(COMBOS)]
    driver = rng.choice(["base", "base", "generic"])
    bypass = rng.random() < 0.12
    prompt = rng.choice(PROMPTS)
    user, password = rng.choice(["scrapli", "u"]), rng.choice(["secret", "p%'w"])
    fault = rng.choice(["none"] * 8 + ["silent", "refused"])
    phases = []                       # each phase: bytes the device sends before it waits for input again
    if not bypass:
        banner, motd = rng.choice(BANNERS), rng.choice(MOTDS)
        if "telnet" in transport:
            phases.append(banner + rng.choice([b"Username: ", b"login: ", b"Username:"]))
            echo = rng.choice([b"", user.encode() + b"\r\n"])
            phases.append(echo + rng.choice([b"Password: ", b"password:"]))
        else:
            warn = rng.choice([b"", b"Warning: Permanently added 'dev1' (ED25519) to the list of known hosts.\r\n"])
            kind = rng.choice(["password", "password", "passphrase", "both", "key"])
            if kind in ("passphrase", "both"):
                phases.append(warn + banner + b"Enter passphrase for key '/home/u/.ssh/id_ed25519': ")
                warn = banner = b""
            if kind in ("password", "both"):
                phases.append(warn + banner + rng.choice([user.encode() + b"@dev1's password: ", b"Password: "]))
                warn = banner = b""
            motd = warn + banner + motd
        if fault == "refused":
            again = b"\r\n% Login invalid\r\n\r\n" if "telnet" in transport else b"\r\nPermission denied, please try again.\r\n"
            phases += [again + b"Password: ", again + b"Password: "]
        else:
            phases.append(b"\r\n" + motd + prompt)
    on_open = []
    if rng.random() < 0.35:
        on_open = [rng.choice([["send_input", "terminal length 0"], ["get_prompt"]])]
    ops = []
    for _ in range(rng.choice([0, 1, 1, 2, 3])):
        k = rng.choice(["get_prompt", "send_input", "read"] + (["send_command"] if driver == "generic" else []))
        ops.append([k] if k in ("get_prompt", "read") else [k, rng.choice(CMDS)])
    chunks = []
    for p in phases:
        chunks += _cut(rng, p)
    n_login = len(chunks)
    if fault != "refused":
        for op in on_open + ops:
            if op[0] == "read":
                chunks.append(gen_chunk(rng))
            else:
                for ph in _op_response(rng, op, prompt):
                    chunks += _cut(rng, ph, 6)
    if fault == "silent" and n_login:
        chunks = chunks[:rng.randrange(0, n_login)]        # the device goes silent somewhere inside the login
    sink = rng.choice(["path", "path", "true", "bytesio", "bytesio", "bytesio", "none"])
    has_existing = rng.random() < 0.4
    existing = rng.choice([b"old\r\n", b"\x1b[0mprev", b"x"]) if has_existing else b""
    return {"stack": stack, "transport": transport, "driver": driver, "bypass": bypass, "fault": fault,
            "user": user, "password": password, "host": rng.choice(["dev1", "10.0.0.1"]), "port": rng.choice([22, 23, 2323]),
            "uid": rng.choice(["", "u1"]), "sink": sink, "append": rng.random() < 0.5, "has_existing": has_existing,
            "existing": existing.hex(), "chunks": [c.hex() for c in chunks], "login_chunks": n_login, "on_open": on_open, "ops": ops}


def _driver_class(case):
    if case["stack"] == "sync":
        if case["driver"] == "generic":
            from scrapli.driver.generic.sync_driver import GenericDriver
            return GenericDriver
        from scrapli.driver.base.sync_driver import Driver
        return Driver
    if case["driver"] == "generic":
        from scrapli.driver.generic.async_driver import AsyncGenericDriver
        return AsyncGenericDriver
    from scrapli.driver.base.async_driver import AsyncDriver
    return AsyncDriver


def run_driver_impl(case, workdir):
    from .c20 import Starved, _Quiet, _tmp
    d = _tmp(workdir, "drv")
    os.makedirs(d, exist_ok=True)
    chunks = [bytes.fromhex(c) for c in case["chunks"]]
    existing = bytes.fromhex(case["existing"])
    sink, mode = case["sink"], ("append" if case["append"] else "write")
    path = bio = None
    if sink == "path":
        path = os.path.join(d, "my channel.log")
        arg = path
    elif sink == "true":
        path = os.path.join(d, "scrapli_channel.log")
        arg = True
    elif sink == "bytesio":
        bio = KeepBytesIO(existing)
        bio.seek(0, 2)
        arg = bio
    else:
        arg = False
    if path is not None and case["has_existing"]:
        with open(path, "wb") as f:
            f.write(existing)
    sync = case["stack"] == "sync"
    events, res = [], []

    def nxt():
        if not chunks:
            raise Starved()
        c = chunks.pop(0)
        events.append(("r", c))
        return c

    def one_sync(conn, op):
        if op[0] == "read":
            return conn.channel.read()
        if op[0] == "get_prompt":
            return conn.channel.get_prompt().encode()
        if op[0] == "send_input":
            return conn.channel.send_input(op[1])[1]
        if op[0] == "send_command":
            return conn.send_command(op[1]).raw_result
        raise ValueError(op)

    async def one_async(conn, op):
        if op[0] == "read":
            return await conn.channel.read()
        if op[0] == "get_prompt":
            return (await conn.channel.get_prompt()).encode()
        if op[0] == "send_input":
            return (await conn.channel.send_input(op[1]))[1]
        if op[0] == "send_command":
            return (await conn.send_command(op[1])).raw_result
        raise ValueError(op)

    def on_open_sync(conn):
        for op in case["on_open"]:
            one_sync(conn, tuple(op))

    async def on_open_async(conn):
        for op in case["on_open"]:
            await one_async(conn, tuple(op))

    def note(name, fn):
        try:
            r = fn()
            res.append((name, r.hex() if isinstance(r, bytes) else None))
        except Starved:
            res.append((name, "Starved"))
        except Exception as e:  # noqa
            res.append((name, type(e).__name__))

    async def anote(name, coro):
        try:
            r = await coro
            res.append((name, r.hex() if isinstance(r, bytes) else None))
        except Starved:
            res.append((name, "Starved"))
        except Exception as e:  # noqa
            res.append((name, type(e).__name__))

    cwd = os.getcwd()
    os.chdir(d)
    exc = None
    try:
        with _Quiet():
            conn = _driver_class(case)(
                host=case["host"], port=case["port"], auth_username=case["user"], auth_password=case["password"],
                auth_private_key_passphrase=case["password"], auth_strict_key=False, auth_bypass=case["bypass"],
                transport=case["transport"], timeout_ops=0, timeout_transport=0, timeout_socket=0,
                channel_log=arg, channel_log_mode=mode, logging_uid=case["uid"],
                on_open=(on_open_sync if sync else on_open_async) if case["on_open"] else None)
            tr = conn.transport
            if sync:
                tr.open = lambda: events.append(("topen", b""))
                tr.read = nxt
            else:
                async def _topen():
                    events.append(("topen", b""))

                async def _tread():
                    return nxt()
                tr.open, tr.read = _topen, _tread
            tr.write = lambda channel_input: events.append(("w", bytes(channel_input)))
            tr.close = lambda: events.append(("tclose", b""))
            tr.isalive = lambda: True
            real_chan_open = conn.channel.open

            def observed_chan_open():
                events.append(("open", b""))
                return real_chan_open()
            conn.channel.open = observed_chan_open
            if sync:
                note("open", conn.open)
                for op in case["ops"]:
                    note(op[0], lambda op=op: one_sync(conn, tuple(op)))
                note("close", conn.close)
            else:
                async def go():
                    await anote("open", conn.open())
                    for op in case["ops"]:
                        await anote(op[0], one_async(conn, tuple(op)))
                    await anote("close", conn.close())
                loop = VirtualTimeLoop()
                try:
                    loop.run_until_complete(go())
                finally:
                    loop.close()
    except Exception as e:  # noqa
        exc = type(e).__name__
    finally:
        os.chdir(cwd)
    got = None
    if bio is not None:
        got = bio.kept if bio.closed else bio.getvalue()
    elif path is not None and os.path.exists(path):
        got = open(path, "rb").read()
    stray = sorted(f for f in os.listdir(d) if path is None or f != os.path.basename(path))
    shutil.rmtree(d, ignore_errors=True)
    served = [c for k, c in events if k == "r"]
    first_read = next((ix for ix, e in enumerate(events) if e[0] == "r"), None)
    opens = [ix for ix, e in enumerate(events) if e[0] == "open"]
    return {"sink": None if got is None else got.hex(), "served": b"".join(served).hex(), "served_chunks": [c.hex() for c in served],
            "events": [(k, c.hex()) for k, c in events], "results": res, "exc": exc, "stray_files": stray,
            "chan_opens": len(opens), "open_before_first_read": bool(opens) and (first_read is None or opens[0] < first_read),
            "sink_closed": None if bio is None else bio.closed}


def oracle_driver(case, obs):
    """the property on the whole session: the sink after close holds every byte the transport served — from the first
    byte of the session (banner, login dialogue) to close — with CRs removed, in order, once"""
    if obs["exc"]:
        return "session set-up raised %s" % obs["exc"]
    close = [r for r in obs["results"] if r[0] == "close"]
    if not close or close[0][1] is not None:
        return "close() raised %s" % (close[0][1] if close else "?")
    served = bytes.fromhex(obs["served"])
    existing = bytes.fromhex(case["existing"])
    if case["sink"] == "none":
        if obs["sink"] is not None or obs["stray_files"]:
            return "a channel log was written although channel_log is off"
        return None
    start = existing if (case["sink"] == "bytesio" or (case["append"] and case["has_existing"])) else b""
    want = start + served.replace(b"\r", b"")
    if obs["sink"] is None:
        return "no channel log was written although the device served %d bytes" % len(served)
    got = bytes.fromhex(obs["sink"])
    if got != want:
        if want.endswith(got[len(start):]) and got.startswith(start) and len(got) < len(want):
            return ("the first %d bytes read from the device in this session (login / banner) are missing from the channel log: "
                    "log %r, served with CRs removed %r" % (len(want) - len(got), got[:80], want[:80]))
        return "channel log %r is not the bytes served during the whole session with CRs removed %r" % (got[:80], want[:80])
    if obs["stray_files"]:
        return "unexpected files %r" % obs["stray_files"]
    return None
