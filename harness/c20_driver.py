"""C20 helper — whole sessions through the REAL Driver.open() / AsyncDriver.open() (and the generic drivers that
inherit them) over a scripted transport: banner + in-channel login dialogue (telnet, sync and asyncio; system-style
ssh password / passphrase prompts, sync) + motd + first prompt + on_open + operations + close.

The transport object is the one the driver built (TelnetTransport / SystemTransport / AsynctelnetTransport); only its
five I/O entry points (open / read / write / close / isalive) are replaced, so nothing touches the network.  A read
with nothing left raises Starved (a BaseException: "would block for ever"); timeout_ops = 0 so no timer runs.
Observers: every byte the transport served from the first read of the session to close (the wire record), the moment
BaseChannel.open() ran relative to the reads, and the channel-log sink AFTER close (path, True = ./scrapli_channel.log,
a BytesIO that keeps its value when the channel closes it)."""
import asyncio
import io
import os
import re
import shutil

from . import common

COMBOS = [("sync", "telnet"), ("sync", "system"), ("asyncio", "asynctelnet")]
PROMPTS = [b"router#", b"router>", b"sw-1(config)#", b"host.lab:/$"]
BANNERS = [b"", b"\r\nUser Access Verification\r\n\r\n", b"\x1b[2J\x1b[H*** lab \xfe\xff ***\r\n",
           b"Trying 10.0.0.1...\r\nConnected.\r\nEscape character is '^]'.\r\n", b"100% 'authorized' use only\r\r\n",
           b"\xff\xfb\x01\xff\xfb\x03\r\n\x00"]
MOTDS = [b"", b"last seen from 10.0.0.1 -- 100% 'ok' \xfe\r\n", b"\x1b[1;32mwelcome\x1b[0m\r\n\r\n", b"line1\rline2\r\n"]
OUTPUTS = [b"line1\r\nline2", b"\x1b[1mbold\x1b[0m text", b"", b"a\rb", b"50% 'done' \xc3\x28"]
CMDS = ["show version", "terminal length 0", "x"]


class KeepBytesIO(io.BytesIO):
    """a BytesIO (BaseChannel.open takes it as the sink) that remembers what it held when the channel closed it"""
    kept = None

    def close(self):
        if not self.closed:
            self.kept = self.getvalue()
        super().close()


class VirtualTimeLoop(asyncio.SelectorEventLoop):
    """an event loop whose clock is virtual: when every task waits for a timer (AsyncChannel's login loops
    `await asyncio.sleep(0.1)` after every read) the clock jumps to that timer instead of the process sleeping.
    Deterministic and without wall-clock waits; the code under test is untouched."""

    def __init__(self):
        super().__init__()
        self._vt = 0.0
        real_select = self._selector.select

        def select(timeout=None):
            if timeout is None:
                raise RuntimeError("event loop would block for ever")
            if timeout > 0:
                self._vt += timeout
            return real_select(0)
        self._selector.select = select

    def time(self):
        return self._vt


def _cut(rng, b, maxcuts=3):
    if len(b) < 2:
        return [b] if b else []
    cuts = sorted(set(rng.randrange(1, len(b)) for _ in range(rng.choice([0, 0, 1, 2, maxcuts]))))
    return common.cut(b, cuts)


def _op_response(rng, op, prompt):
    """the phases of the device's answer (it waits for the return after echoing the input)"""
    if op[0] == "get_prompt":
        return [b"\r\n" + prompt]
    if op[0] in ("send_input", "send_command"):
        return [op[1].encode(), b"\r\n" + rng.choice(OUTPUTS) + b"\r\n" + prompt]
    raise ValueError(op)


def gen_driver_case(rng, i, gen_chunk):
    stack, transport = COMBOS[i % len(COMBOS)]
    driver = rng.choice(["base", "base", "generic"])
    bypass = rng.random() < 0.12
    prompt = rng.choice(PROMPTS)
    user, password = rng.choice(["scrapli", "u"]), rng.choice(["secret", "p%'w"])
    fault = rng.choice(["none"] * 8 + ["silent", "refused"])
    phases = []                       # each phase: bytes the device sends before it waits for input again
    if not bypass:
        banner, motd = rng.choice(BANNERS), rng.choice(MOTDS)
        if "telnet" in transport:
            phases.append(banner + rng.choice([b"Username: ", b"login: ", b"Username:"]))
            echo = rng.choice([b"", user.encode() + b"\r\n"])
            phases.append(echo + rng.choice([b"Password: ", b"password:"]))
        else:
            warn = rng.choice([b"", b"Warning: Permanently added 'dev1' (ED25519) to the list of known hosts.\r\n"])
            kind = rng.choice(["password", "password", "passphrase", "both", "key"])
            if kind in ("passphrase", "both"):
                phases.append(warn + banner + b"Enter passphrase for key '/home/u/.ssh/id_ed25519': ")
                warn = banner = b""
            if kind in ("password", "both"):
                phases.append(warn + banner + rng.choice([user.encode() + b"@dev1's password: ", b"Password: "]))
                warn = banner = b""
            motd = warn + banner + motd
        if fault == "refused":
            again = b"\r\n% Login invalid\r\n\r\n" if "telnet" in transport else b"\r\nPermission denied, please try again.\r\n"
            phases += [again + b"Password: ", again + b"Password: "]
        else:
            phases.append(b"\r\n" + motd + prompt)
    on_open = []
    if rng.random() < 0.35:
        on_open = [rng.choice([["send_input", "terminal length 0"], ["get_prompt"]])]
    ops = []
    for _ in range(rng.choice([0, 1, 1, 2, 3])):
        k = rng.choice(["get_prompt", "send_input", "read"] + (["send_command"] if driver == "generic" else []))
        ops.append([k] if k in ("get_prompt", "read") else [k, rng.choice(CMDS)])
    chunks = []
    for p in phases:
        chunks += _cut(rng, p)
    n_login = len(chunks)
    if fault != "refused":
        for op in on_open + ops:
            if op[0] == "read":
                chunks.append(gen_chunk(rng))
            else:
                for ph in _op_response(rng, op, prompt):
                    chunks += _cut(rng, ph, 6)
    if fault == "silent" and n_login:
        chunks = chunks[:rng.randrange(0, n_login)]        # the device goes silent somewhere inside the login
    sink = rng.choice(["path", "path", "true", "bytesio", "bytesio", "bytesio", "none"])
    has_existing = rng.random() < 0.4
    existing = rng.choice([b"old\r\n", b"\x1b[0mprev", b"x"]) if has_existing else b""
    return {"stack": stack, "transport": transport, "driver": driver, "bypass": bypass, "fault": fault,
            "user": user, "password": password, "host": rng.choice(["dev1", "10.0.0.1"]), "port": rng.choice([22, 23, 2323]),
            "uid": rng.choice(["", "u1"]), "sink": sink, "append": rng.random() < 0.5, "has_existing": has_existing,
            "existing": existing.hex(), "chunks": [c.hex() for c in chunks], "login_chunks": n_login, "on_open": on_open, "ops": ops}


def _driver_class(case):
    if case["stack"] == "sync":
        if case["driver"] == "generic":
            from scrapli.driver.generic.sync_driver import GenericDriver
            return GenericDriver
        from scrapli.driver.base.sync_driver import Driver
        return Driver
    if case["driver"] == "generic":
        from scrapli.driver.generic.async_driver import AsyncGenericDriver
        return AsyncGenericDriver
    from scrapli.driver.base.async_driver import AsyncDriver
    return AsyncDriver


def run_driver_impl(case, workdir):
    from .c20 import Starved, _Quiet, _tmp
    d = _tmp(workdir, "drv")
    os.makedirs(d, exist_ok=True)
    chunks = [bytes.fromhex(c) for c in case["chunks"]]
    existing = bytes.fromhex(case["existing"])
    sink, mode = case["sink"], ("append" if case["append"] else "write")
    path = bio = None
    if sink == "path":
        path = os.path.join(d, "my channel.log")
        arg = path
    elif sink == "true":
        path = os.path.join(d, "scrapli_channel.log")
        arg = True
    elif sink == "bytesio":
        bio = KeepBytesIO(existing)
        bio.seek(0, 2)
        arg = bio
    else:
        arg = False
    if path is not None and case["has_existing"]:
        with open(path, "wb") as f:
            f.write(existing)
    sync = case["stack"] == "sync"
    events, res = [], []

    def nxt():
        if not chunks:
            raise Starved()
        c = chunks.pop(0)
        events.append(("r", c))
        return c

    def one_sync(conn, op):
        if op[0] == "read":
            return conn.channel.read()
        if op[0] == "get_prompt":
            return conn.channel.get_prompt().encode()
        if op[0] == "send_input":
            return conn.channel.send_input(op[1])[1]
        if op[0] == "send_command":
            return conn.send_command(op[1]).raw_result
        raise ValueError(op)

    async def one_async(conn, op):
        if op[0] == "read":
            return await conn.channel.read()
        if op[0] == "get_prompt":
            return (await conn.channel.get_prompt()).encode()
        if op[0] == "send_input":
            return (await conn.channel.send_input(op[1]))[1]
        if op[0] == "send_command":
            return (await conn.send_command(op[1])).raw_result
        raise ValueError(op)

    def on_open_sync(conn):
        for op in case["on_open"]:
            one_sync(conn, tuple(op))

    async def on_open_async(conn):
        for op in case["on_open"]:
            await one_async(conn, tuple(op))

    def note(name, fn):
        try:
            r = fn()
            res.append((name, r.hex() if isinstance(r, bytes) else None))
        except Starved:
            res.append((name, "Starved"))
        except Exception as e:  # noqa
            res.append((name, type(e).__name__))

    async def anote(name, coro):
        try:
            r = await coro
            res.append((name, r.hex() if isinstance(r, bytes) else None))
        except Starved:
            res.append((name, "Starved"))
        except Exception as e:  # noqa
            res.append((name, type(e).__name__))

    cwd = os.getcwd()
    os.chdir(d)
    exc = None
    try:
        with _Quiet():
            conn = _driver_class(case)(
                host=case["host"], port=case["port"], auth_username=case["user"], auth_password=case["password"],
                auth_private_key_passphrase=case["password"], auth_strict_key=False, auth_bypass=case["bypass"],
                transport=case["transport"], timeout_ops=0, timeout_transport=0, timeout_socket=0,
                channel_log=arg, channel_log_mode=mode, logging_uid=case["uid"],
                on_open=(on_open_sync if sync else on_open_async) if case["on_open"] else None)
            tr = conn.transport
            if sync:
                tr.open = lambda: events.append(("topen", b""))
                tr.read = nxt
            else:
                async def _topen():
                    events.append(("topen", b""))

                async def _tread():
                    return nxt()
                tr.open, tr.read = _topen, _tread
            tr.write = lambda channel_input: events.append(("w", bytes(channel_input)))
            tr.close = lambda: events.append(("tclose", b""))
            tr.isalive = lambda: True
            real_chan_open = conn.channel.open

            def observed_chan_open():
                events.append(("open", b""))
                return real_chan_open()
            conn.channel.open = observed_chan_open
            if sync:
                note("open", conn.open)
                for op in case["ops"]:
                    note(op[0], lambda op=op: one_sync(conn, tuple(op)))
                note("close", conn.close)
            else:
                async def go():
                    await anote("open", conn.open())
                    for op in case["ops"]:
                        await anote(op[0], one_async(conn, tuple(op)))
                    await anote("close", conn.close())
                loop = VirtualTimeLoop()
                try:
                    loop.run_until_complete(go())
                finally:
                    loop.close()
    except Exception as e:  # noqa
        exc = type(e).__name__
    finally:
        os.chdir(cwd)
    got = None
    if bio is not None:
        got = bio.kept if bio.closed else bio.getvalue()
    elif path is not None and os.path.exists(path):
        got = open(path, "rb").read()
    stray = sorted(f for f in os.listdir(d) if path is None or f != os.path.basename(path))
    shutil.rmtree(d, ignore_errors=True)
    served = [c for k, c in events if k == "r"]
    first_read = next((ix for ix, e in enumerate(events) if e[0] == "r"), None)
    opens = [ix for ix, e in enumerate(events) if e[0] == "open"]
    return {"sink": None if got is None else got.hex(), "served": b"".join(served).hex(), "served_chunks": [c.hex() for c in served],
            "events": [(k, c.hex()) for k, c in events], "results": res, "exc": exc, "stray_files": stray,
            "chan_opens": len(opens), "open_before_first_read": bool(opens) and (first_read is None or opens[0] < first_read),
            "sink_closed": None if bio is None else bio.closed}


def oracle_driver(case, obs):
    """the property on the whole session: the sink after close holds every byte the transport served — from the first
    byte of the session (banner, login dialogue) to close — with CRs removed, in order, once"""
    if obs["exc"]:
        return "session set-up raised %s" % obs["exc"]
    close = [r for r in obs["results"] if r[0] == "close"]
    if not close or close[0][1] is not None:
        return "close() raised %s" % (close[0][1] if close else "?")
    served = bytes.fromhex(obs["served"])
    existing = bytes.fromhex(case["existing"])
    if case["sink"] == "none":
        if obs["sink"] is not None or obs["stray_files"]:
            return "a channel log was written although channel_log is off"
        return None
    start = existing if (case["sink"] == "bytesio" or (case["append"] and case["has_existing"])) else b""
    want = start + served.replace(b"\r", b"")
    if obs["sink"] is None:
        return "no channel log was written although the device served %d bytes" % len(served)
    got = bytes.fromhex(obs["sink"])
    if got != want:
        if want.endswith(got[len(start):]) and got.startswith(start) and len(got) < len(want):
            return ("the first %d bytes read from the device in this session (login / banner) are missing from the channel log: "
                    "log %r, served with CRs removed %r" % (len(want) - len(got), got[:80], want[:80]))
        return "channel log %r is not the bytes served during the whole session with CRs removed %r" % (got[:80], want[:80])
    if obs["stray_files"]:
        return "unexpected files %r" % obs["stray_files"]
    return None


# ------------------------------------------------------------------------------------------------
# suite commandeer : driver A opens the connection and reads, driver B commandeers it, both read further, both close.
#
# What the unchanged tree does (Driver.commandeer / AsyncDriver.commandeer), the reference:
#   * B takes A's transport and loggers; B.channel.open() is NOT called, so whatever channel_log B was constructed with
#     (path, True, BytesIO, and its mode) is never opened, created, truncated or written by the commandeering;
#   * if A's channel has an open channel log (A.channel.channel_log is not None) B.channel.channel_log becomes that very
#     object: from then on reads through A and through B both append to A's sink, through one handle, in wire order;
#     if A has no channel log, B.channel.channel_log stays None and reads through B are not logged at all;
#   * closing either driver closes the shared sink (and the transport); closing the second one is harmless.
# The oracle does not assume WHICH sink a read must go to beyond that: it observes, at every transport read, which
# configured destination is the open channel log of the channel object that is reading (the "active" sink of that read),
# and demands of every configured destination, after both drivers are closed: what it kept from before the session
# (BytesIO value; file content if the FIRST open of the session was in append mode; the untouched file if nobody opened
# it) followed by exactly the bytes of the reads it was the active sink of, CRs removed, in order, once.  And a
# connection that had a channel log before the commandeering keeps one: no read after it is logged nowhere.
# ------------------------------------------------------------------------------------------------
CMD_SINKS_A = ["path", "path", "true", "bytesio", "bytesio", "none"]


def _op_chunks(rng, op, prompt, gen_chunk):
    if op[0] == "read":
        return [gen_chunk(rng)]
    out = []
    for ph in _op_response(rng, op, prompt):
        out += _cut(rng, ph, 4)
    return out


def gen_cmd_case(rng, i, gen_chunk):
    stack, transport = COMBOS[i % len(COMBOS)]
    prompt = rng.choice(PROMPTS)
    user, password = "scrapli", rng.choice(["secret", "p%'w"])
    login = []
    if "telnet" in transport and rng.random() < 0.3:
        for p in (rng.choice(BANNERS) + b"Username: ", b"Password: ", b"\r\n" + rng.choice(MOTDS) + prompt):
            login += _cut(rng, p)
    sink_a = rng.choice(CMD_SINKS_A)
    rel = rng.choice(["same", "same", "same", "different", "different", "none"])
    if rel == "same":
        sink_b = sink_a
    elif rel == "none":
        sink_b = "none"
    else:
        sink_b = rng.choice([s for s in ("path2", "true", "bytesio2") if s != sink_a])
    append_a = rng.random() < 0.5
    append_b = append_a if (rel == "same" and rng.random() < 0.7) else rng.random() < 0.5
    existing = {}
    for dest in sorted(set([sink_a, sink_b]) - {"none"}):
        if rng.random() < 0.45:
            existing[dest] = rng.choice([b"old\r\n", b"\x1b[0mprev", b"x"]).hex()

    def mk(who):
        k = rng.choice(["read", "read", "get_prompt", "send_input"])
        op = [k] if k in ("read", "get_prompt") else [k, rng.choice(CMDS)]
        return {"who": who, "op": op, "chunks": [c.hex() for c in _op_chunks(rng, op, prompt, gen_chunk)]}
    pre = [mk("A") for _ in range(rng.choice([0, 1, 1, 2, 3]))]
    on_open_b = [mk("B")] if rng.random() < 0.25 else []
    post = [mk(rng.choice("AB")) for _ in range(rng.choice([1, 2, 2, 3, 4]))]
    return {"stack": stack, "transport": transport, "driver_a": rng.choice(["base", "generic"]), "driver_b": rng.choice(["base", "generic"]),
            "login": [c.hex() for c in login], "user": user, "password": password, "host": rng.choice(["dev1", "10.0.0.1"]),
            "port": rng.choice([22, 23]), "sink_a": sink_a, "sink_b": sink_b, "append_a": append_a, "append_b": append_b,
            "existing": existing, "pre": pre, "on_open_b": on_open_b, "execute_on_open": rng.random() < 0.85, "post": post,
            "close": rng.choice(["BA", "BA", "AB"])}


def run_cmd_impl(case, workdir):
    from .c20 import Starved, _Quiet, _tmp
    d = _tmp(workdir, "cmd")
    os.makedirs(d, exist_ok=True)
    sync = case["stack"] == "sync"
    files = {"path": os.path.join(d, "my channel.log"), "path2": os.path.join(d, "other.log"), "true": os.path.join(d, "scrapli_channel.log")}
    bios = {}
    dests = sorted(set([case["sink_a"], case["sink_b"]]) - {"none"})
    for dest in dests:
        ex = bytes.fromhex(case["existing"].get(dest, ""))
        if dest.startswith("bytesio"):
            bios[dest] = KeepBytesIO(ex)
            bios[dest].seek(0, 2)
        elif dest in case["existing"]:
            with open(files[dest], "wb") as f:
                f.write(ex)

    def arg(sink):
        if sink == "none":
            return False
        if sink == "true":
            return True
        return bios[sink] if sink.startswith("bytesio") else files[sink]

    def label(log):
        if log is None:
            return None
        for k, b in bios.items():
            if log is b:
                return k
        name = getattr(log, "name", None)
        if isinstance(name, str):
            rp = os.path.realpath(os.path.join(d, name))
            for k in dests:
                if k in files and os.path.realpath(files[k]) == rp:
                    return k
        return "?"

    script = [bytes.fromhex(c) for c in case["login"]]
    events, res = [], []
    cur = {"who": "A", "conn": None}

    def nxt():
        if not script:
            raise Starved()
        c = script.pop(0)
        events.append(("r", cur["who"], c.hex(), label(cur["conn"].channel.channel_log)))
        return c

    def feed(item):
        script.extend(bytes.fromhex(c) for c in item["chunks"])

    def one_sync(conn, op):
        if op[0] == "read":
            return conn.channel.read()
        if op[0] == "get_prompt":
            return conn.channel.get_prompt().encode()
        return conn.channel.send_input(op[1])[1]

    async def one_async(conn, op):
        if op[0] == "read":
            return await conn.channel.read()
        if op[0] == "get_prompt":
            return (await conn.channel.get_prompt()).encode()
        return (await conn.channel.send_input(op[1]))[1]

    def outcome(name, r=None, e=None):
        if e is None:
            res.append((name, r.hex() if isinstance(r, bytes) else None))
        else:
            res.append((name, "Starved" if isinstance(e, Starved) else type(e).__name__))

    def on_open_b_sync(conn):
        cur.update(who="B", conn=conn)
        for item in case["on_open_b"]:
            feed(item)
            one_sync(conn, tuple(item["op"]))

    async def on_open_b_async(conn):
        cur.update(who="B", conn=conn)
        for item in case["on_open_b"]:
            feed(item)
            await one_async(conn, tuple(item["op"]))

    def build(which):
        cls = _driver_class({"stack": case["stack"], "driver": case["driver_" + which]})
        sink = case["sink_" + which]
        kw = {"on_open": None}             # (the generic drivers' default on_open reads the prompt)
        if which == "b" and case["on_open_b"]:
            kw["on_open"] = on_open_b_sync if sync else on_open_b_async
        return cls(host=case["host"], port=case["port"], auth_username=case["user"], auth_password=case["password"],
                   auth_strict_key=False, auth_bypass=not case["login"], transport=case["transport"], timeout_ops=0,
                   timeout_transport=0, timeout_socket=0, channel_log=arg(sink),
                   channel_log_mode="append" if case["append_" + which] else "write", **kw)

    def script_transport(tr, who):
        if sync:
            tr.open = lambda: events.append(("topen", who, "", None))
            tr.read = nxt if who == "A" else (lambda: (_ for _ in ()).throw(Starved()))
        else:
            async def _topen():
                events.append(("topen", who, "", None))

            async def _tread():
                if who != "A":
                    raise Starved()
                return nxt()
            tr.open, tr.read = _topen, _tread
        tr.write = lambda channel_input: events.append(("w", cur["who"], bytes(channel_input).hex(), None))
        tr.close = lambda: events.append(("tclose", cur["who"], "", None))
        tr.isalive = lambda: True

    def observe_open(conn, who):
        real = conn.channel.open

        def observed():
            r = real()
            events.append(("open", who, "", label(conn.channel.channel_log)))
            return r
        conn.channel.open = observed

    cwd = os.getcwd()
    os.chdir(d)
    exc = None
    try:
        with _Quiet():
            a, b = build("a"), build("b")
            script_transport(a.transport, "A")
            script_transport(b.transport, "B")
            observe_open(a, "A")
            observe_open(b, "B")
            conns = {"A": a, "B": b}
            if sync:
                def step(name, who, fn):
                    cur.update(who=who, conn=conns[who])
                    try:
                        outcome(name, fn())
                    except Starved as e:
                        outcome(name, e=e)
                    except Exception as e:  # noqa
                        outcome(name, e=e)
                step("open", "A", a.open)
                for item in case["pre"]:
                    feed(item)
                    step(item["op"][0], "A", lambda item=item: one_sync(a, tuple(item["op"])))
                events.append(("cmd-begin", "B", "", None))
                step("commandeer", "B", lambda: b.commandeer(a, execute_on_open=case["execute_on_open"]))
                events.append(("cmd", "B", "", label(b.channel.channel_log)))
                for item in case["post"]:
                    feed(item)
                    step(item["op"][0], item["who"], lambda item=item: one_sync(conns[item["who"]], tuple(item["op"])))
                for who in case["close"]:
                    step("close", who, conns[who].close)
            else:
                async def astep(name, who, mk):
                    cur.update(who=who, conn=conns[who])
                    try:
                        outcome(name, await mk())
                    except Starved as e:
                        outcome(name, e=e)
                    except Exception as e:  # noqa
                        outcome(name, e=e)

                async def go():
                    await astep("open", "A", a.open)
                    for item in case["pre"]:
                        feed(item)
                        await astep(item["op"][0], "A", lambda item=item: one_async(a, tuple(item["op"])))
                    events.append(("cmd-begin", "B", "", None))
                    await astep("commandeer", "B", lambda: b.commandeer(a, execute_on_open=case["execute_on_open"]))
                    events.append(("cmd", "B", "", label(b.channel.channel_log)))
                    for item in case["post"]:
                        feed(item)
                        await astep(item["op"][0], item["who"], lambda item=item: one_async(conns[item["who"]], tuple(item["op"])))
                    for who in case["close"]:
                        await astep("close", who, conns[who].close)
                loop = VirtualTimeLoop()
                try:
                    loop.run_until_complete(go())
                finally:
                    loop.close()
            # handles a driver opened for itself and that no close() released (never the case on the reference) are
            # released here so that what they buffered is on disk when the files are read
            for conn in (a, b):
                lg = getattr(conn.channel, "channel_log", None)
                try:
                    if lg is not None and not lg.closed:
                        events.append(("left-open", "A" if conn is a else "B", "", label(lg)))
                        lg.close()
                except Exception:  # noqa
                    pass
    except Exception as e:  # noqa
        exc = type(e).__name__
    finally:
        os.chdir(cwd)
    sinks = {}
    for dest in dests:
        if dest in bios:
            v = bios[dest].kept if bios[dest].closed else bios[dest].getvalue()
            sinks[dest] = None if v is None else v.hex()
        else:
            sinks[dest] = open(files[dest], "rb").read().hex() if os.path.exists(files[dest]) else None
    stray = sorted(f for f in os.listdir(d) if os.path.join(d, f) not in [files[k] for k in dests if k in files])
    shutil.rmtree(d, ignore_errors=True)
    return {"sinks": sinks, "events": events, "results": res, "exc": exc, "stray_files": stray,
            "served_chunks": [c for k, _, c, _ in events if k == "r"]}


def cmd_expected(case, obs):
    """{destination: bytes it must hold after both closes | None = no such file}, from the wire record and the observed
    active sink of every read"""
    want = {}
    for dest in sorted(set([case["sink_a"], case["sink_b"]]) - {"none"}):
        ex = bytes.fromhex(case["existing"][dest]) if dest in case["existing"] else None
        openers = [who for k, who, _, lab in obs["events"] if k == "open" and lab == dest]
        reads = b"".join(bytes.fromhex(c).replace(b"\r", b"") for k, _, c, lab in obs["events"] if k == "r" and lab == dest)
        if dest.startswith("bytesio"):
            want[dest] = (ex or b"") + reads
        elif not openers and not reads:
            want[dest] = ex                       # nobody opened it: untouched (or never created)
        else:
            first_append = case["append_a"] if (openers[:1] == ["A"] or not openers) else case["append_b"]
            want[dest] = ((ex or b"") if first_append else b"") + reads
    return want


def oracle_cmd(case, obs):
    if obs["exc"]:
        return "session set-up raised %s" % obs["exc"]
    for name, r in obs["results"]:
        if name in ("open", "commandeer", "close") and r is not None and not (name == "open" and r == "Starved"):
            return "%s() raised %s" % (name, r)
    had_log = any(k == "open" and who == "A" and lab is not None for k, who, _, lab in obs["events"])
    after = False
    for k, who, c, lab in obs["events"]:
        if k == "cmd-begin":
            after = True
        if k == "r" and lab == "?":
            return "a read through driver %s was logged to a destination nobody configured" % who
        if k == "r" and after and had_log and lab is None:
            return ("the connection had a channel log before it was commandeered, but the channel of driver %s has none: %d bytes read "
                    "through it are in no channel log" % (who, len(c) // 2))
    want = cmd_expected(case, obs)
    for dest, w in want.items():
        g = obs["sinks"].get(dest)
        g = None if g is None else bytes.fromhex(g)
        if g != w:
            who = "+".join(x for x, s in (("A", case["sink_a"]), ("B", case["sink_b"])) if s == dest)
            return ("channel log %s (configured on driver %s) holds %r after both drivers are closed, but what it kept from before the session plus the "
                    "bytes of the reads it was the open channel log of, CRs removed, is %r" % (dest, who, None if g is None else g[:80], None if w is None else w[:80]))
    if obs["stray_files"]:
        return "unexpected files %r" % obs["stray_files"]
    return None


def cmd_model_case(case, obs):
    """what the ChanLog model (one log per connection, opened by the driver that opened it) is fed: A's sink kind and
    previous content, channel.open() of A and EVERY read of the connection in wire order, whichever object read it"""
    kind = {"path": "path", "true": "true", "bytesio": "bytesio", "none": "none"}[case["sink_a"]]
    evs = [("open", "") if k == "open" else ("r", c) for k, who, c, _ in obs["events"] if (k == "open" and who == "A") or k == "r"]
    return ({"sink": kind, "append": case["append_a"], "existing": case["existing"].get(case["sink_a"], ""), "events": evs},
            {"sink": obs["sinks"].get(case["sink_a"]) if case["sink_a"] != "none" else None})


def shrink_cmd(case, workdir, why):
    def key(w):
        return None if w is None else re.sub(r"\d+", "N", w)[:30]

    def fails(c):
        o = run_cmd_impl(c, workdir)
        w = oracle_cmd(c, o)
        return (o, w) if key(w) == key(why) else None
    cur, best = case, fails(case)
    if best is None:
        return case, run_cmd_impl(case, workdir), why
    changed = True
    while changed:
        changed = False
        cands = [dict(cur, login=[])] if cur["login"] else []
        cands += [dict(cur, on_open_b=[])] if cur["on_open_b"] else []
        for part in ("post", "pre"):
            cands += [dict(cur, **{part: cur[part][:j] + cur[part][j + 1:]}) for j in range(len(cur[part]))]
        cands += [dict(cur, existing={k: v for k, v in cur["existing"].items() if k != d}) for d in cur["existing"]]
        for cand in cands:
            r = fails(cand)
            if r:
                cur, best, changed = cand, r, True
                break
    return cur, best[0], best[1]
