"""C16 — histories on the process-wide cache of parsed ssh config files.

`ssh_config_factory(path)` keeps ONE parsed `SSHConfig` per path in `SSHConfig._config_files`, and
`SSHConfig.lookup` hands out the live `Host` object sitting inside that parse.  The property speaks
about files and names only, so the cache has to be invisible: whatever happened before in the
process, a lookup returns what the file's text says.

A history = a few config files (one or two paths with the same base name in different directories)
and a sequence of operations on them through the real code:

  lookup   ssh_config_factory(path).lookup(name)
  driver   BaseDriver / Driver (paramiko) / AsyncDriver (asyncssh) built with ssh_config_file=path and
           explicit or omitted port / auth_username / auth_private_key; observed: the driver's port,
           auth_username, auth_private_key and the port handed to the transport
  fresh    SSHConfig(path).lookup(name): a new parse, not through the cache
  dump     every entry of the cached parse (appended once per file at the end: the sink)

Oracle (independent of the model): for a (file, name) on which scrapli's algorithm with whole-name
matching and the specification agree ('tame', decided without the real code) the looked-up entry must be
`spec_lookup(file's structure, name)` and a driver must end up with the explicit values where given,
else the entry's, else the defaults; in the two known-finding regions (and for dump) the reference is a
parse of the same text that no history has touched, taken before the history starts.
Model: SshConfig.v `srun` (cache as state) with writes = false on the real _parse() output of the files.
"""
import os
import shutil
import tempfile

from . import common
from .common import coq_list

SUITE = "sshconfig-cache-history"
EXPLICIT_PORTS = [22, 830, 2022, 8022, 57000]
EXPLICIT_USERS = ["me", "operator", "svc_backup"]
DRIVERS = [("BaseDriver", "paramiko"), ("BaseDriver", "asyncssh"), ("Driver", "paramiko"), ("AsyncDriver", "asyncssh")]
DEFAULT_PORT = 22
KEY_TOKEN = "<explicit-key>"      # stands for the (per-run) path of the key file given explicitly


def _base():
    from . import c16
    return c16


# ---------------------------------------------------------------------------------------------
# generation
# ---------------------------------------------------------------------------------------------
def gen_history(rng, thorough=False):
    """-> {"files": [{"text", "entries" (intended structure)}], "ops": [...]} (JSON-able)"""
    b = _base()
    files = []
    for _ in range(2 if rng.random() < 0.3 else 1):
        ents = b.gen_config(rng)
        # options worth looking at: most entries set port / user / identity file
        ents = [(pats, b.gen_opts(rng, dense=True) if rng.random() < 0.6 else o) for pats, o in ents]
        names = b.gen_lookup_names(rng, ents, 6)
        for pats, _ in ents:                         # two hosts under one wildcard entry
            for p in pats:
                if ("*" in p or "?" in p) and rng.random() < 0.6:
                    names += [b.instantiate(rng, p), b.instantiate(rng, p)]
        names = list(dict.fromkeys(n for n in names if n and n == n.strip() and not any(c.isspace() for c in n)))
        ient = b.intended(ents)
        tame = [n for n in names if b.classify(ient, n, None)[1]]
        files.append({"text": b.render(rng, ents), "entries": [[k, list(v)] for k, v in ient], "names": names, "tame": tame})
    ops, used = [], [[] for _ in files]
    for _ in range(rng.randint(3, 12 if thorough else 9)):
        fi = rng.randrange(len(files))
        f = files[fi]
        if used[fi] and rng.random() < 0.4:
            name = rng.choice(used[fi])              # the same host again
        elif f["tame"] and rng.random() < 0.85:
            name = rng.choice(f["tame"])
        else:
            name = rng.choice(f["names"])
        used[fi].append(name)
        r = rng.random()
        if r < 0.55 and not name.startswith("-"):
            cls, transport = rng.choice(DRIVERS)
            ops.append({"op": "driver", "file": fi, "name": name, "cls": cls, "transport": transport,
                        "port": rng.choice(EXPLICIT_PORTS) if rng.random() < 0.5 else None,
                        "user": rng.choice(EXPLICIT_USERS) if rng.random() < 0.5 else "",
                        "key": rng.random() < 0.35})
        elif r < 0.9:
            ops.append({"op": "lookup", "file": fi, "name": name})
        else:
            ops.append({"op": "fresh", "file": fi, "name": name})
    for fi in range(len(files)):
        ops.append({"op": "dump", "file": fi})
    return {"files": [{"text": f["text"], "entries": f["entries"]} for f in files], "ops": ops}


# ---------------------------------------------------------------------------------------------
# the real code
# ---------------------------------------------------------------------------------------------
def _driver_class(name):
    if name == "BaseDriver":
        from scrapli.driver.base.base_driver import BaseDriver
        return BaseDriver
    from scrapli import driver
    return getattr(driver, name)


def _forget(cls):
    """empty the process-wide cache of parsed files (whatever it is keyed by)"""
    c = getattr(cls, "_config_files", None)
    if isinstance(c, dict):
        c.clear()


def run_history(hist):
    """run the operations on the real code, every file at a path nothing has used before.
    -> {"obs": [per op], "pristine": [per file {"parsed", "merged", "lookups"}], "key": path of the explicit key}"""
    from scrapli.ssh_config import SSHConfig, ssh_config_factory

    b = _base()
    root = os.path.join(common.BUILD, "C16", "files")
    os.makedirs(root, exist_ok=True)
    top = tempfile.mkdtemp(prefix="hist", dir=root)
    paths = []
    _forget(SSHConfig)                              # every history starts from an empty cache (so that a replay does too)
    try:
        for i, f in enumerate(hist["files"]):
            d = os.path.join(top, "d%d" % i)
            os.makedirs(d)
            p = os.path.join(d, "config")           # same base name, different directories
            with open(p, "w", encoding="utf-8", newline="") as fh:
                fh.write(f["text"])
            paths.append(p)
        key = os.path.join(top, "explicit_key")
        with open(key, "w") as fh:
            fh.write("not a key\n")
        # the reference: a parse of each text that no history touches (built before the history, never cached)
        pristine = []
        for i, p in enumerate(paths):
            names = list(dict.fromkeys(o["name"] for o in hist["ops"] if o["file"] == i and "name" in o))
            ref = {"parsed": None, "merged": None, "lookups": {}, "exc": None}
            try:
                c = SSHConfig(p)
                ref["parsed"] = [(k, b.host_obs(h)) for k, h in c._parse().items()]
                ref["merged"] = [(k, b.host_obs(h)) for k, h in c.hosts.items()]
                for n in names:
                    try:
                        ref["lookups"][n] = b.host_obs(c.lookup(n))
                    except Exception as e:  # noqa
                        ref["lookups"][n] = ("EXC", type(e).__name__)
            except Exception as e:  # noqa
                ref["exc"] = type(e).__name__
            pristine.append(ref)
        obs = []
        for o in hist["ops"]:
            p = paths[o["file"]]
            try:
                if o["op"] == "lookup":
                    obs.append(b.host_obs(ssh_config_factory(p).lookup(o["name"])))
                elif o["op"] == "fresh":
                    obs.append(b.host_obs(SSHConfig(p).lookup(o["name"])))
                elif o["op"] == "dump":
                    obs.append([(k, b.host_obs(h)) for k, h in ssh_config_factory(p).hosts.items()])
                else:
                    kw = {}
                    if o["port"] is not None:
                        kw["port"] = o["port"]
                    if o["user"]:
                        kw["auth_username"] = o["user"]
                    if o["key"]:
                        kw["auth_private_key"] = key
                    drv = _driver_class(o["cls"])(host=o["name"], transport=o["transport"], ssh_config_file=p,
                                                  auth_strict_key=False, **kw)
                    kp = drv.auth_private_key
                    obs.append(("DRV", drv.port, drv.auth_username, KEY_TOKEN if kp == key else kp,
                                drv.transport._base_transport_args.port))
            except Exception as e:  # noqa
                obs.append(("EXC", type(e).__name__))
        return {"obs": obs, "pristine": pristine, "key": KEY_TOKEN}
    finally:
        _forget(SSHConfig)                          # the paths are never used again
        shutil.rmtree(top, ignore_errors=True)


# ---------------------------------------------------------------------------------------------
# oracle
# ---------------------------------------------------------------------------------------------
def _ents(f):
    return [(k, tuple(v)) for k, v in f["entries"]]


def expected(hist, res):
    """[(want, basis)] per op; basis 'spec' (independent of the real code) or 'untouched-parse'"""
    b = _base()
    out = []
    memo = {}
    for o in hist["ops"]:
        fi = o["file"]
        ref = res["pristine"][fi]
        if o["op"] == "dump":
            out.append((ref["merged"], "untouched-parse"))
            continue
        key = (fi, o["name"])
        if key not in memo:
            ents = _ents(hist["files"][fi])
            _, tame, want = b.classify(ents, o["name"], None)
            memo[key] = (want, "spec") if tame else (ref["lookups"].get(o["name"]), "untouched-parse")
        entry, basis = memo[key]
        if o["op"] in ("lookup", "fresh"):
            out.append((entry, basis))
        elif entry is None or entry[0] == "EXC":
            out.append((entry, basis))
        else:
            _, _, port, user, _, idfile = entry
            p = o["port"] if o["port"] is not None else (port if port else DEFAULT_PORT)
            out.append((("DRV", p, o["user"] if o["user"] else user, res["key"] if o["key"] else (idfile if idfile else ""), p), basis))
    return out


def _canon(x):
    if isinstance(x, (list, tuple)):
        return [_canon(y) for y in x]
    return x


def failures(hist, res):
    """indices of the operations whose observation is not the expected one"""
    exp = expected(hist, res)
    return [(i, exp[i][0], res["obs"][i], exp[i][1]) for i in range(len(exp)) if _canon(exp[i][0]) != _canon(res["obs"][i])]


def describe(o):
    if o["op"] == "driver":
        given = [k for k in ("port", "user", "key") if o[k] not in (None, "", False)]
        return "%s(host=%r, transport=%r%s)" % (o["cls"], o["name"], o["transport"],
                                                ", explicit " + "/".join(given) if given else "")
    if o["op"] == "dump":
        return "entries of the cached parse of file %d" % o["file"]
    return ("SSHConfig(path).lookup(%r)" if o["op"] == "fresh" else "ssh_config_factory(path).lookup(%r)") % o["name"]


def shrink(hist, index):
    """a shorter history that still fails at the same operation (drop earlier operations one at a time)"""
    ops = hist["ops"][: index + 1]
    i = 0
    while i < len(ops) - 1:
        trial = ops[:i] + ops[i + 1:]
        h2 = {"files": hist["files"], "ops": trial}
        r2 = run_history(h2)
        if any(ix == len(trial) - 1 for ix, _, _, _ in failures(h2, r2)):
            ops = trial
        else:
            i += 1
    return {"files": hist["files"], "ops": ops}


# ---------------------------------------------------------------------------------------------
# Coq
# ---------------------------------------------------------------------------------------------
HEADER_H = """From Verif Require Import Bytes SshConfig.
(* a path is "f<i>" or, for an object parsed outside the cache, "f<i>#<k>": the same file under a slot of its own *)
Fixpoint stem (p : bytes) : bytes := match p with [] => [] | c :: r => if c =? 35 then [] else c :: stem r end.
Definition filef (fs : list (bytes * list (bytes * host))) (p : bytes) : list (bytes * host) :=
  match find (fun e => beq (stem p) (fst e)) fs with Some e => snd e | None => [] end.
Definition chk (c : list (bytes * list (bytes * host)) * list sop * list sout) : bool :=
  let '(fs, ops, outs) := c in souts_eqb (snd (srun (filef fs) false [] ops)) outs.
"""


def model_term(hist, res):
    """the history as a Coq case: files = the REAL _parse() output, ops, the real observations; None when
    something is not representable"""
    b = _base()
    fs = []
    for i, ref in enumerate(res["pristine"]):
        if ref["parsed"] is None or not b.representable([o for _, o in ref["parsed"]]):
            return None
        fs.append((("f%d" % i), coq_list([b.cq_entry(o[0], o[1:]) for _, o in ref["parsed"]])))
    ops, outs = [], []
    nfresh = 0
    for o, ob in zip(hist["ops"], res["obs"]):
        pid = "f%d" % o["file"]
        if o["op"] == "fresh":                     # a new object under no cached path: its own cache slot
            nfresh += 1
            pid = "f%d#%d" % (o["file"], nfresh)
        if o["op"] in ("lookup", "fresh"):
            ops.append("(SLookup %s %s)" % (b.cq_s(pid), b.cq_s(o["name"])))
        elif o["op"] == "dump":
            ops.append("(SDump %s)" % b.cq_s(pid))
        else:
            ops.append("(SDriver %s %s (mkEx %s %s %s))" % (
                b.cq_s(pid), b.cq_s(o["name"]), "None" if o["port"] is None else "(Some %d)" % o["port"],
                b.cq_s(o["user"]), b.cq_s(res["key"] if o["key"] else "")))
        if isinstance(ob, tuple) and ob and ob[0] == "EXC":
            outs.append("ORaise")
        elif o["op"] == "dump":
            if not b.representable([x for _, x in ob]):
                return None
            outs.append("(ODict %s)" % coq_list([b.cq_entry(x[0], x[1:]) for _, x in ob]))
        elif o["op"] == "driver":
            _, port, user, keyp, _ = ob
            if not (isinstance(port, int) and port >= 0 and isinstance(user, str) and isinstance(keyp, str)
                    and b._ascii(user) and b._ascii(keyp)):
                return None
            outs.append("(ODriver (%d, %s, %s))" % (port, b.cq_s(user), b.cq_s(keyp)))
        else:
            if not b.representable([ob]):
                return None
            outs.append("(OHost %s)" % b.cq_entry(ob[0], ob[1:]))
    return "(%s, %s, %s)" % (coq_list(["(%s, %s)" % (b.cq_s(p), e) for p, e in fs]), coq_list(ops), coq_list(outs))


# ---------------------------------------------------------------------------------------------
# the suite
# ---------------------------------------------------------------------------------------------
CORPUS = [
    # explicit values for one host, then the same host and its neighbour under the same wildcard without
    {"files": [{"text": "Host core-rtr1\n  HostName 10.0.0.1\n  User netops\n  Port 2201\n  IdentityFile /keys/core_key\n\n"
                        "Host edge-*\n  User edgeadmin\n  Port 2202\n  IdentityFile /keys/edge_key\n\nHost *\n  User fallback\n",
                "entries": [["core-rtr1", ["10.0.0.1", 2201, "netops", None, "/keys/core_key"]],
                            ["edge-*", [None, 2202, "edgeadmin", None, "/keys/edge_key"]],
                            ["*", [None, None, "fallback", None, None]]]}],
     "ops": [{"op": "driver", "file": 0, "name": "core-rtr1", "cls": "BaseDriver", "transport": "paramiko", "port": None, "user": "", "key": False},
             {"op": "driver", "file": 0, "name": "core-rtr1", "cls": "Driver", "transport": "paramiko", "port": 830, "user": "me", "key": True},
             {"op": "lookup", "file": 0, "name": "core-rtr1"},
             {"op": "driver", "file": 0, "name": "core-rtr1", "cls": "AsyncDriver", "transport": "asyncssh", "port": None, "user": "", "key": False},
             {"op": "driver", "file": 0, "name": "edge-sw1", "cls": "BaseDriver", "transport": "asyncssh", "port": 22, "user": "me", "key": False},
             {"op": "driver", "file": 0, "name": "edge-sw2", "cls": "Driver", "transport": "paramiko", "port": None, "user": "", "key": False},
             {"op": "fresh", "file": 0, "name": "edge-sw2"},
             {"op": "driver", "file": 0, "name": "unlisted", "cls": "BaseDriver", "transport": "paramiko", "port": None, "user": "", "key": True},
             {"op": "lookup", "file": 0, "name": "unlisted"},
             {"op": "dump", "file": 0}]},
    # two files with the same base name: each path keeps its own parse
    {"files": [{"text": "Host sw1\n  Port 2201\n  User a\n", "entries": [["sw1", [None, 2201, "a", None, None]]]},
               {"text": "Host sw1\n  Port 99\nHost *\n  User b\n", "entries": [["sw1", [None, 99, "", None, None]], ["*", [None, None, "b", None, None]]]}],
     "ops": [{"op": "lookup", "file": 0, "name": "sw1"}, {"op": "lookup", "file": 1, "name": "sw1"},
             {"op": "driver", "file": 1, "name": "sw1", "cls": "Driver", "transport": "paramiko", "port": None, "user": "x", "key": False},
             {"op": "driver", "file": 0, "name": "sw1", "cls": "AsyncDriver", "transport": "asyncssh", "port": None, "user": "", "key": False},
             {"op": "lookup", "file": 1, "name": "other"}, {"op": "dump", "file": 0}, {"op": "dump", "file": 1}]},
]


def run_suite(rep, stats):
    """generate and run the histories; oracle violations are reported here; returns (terms, cases) for the model"""
    b = _base()
    rng = rep.rng
    thorough = rep.tier == "thorough"
    n = 450 if thorough else 70
    hs = {"histories": 0, "ops": {"lookup": 0, "fresh": 0, "driver": 0, "dump": 0}, "two_file_histories": 0,
          "explicit": {"port": 0, "user": 0, "key": 0, "none": 0}, "driver_kinds": {}, "basis": {"spec": 0, "untouched-parse": 0},
          "relookups_after_explicit_driver": 0, "oracle_failures": 0, "construct_or_op_raised": 0, "nondefault_entry_ops": 0}
    pstats = {"raised": 0, "tame_pairs": 0, "region_pairs": 0}
    terms, cases = [], []
    work = [dict(h) for h in CORPUS] + [None] * n
    for hi, hist in enumerate(work):
        if hist is None:
            hist = gen_history(rng, thorough)
        res = run_history(hist)
        hs["histories"] += 1
        hs["two_file_histories"] += len(hist["files"]) > 1
        exp = expected(hist, res)
        touched = set()
        for i, o in enumerate(hist["ops"]):
            hs["ops"][o["op"]] += 1
            hs["basis"][exp[i][1]] += 1
            if o["op"] == "driver":
                given = [k for k in ("port", "user", "key") if o[k] not in (None, "", False)]
                for k in given or ["none"]:
                    hs["explicit"][k] += 1
                dk = o["cls"] + "/" + o["transport"]
                hs["driver_kinds"][dk] = hs["driver_kinds"].get(dk, 0) + 1
            if o["op"] != "dump":
                e = b.spec_lookup(_ents(hist["files"][o["file"]]), o["name"])
                ek = (o["file"], e[0] if e else None)
                if ek in touched:
                    hs["relookups_after_explicit_driver"] += 1
                if o["op"] == "driver" and (o["port"] is not None or o["user"] or o["key"]):
                    touched.add(ek)
                nontrivial = bool(e) and e[0] != "*"
                hs["nondefault_entry_ops"] += nontrivial
                rep.case(("hist", hist["files"][o["file"]]["text"], o["name"], o["op"], i), nontrivial=nontrivial)
            if isinstance(res["obs"][i], tuple) and res["obs"][i][:1] == ("EXC",):
                hs["construct_or_op_raised"] += 1
        # the single-lookup oracle on the untouched parse (same as the grammar stream)
        for fi, f in enumerate(hist["files"]):
            ref = res["pristine"][fi]
            if ref["exc"]:
                if not b._capped(rep, "construct-raised:" + ref["exc"]):
                    rep.violation("SSHConfig(file) raised %s on a file of the supported grammar" % ref["exc"],
                                  {"suite": "sshconfig-roundtrip", "kind": "ssh_config", "text": f["text"], "entries": f["entries"],
                                   "name": "x", "want": b.spec_lookup(_ents(f), "x"), "got": ["EXC", ref["exc"]], "where": "history"})
                continue
            for nme, ob in ref["lookups"].items():
                b.check_pair(rep, f["text"], _ents(f), nme, ob, pstats, "history-untouched-parse")
        bad = failures(hist, res)
        if bad:
            hs["oracle_failures"] += len(bad)
            i, want, got, basis = bad[0]
            o = hist["ops"][i]
            klass = "cache-history:" + o["op"]
            if not b._capped(rep, klass, cap=2):
                small = shrink(hist, i)
                sres = run_history(small)
                sbad = [x for x in failures(small, sres) if x[0] == len(small["ops"]) - 1]
                if sbad:
                    hist_r, (i, want, got, basis) = small, sbad[0]
                else:
                    hist_r = hist
                prev = "; ".join(describe(x) for x in hist_r["ops"][:i]) or "nothing"
                if hist_r["ops"][i]["op"] == "dump" and isinstance(want, list) and isinstance(got, list) and len(want) == len(got):
                    diff = [j for j in range(len(want)) if _canon(want[j]) != _canon(got[j])]       # only the entries that differ
                    want, got = [want[j][1] for j in diff], [got[j][1] for j in diff]
                head = ("ssh config cache is visible: after [%s] on the same file(s), " % prev) if i else \
                    "ssh config entry as its consumers see it (no earlier operation needed): "
                rep.violation(
                    head + "%s gave %r; what the file says (%s): %r" % (describe(hist_r["ops"][i]), got, basis, want),
                    {"suite": SUITE, "kind": "ssh_config_history", "files": hist_r["files"], "ops": hist_r["ops"], "index": i,
                     "want": _canon(want), "got": _canon(got), "basis": basis})
        if hi < 2:
            rep.sample({"history": [describe(o) for o in hist["ops"]], "observations": _canon(res["obs"])[:4]})
        t = model_term(hist, res)
        if t is not None:
            terms.append(t)
            cases.append({"files": hist["files"], "ops": hist["ops"]})
    hs["untouched_parse_pairs"] = pstats
    rep.coverage["cache_histories"] = hs
    return terms, cases


def replay_history(r):
    """-> holds?  (prints the history, the observation and the expectation of every operation)"""
    hist = {"files": r["files"], "ops": r["ops"]}
    res = run_history(hist)
    exp = expected(hist, res)
    bad = {i for i, _, _, _ in failures(hist, res)}
    for i, f in enumerate(hist["files"]):
        print("file %d:\n%s" % (i, f["text"]))
    for i, o in enumerate(hist["ops"]):
        print("%2d. %s (file %d)" % (i, describe(o), o["file"]))
        print("      observed: %r" % (_canon(res["obs"][i]),))
        print("      expected: %r  [%s]%s" % (_canon(exp[i][0]), exp[i][1], "   <-- FAILS" if i in bad else ""))
    print("property holds on this history" if not bad else "property FAILS on this history")
    return not bad
