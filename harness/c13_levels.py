"""C13 helper — user-supplied privilege levels (the `privilege_levels` argument of the network drivers).

A user may hand the driver extra privilege levels of his own: the device's Linux shell, a guest shell, a line-card shell ...
They are NOT configuration sessions: custom names, custom prompt patterns, reached from a built-in level by a command of the user's
choosing.  A stop_on_failed push at such a level must put on the wire the navigation and the lines up to the failing one and NOTHING
else: the platform's abort / rollback step belongs inside a configuration session only.

Vendor side (independent of scrapli's tables, as harness/simdevice.py): which extra modes a platform's CLI has, how they are entered
and left and what their prompt looks like.  Driver side: the PrivilegeLevel the user writes for it (name, pattern: several equivalent
spellings).  A scenario carries both ("user_levels": [...]); the device of such a scenario is a SimDevice whose tables are extended by
the scenario's modes (UserLevelDevice)."""
from .simdevice import SimDevice

# platforms whose driver has an _abort_config of its own (an abort / rollback step after a failed stop_on_failed push)
ABORT_PLATFORMS = ["cisco_nxos", "arista_eos", "cisco_iosxr", "juniper_junos"]
# the platforms whose abort step is documented to be issued "if using a config session" only: the main exploration
GUARDED = ["cisco_nxos", "arista_eos"]

# vendor side: mode flavours per platform.  prompt: {host} / {user} are the device's.
FLAVOURS = {
    "arista_eos": [
        {"flavour": "bash", "from": "privilege_exec", "enter": "bash", "leave": "exit", "prompt": "[{user}@{host} ~]$ ",
         "patterns": [r"^\[\w+@[\w.\-]+ ~\]\$\s?$", r"^\[[a-z]+@\S+ [~/\w]+\]\$\s*$", r"\[\w+@[\w.\-]+ ~\]\$ ?$"]},
        {"flavour": "bash-plain", "from": "privilege_exec", "enter": "bash", "leave": "exit", "prompt": "-bash-4.3$ ",
         "patterns": [r"^\-bash\-[\d.]+\$\s?$", r"^-?bash-\d\.\d\$\s?$"]},
    ],
    "cisco_nxos": [
        {"flavour": "run-bash", "from": "privilege_exec", "enter": "run bash", "leave": "exit", "prompt": "bash-4.3$ ",
         "patterns": [r"^bash\-[\d.]+\$\s?$", r"^bash-\d\.\d\$\s*$"]},
        {"flavour": "guestshell", "from": "privilege_exec", "enter": "guestshell", "leave": "exit", "prompt": "[{user}@guestshell ~]$ ",
         "patterns": [r"^\[\w+@guestshell ~\]\$\s?$", r"^\[[\w\-]+@guestshell [~/\w]+\]\$\s?$"]},
    ],
    "cisco_iosxr": [
        {"flavour": "run", "from": "privilege_exec", "enter": "run", "leave": "exit", "prompt": "[xr-vm_node0_RP0_CPU0:~]$",
         "patterns": [r"^\[[\w\-]+:~\]\$\s?$"]},
    ],
    "juniper_junos": [
        {"flavour": "pfe-vty", "from": "exec", "enter": "start shell pfe network fpc0", "leave": "exit", "prompt": "SMPC0({host} vty)# ",
         "patterns": [r"^\w+\([\w\-]+ vty\)#\s?$"]},
    ],
}
# the names a user gives such a level (anything but a built-in name; with and without "config" / "s" in it, upper case, digits)
NAMES = ["bash", "linux_shell", "shell2", "guest", "BASH", "diag-shell", "configtools", "sh"]
# what the shells print
SHELL_ERRORS = ["No such file or directory", "command not found", "Permission denied"]
SHELL_LINES = ["ls /mnt/flash", "cat /nope", "rm -f /mnt/flash/old.swi", "df -h", "uname -a", "cat /etc/hosts", "ip link show", "echo done",
               "tail -n 3 /var/log/messages", "sudo ip netns list"]


def enter_commands():
    return {f["enter"] for fs in FLAVOURS.values() for f in fs}


def make_level(kind, flavour, name, pattern_ix=0):
    """one user level of a scenario: vendor side (mode = name, from / enter / leave / prompt) + driver side (name, pattern)"""
    f = next(x for x in FLAVOURS[kind] if x["flavour"] == flavour)
    return {"name": name, "flavour": flavour, "from": f["from"], "enter": f["enter"], "leave": f["leave"], "prompt": f["prompt"],
            "pattern": f["patterns"][pattern_ix % len(f["patterns"])]}


def gen_levels(rng, kind):
    """one or two user levels (distinct vendor modes, distinct names)"""
    fl = list(FLAVOURS[kind])
    rng.shuffle(fl)
    # two flavours entered by the same command cannot both exist on one device
    picked = []
    for f in fl:
        if all(f["enter"] != p["enter"] for p in picked):
            picked.append(f)
    picked = picked[:rng.choice([1, 1, 2])]
    names = rng.sample(NAMES, len(picked))
    return [make_level(kind, f["flavour"], n, rng.randrange(len(f["patterns"]))) for f, n in zip(picked, names)]


def privilege_levels(kind, levels):
    """the dict the user hands to the driver: the platform's own levels + his"""
    from copy import deepcopy
    from importlib import import_module

    from scrapli.driver.network.base_driver import PrivilegeLevel
    privs = deepcopy(import_module("scrapli.driver.core.%s.base_driver" % kind).PRIVS)
    for u in levels:
        if u["name"] in privs:
            raise ValueError("user level %r has a built-in name" % u["name"])
        privs[u["name"]] = PrivilegeLevel(pattern=u["pattern"], name=u["name"], previous_priv=u["from"], deescalate=u["leave"],
                                          escalate=u["enter"], escalate_auth=False, escalate_prompt="")
    return privs


def is_session_pattern(pattern):
    """the model's level flag (Send.v d_levels): "the level's pattern contains config\\-s" - a fact about the scenario's own input"""
    return "config\\-s" in pattern


class UserLevelDevice(SimDevice):
    """SimDevice + the scenario's extra modes (mode name = the level's name)"""

    def __init__(self, platform, levels, **kw):
        SimDevice.__init__(self, platform, **kw)
        base = self.t["prompt"]
        modes = {u["name"]: u for u in levels}

        def prompt(d, m):
            if m in modes:
                return modes[m]["prompt"].replace("{host}", d.host).replace("{user}", d.user)
            return base(d, m)
        self.t["prompt"] = prompt
        for u in levels:
            if u["name"] in self.t["trans"]:
                raise ValueError("user level %r collides with a mode of the device" % u["name"])
            self.t["trans"].setdefault(u["from"], {})[u["enter"]] = ("goto", u["name"])
            self.t["trans"][u["name"]] = {u["leave"]: ("goto", u["from"])}


def is_user_transition(levels, mode, line):
    for u in levels or []:
        if (mode == u["from"] and line == u["enter"]) or (mode == u["name"] and line == u["leave"]):
            return True
    return False
