"""C02 helper — runs the REAL channel operations (both stacks) over a causal device under a read
segmentation, and records everything the property talks about: results, device-side write log,
completion, what is left unread / held back, and the device's answer to every write (the script the
Coq model is run on).

No sleeping, no threads: a read with nothing pending raises Starved (BaseException) = "blocks for ever".
The asyncio login loops sleep 0.1 s per iteration; for their runs the `asyncio` name inside
scrapli.channel.async_channel is replaced by a shim whose sleep() yields once (restored afterwards)."""
import asyncio
import contextlib
import re

from . import simdevice
from .simdevice import AsyncScriptedTransport, ScriptedTransport, SimDevice, Starved

# ---- decoration families (what the property calls supported sequences) ---------------------------
FAMILIES = {
    "CR": b"\r",
    "CSI": b"\x1b[2K",
    "CSI-long": b"\x1b[1;24r",
    "SGR": b"\x1b[0;1;31m",
    "SGR0": b"\x1b[m",
    "OSC": b"\x1b]0;router1 - title\x07",
    "ESC7": b"\x1b7",
    "ESC8": b"\x1b8",
    "ESCM": b"\x1bM",
    "ESCE": b"\x1bE",
    "ESC-sp": b"\x1b 7",
    "OSC+CR": b"\x1b]\r0;t\r\x07",      # CRs inside a sequence: removed before the sequence is looked for
    "CSI+CR": b"\x1b\r[\r0m",
}


class LoginDev:
    """a causal login front end: asks for what the scenario says, then becomes a CLI at its prompt.
    kind 'telnet': "Username: " (echo) / "Password: " (hidden);  kind 'ssh': "user@h's password: " and/or
    "Enter passphrase for key '/k': " (hidden).  A wrong answer re-asks; `fail` = permission denied text.
    `deny_text`: what the ssh client prints (own line) in front of the re-asked prompt when it rejects a password /
    passphrase (OpenSSH: "Permission denied, please try again.") — message and next prompt are ONE answer of the
    device, so the segmentation decides whether they arrive in one read.  `preamble`: client messages printed when
    the session starts, in front of the first prompt (e.g. the unprotected-private-key warning)."""

    def __init__(self, kind, user="admin", password="pw1", passphrase="", motd=b"", prompt=b"router1#",
                 nl=b"\r\n", insertions=None, ask_passphrase=False, login_text=b"Username: ",
                 deny_after=None, deny_text=b"", preamble=b"", quiet=False):
        self.kind, self.user, self.password, self.passphrase = kind, user, password, passphrase
        self.motd, self.prompt_b, self.nl = motd, prompt, nl
        self.insertions = insertions or {}
        self.out, self.plain, self.rx = bytearray(), bytearray(), bytearray()
        self.line = bytearray()
        self.closed = False
        self.log = []
        self.login_text = login_text
        self.ask_passphrase = ask_passphrase
        self.deny_after = deny_after
        self.deny_text = deny_text
        self.preamble = preamble
        self.quiet = quiet               # ssh: no "Permanently added ... known hosts" line in front of the password prompt
        self.attempts = 0
        self.state = None
        self._skip_lf = False

    def _emit(self, b):
        for c in b:
            ins = self.insertions.get(len(self.plain))
            if ins:
                self.out += ins
            self.plain.append(c)
            self.out.append(c)

    def _rejected(self):
        return self.nl + (self.deny_text + self.nl if self.deny_text else b"")

    def start(self):
        if self.preamble:
            self._emit(self.preamble.replace(b"\n", self.nl))
        if self.kind == "telnet":
            self.state = "user"
            self._emit(self.nl + b"User Access Verification" + self.nl + self.nl + self.login_text)
        elif self.ask_passphrase:
            self.state = "phrase"
            self._emit(b"Enter passphrase for key '/home/u/.ssh/id_rsa': ")
        else:
            self.state = "pass"
            self._emit((b"" if self.quiet else b"Warning: Permanently added 'h' (ED25519) to the list of known hosts." + self.nl)
                       + self.user.encode() + b"@h's password: ")

    def feed(self, data):
        self.rx += data
        for c in data:
            if c == 13:
                self._skip_lf = True
                self._ret()
            elif c == 10:
                if self._skip_lf:
                    self._skip_lf = False
                    continue
                self._ret()
            else:
                self._skip_lf = False
                self.line.append(c)
                if self.state in ("user", "cli"):
                    self._emit(bytes([c]))

    def _ret(self):
        raw = bytes(self.line)
        self.line = bytearray()
        self.log.append((self.state, raw))
        if self.state == "user":
            self.typed_user = raw
            self.state = "pass"
            self._emit(self.nl + b"Password: ")
        elif self.state == "phrase":
            if raw.decode("latin-1") == self.passphrase:
                self._enter()
            else:
                self.attempts += 1
                self._emit(self._rejected() + b"Enter passphrase for key '/home/u/.ssh/id_rsa': ")
        elif self.state == "pass":
            ok = raw.decode("latin-1") == self.password and (self.kind != "telnet" or self.typed_user.decode("latin-1") == self.user)
            if ok:
                self._enter()
            else:
                self.attempts += 1
                if self.deny_after is not None and self.attempts >= self.deny_after:
                    self._emit(self.nl + self.user.encode() + b"@h: Permission denied (publickey,password)." + self.nl)
                    self.state = "dead"
                elif self.kind == "telnet":
                    self.state = "user"
                    self._emit(self.nl + b"% Login invalid" + self.nl + self.nl + self.login_text)
                else:
                    self._emit(self._rejected() + self.user.encode() + b"@h's password: ")
        elif self.state == "cli":
            self._emit(self.nl + self.prompt_b)

    def _enter(self):
        self.state = "cli"
        self._emit(self.nl + self.motd + self.prompt_b)


# ---- transports that also record the device's answer to each write -------------------------------
class _Rec:
    def _write(self, b):
        before = len(self.device.out)
        super()._write(b)
        self.answers.append(bytes(self.device.out[before:]))


class RecSync(_Rec, ScriptedTransport):
    pass


class RecAsync(_Rec, AsyncScriptedTransport):
    pass


class _AsyncioShim:
    def __getattr__(self, name):
        return getattr(asyncio, name)

    @staticmethod
    async def sleep(_delay, result=None):
        await asyncio.tasks.sleep(0)
        return result


@contextlib.contextmanager
def fast_async_sleep():
    import scrapli.channel.async_channel as ac
    saved = ac.asyncio
    ac.asyncio = _AsyncioShim()
    try:
        yield
    finally:
        ac.asyncio = saved


_LOOP = None


def loop():
    global _LOOP
    if _LOOP is None or _LOOP.is_closed():
        _LOOP = asyncio.new_event_loop()
    return _LOOP


def close_loop():
    global _LOOP
    if _LOOP is not None and not _LOOP.is_closed():
        _LOOP.close()
    _LOOP = None


def make_device(dv):
    """dv: scenario dict of the device"""
    ins = {int(k): bytes.fromhex(v) for k, v in dv.get("insertions", {}).items()}
    if dv["type"] == "cli":
        outs = {k: bytes.fromhex(v) for k, v in dv.get("outputs", {}).items()}
        d = SimDevice(dv.get("platform", "cisco_iosxe"), host=dv.get("host", "router1"), user=dv.get("user", "admin"),
                      login_mode=dv.get("mode"), outputs=outs, secret=dv.get("secret"),
                      nl=bytes.fromhex(dv.get("nl", "0d0a")), banner=dv.get("banner", ""), insertions=ins,
                      echo=dv.get("echo", True))
        return d
    d = LoginDev(dv["kind"], user=dv.get("user", "admin"), password=dv.get("password", "pw1"),
                 passphrase=dv.get("passphrase", ""), motd=bytes.fromhex(dv.get("motd", "")),
                 prompt=dv.get("prompt", "router1#").encode(), insertions=ins,
                 ask_passphrase=dv.get("ask_passphrase", False),
                 login_text=dv.get("login_text", "Username: ").encode(), deny_after=dv.get("deny_after"),
                 deny_text=dv.get("deny_text", "").encode(), preamble=dv.get("preamble", "").encode(), quiet=dv.get("quiet", False))
    return d


def make_channel(stack, device, policy, cfg):
    from scrapli.channel import AsyncChannel, Channel
    from scrapli.channel.base_channel import BaseChannelArgs
    args = BaseChannelArgs(comms_prompt_pattern=cfg["prompt_pattern"], comms_return_char=cfg.get("ret", "\n"),
                           comms_prompt_search_depth=cfg.get("depth", 1000),
                           comms_roughly_match_inputs=cfg.get("rough", False), timeout_ops=cfg.get("timeout_ops", 0))
    tcls = RecSync if stack == "sync" else RecAsync
    t = tcls(device, tuple(policy))
    t.answers = []
    t.opened = True
    ch = (Channel if stack == "sync" else AsyncChannel)(transport=t, base_channel_args=args)
    ch.open()
    return ch, t


def _call(stack, fn, *a, **kw):
    if stack == "sync":
        return fn(*a, **kw)
    return loop().run_until_complete(fn(*a, **kw))


def run_op(stack, ch, op):
    """run one channel operation; returns the canonical result: list of bytes"""
    k = op["op"]
    if k == "get_prompt":
        r = _call(stack, ch.get_prompt)
        return [r.encode("utf-8")]
    if k == "send_input":
        raw, proc = _call(stack, ch.send_input, op["input"], strip_prompt=op.get("strip", True),
                          eager=op.get("eager", False), eager_input=op.get("eager_input", False))
        return [raw, proc]
    if k == "interact":
        evs = [tuple(e) for e in op["events"]]
        raw, proc = _call(stack, ch.send_inputs_interact, evs,
                          interaction_complete_patterns=op.get("complete"))
        return [raw, proc]
    if k == "auth_telnet":
        ch._base_channel_args.timeout_ops = 3600
        try:
            _call(stack, type(ch).channel_authenticate_telnet.__wrapped__, ch, op["user"], op["password"])
        finally:
            ch._base_channel_args.timeout_ops = 0
        return []
    if k == "auth_ssh":
        ch._base_channel_args.timeout_ops = 3600
        try:
            _call(stack, type(ch).channel_authenticate_ssh.__wrapped__, ch, op["password"], op["passphrase"])
        finally:
            ch._base_channel_args.timeout_ops = 0
        return []
    raise ValueError(k)


def run_scenario(scn, stack, policy):
    """returns observation dict: per op (kind, result, writes, reads), plus final residue / held and
    the device's answers (script)"""
    dev = make_device(scn["device"])
    if scn["device"]["type"] != "cli":
        dev.start()
    elif scn["device"].get("start"):
        dev.start()
    ch, t = make_channel(stack, dev, policy, scn["cfg"])
    init_pending = bytes(dev.out)
    obs = []
    ctx = fast_async_sleep() if stack != "sync" else contextlib.nullcontext()
    with ctx:
        for op in scn["ops"]:
            w0, r0 = len(t.writes), len(t.reads)
            kind, res = "done", []
            try:
                res = run_op(stack, ch, op)
            except Starved:
                kind = "blocks"
            except Exception as e:  # noqa
                kind = "raised:" + type(e).__name__
            obs.append({"kind": kind, "result": res, "writes": t.writes[w0:], "reads": t.reads[r0:],
                        "residue": t.residue(), "held": bytes(ch._ansi_partial) if hasattr(ch, "_ansi_partial") else b""})
            if kind != "done":
                break
    return {"ops": obs, "answers": list(t.answers), "init": init_pending, "stream": bytes(dev.out),
            "plain": bytes(dev.plain), "all_writes": list(t.writes),
            "devlog": [tuple(x) for x in getattr(dev, "log", [])],
            "hidden": list(getattr(dev, "hidden_lines", []))}


def canon(ob):
    """what the property compares across segmentations / decorations: per op the completion, the
    processed result exactly, the raw result up to surrounding white space, and the write log"""
    out = []
    for o in ob["ops"]:
        res = list(o["result"])
        if len(res) == 2:
            res = [res[0].strip(), res[1]]
        out.append((o["kind"], tuple(res), tuple(o["writes"])))
    return out


def compiled_patterns(scn):
    """patterns exactly as the channel of the CURRENT source compiles them (for the model)"""
    from scrapli.channel.base_channel import BaseChannel, BaseChannelArgs
    cp = scn["cfg"]["prompt_pattern"]
    out = {"prompt": BaseChannel._get_prompt_pattern(class_pattern=cp)}
    for op in scn["ops"]:
        if op["op"] == "interact":
            for e in op["events"]:
                out[("x", e[1])] = BaseChannel._get_prompt_pattern(class_pattern=cp, pattern=e[1])
            for p in op.get("complete") or []:
                out[("x", p)] = BaseChannel._get_prompt_pattern(class_pattern=cp, pattern=p)
    return out
