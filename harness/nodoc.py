"""print a python source file without docstrings / blank lines (reading aid)"""
import ast, sys
src = open(sys.argv[1]).read()
tree = ast.parse(src)
skip = set()
for node in ast.walk(tree):
    if isinstance(node, (ast.FunctionDef, ast.AsyncFunctionDef, ast.ClassDef, ast.Module)):
        b = node.body
        if b and isinstance(b[0], ast.Expr) and isinstance(getattr(b[0], 'value', None), ast.Constant) and isinstance(b[0].value.value, str):
            for l in range(b[0].lineno, b[0].end_lineno + 1):
                skip.add(l)
for i, line in enumerate(src.split("\n"), 1):
    if i in skip or not line.strip():
        continue
    print("%4d %s" % (i, line))
