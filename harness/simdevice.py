"""SimDevice — a causal, line-oriented CLI device + scripted transports (DESIGN.md 4.3, Appendix D).

The vendor tables below are written from the vendors' CLI behaviour and are INDEPENDENT of scrapli's
PRIVS: a driver table that sends a wrong command gets "% Invalid input" and the device stays put.
The device is the environment of the implementation runs and the oracle of the driver-level suites:
its own execution log says which line ran in which mode and what it printed.

No sleeping, no threads: a read with nothing pending raises Starved (a BaseException, so scrapli's
`except Exception` handlers cannot swallow it) — non-termination is observed deterministically."""
import asyncio
import random

from scrapli.transport.base import AsyncTransport, Transport
from scrapli.transport.base.base_transport import BaseTransportArgs


class Starved(BaseException):
    """the device has nothing more to say and the client is still reading"""


class Dropped(Exception):
    """marker used by fault-injecting transports (mapped to the exception the scenario asks for)"""


# ------------------------------------------------------------------------------------------------
# vendor CLI tables:  mode -> {line -> action}
#   action = ("goto", mode) | ("auth", mode)  (password dialogue if the device has a secret)
# every other line is user content (output assigned by the scenario, mode unchanged)
# ------------------------------------------------------------------------------------------------
def _iosxe():
    return {
        "login_modes": ["exec", "privilege_exec"],
        "prompt": lambda d, m: {
            "exec": d.host + ">", "privilege_exec": d.host + "#",
            "configuration": d.host + "(config%s)#" % d.submode, "tclsh": d.host + "(tcl)#"}[m],
        "trans": {
            "exec": {"enable": ("auth", "privilege_exec")},
            "privilege_exec": {"disable": ("goto", "exec"), "configure terminal": ("goto", "configuration"),
                               "tclsh": ("goto", "tclsh")},
            "configuration": {"end": ("goto", "privilege_exec"), "exit": ("goto", "privilege_exec")},
            "tclsh": {"tclquit": ("goto", "privilege_exec")},
        },
        "invalid": "% Invalid input detected at '^' marker.",
        "submodes": ["", "-if", "-line", "-router"],
    }


def _iosxr():
    return {
        "login_modes": ["privilege_exec"],
        "prompt": lambda d, m: {
            "privilege_exec": "RP/0/RP0/CPU0:" + d.host + "#",
            "configuration": "RP/0/RP0/CPU0:" + d.host + "(config%s)#" % d.submode,
            "configuration_exclusive": "RP/0/RP0/CPU0:" + d.host + "(config%s)#" % d.submode}[m],
        "trans": {
            "privilege_exec": {"configure terminal": ("goto", "configuration"),
                               "configure exclusive": ("goto", "configuration_exclusive")},
            "configuration": {"end": ("goto", "privilege_exec"), "abort": ("goto", "privilege_exec")},
            "configuration_exclusive": {"end": ("goto", "privilege_exec"), "abort": ("goto", "privilege_exec")},
        },
        "invalid": "% Invalid input detected at '^' marker.",
        "submodes": ["", "-if", "-bgp"],
    }


def _nxos():
    def prompt(d, m):
        if m.startswith("session:"):
            return d.host + "(config-s%s)# " % d.submode
        return {"exec": d.host + "> ", "privilege_exec": d.host + "# ",
                "configuration": d.host + "(config%s)# " % d.submode, "tclsh": d.host + "-tcl# "}[m]

    return {
        "login_modes": ["exec", "privilege_exec"],
        "prompt": prompt,
        "trans": {
            "exec": {"enable": ("auth", "privilege_exec")},
            "privilege_exec": {"disable": ("goto", "exec"), "configure terminal": ("goto", "configuration"),
                               "tclsh": ("goto", "tclsh")},
            "configuration": {"end": ("goto", "privilege_exec")},
            "tclsh": {"tclquit": ("goto", "privilege_exec")},
            "session": {"end": ("goto", "privilege_exec"), "abort": ("goto", "privilege_exec")},
        },
        "session_cmd": "configure session ",
        "invalid": "% Invalid command at '^' marker.",
        "submodes": ["", "-if", "-vlan"],
    }


def _eos():
    def prompt(d, m):
        if m.startswith("session:"):
            return d.host + "(config-s-%s%s)#" % (m[len("session:"):][:6], d.submode)
        return {"exec": d.host + ">", "privilege_exec": d.host + "#",
                "configuration": d.host + "(config%s)#" % d.submode}[m]

    return {
        "login_modes": ["exec", "privilege_exec"],
        "prompt": prompt,
        "trans": {
            "exec": {"enable": ("auth", "privilege_exec")},
            "privilege_exec": {"disable": ("goto", "exec"), "configure terminal": ("goto", "configuration")},
            "configuration": {"end": ("goto", "privilege_exec")},
            "session": {"end": ("goto", "privilege_exec"), "abort": ("goto", "privilege_exec")},
        },
        "session_cmd": "configure session ",
        "invalid": "% Invalid input",
        "submodes": ["", "-if-Et1", "-router-bgp"],
    }


def _junos():
    def prompt(d, m):
        u = d.user + "@" + d.host
        if m == "exec":
            return (d.banner + "\n" if d.banner else "") + u + "> "
        if m.startswith("configuration"):
            return (d.banner + "[edit]\n" if d.banner else "") + u + "# "
        if m == "shell":
            return u + ":~ % "
        return "root@" + d.host + ":~ # "

    return {
        "login_modes": ["exec"],
        "prompt": prompt,
        "trans": {
            "exec": {"configure": ("goto", "configuration"), "configure exclusive": ("goto", "configuration_exclusive"),
                     "configure private": ("goto", "configuration_private"), "start shell": ("goto", "shell"),
                     "start shell user root": ("auth", "root_shell")},
            "configuration": {"exit configuration-mode": ("goto", "exec"), "exit": ("goto", "exec")},
            "configuration_exclusive": {"exit configuration-mode": ("goto", "exec"), "exit": ("goto", "exec")},
            "configuration_private": {"exit configuration-mode": ("goto", "exec"), "exit": ("goto", "exec")},
            "shell": {"exit": ("goto", "exec")},
            "root_shell": {"exit": ("goto", "exec")},
        },
        "invalid": "unknown command.",
        "submodes": [""],
    }


def _generic():
    return {
        "login_modes": ["shell"],
        "prompt": lambda d, m: d.host + "#",
        "trans": {"shell": {}},
        "invalid": "unknown command",
        "submodes": [""],
    }


PLATFORMS = {"cisco_iosxe": _iosxe, "cisco_iosxr": _iosxr, "cisco_nxos": _nxos, "arista_eos": _eos,
             "juniper_junos": _junos, "generic": _generic}


class SimDevice:
    def __init__(self, platform="cisco_iosxe", host="router1", user="admin", login_mode=None, outputs=None,
                 secret=None, nl=b"\r\n", banner="", refuse=(), ignore=(), insertions=None, echo=True,
                 silent_after=None, submode=""):
        self.t = PLATFORMS[platform]()
        self.platform = platform
        self.host, self.user, self.banner = host, user, banner
        self.mode = login_mode or self.t["login_modes"][-1]
        self.outputs = outputs or {}      # dict line(str)->bytes  or callable(mode, line)->bytes
        self.secret = secret              # None: no password asked on "auth" transitions
        self.nl = nl
        self.refuse = set(refuse)         # {(mode, line)}: answered with the vendor's invalid-input text
        self.ignore = set(ignore)         # {(mode, line)}: prompt re-printed, nothing happens
        self.insertions = insertions or {}  # undecorated output offset -> bytes emitted before that byte
        self.echo = echo
        self.silent_after = silent_after  # undecorated offset after which the device says nothing more
        self.submode = submode
        self.line = bytearray()
        self.log = []                     # (mode, line bytes, output bytes)  — what ran where
        self.rx = bytearray()             # everything received
        self.out = bytearray()            # decorated output stream (what the transport serves)
        self.plain = bytearray()          # undecorated output stream
        self.marks = []                   # (plain offset, label) causal boundaries, for the oracle
        self.dialog = None                # (target_mode, attempts) while asking for a password
        self._skip_lf = False
        self.closed = False
        self.hidden_lines = []            # what was typed into password dialogues

    # -- output ------------------------------------------------------------------------------
    def _emit(self, b):
        for c in b:
            k = len(self.plain)
            if self.silent_after is not None and k >= self.silent_after:
                return
            ins = self.insertions.get(k)
            if ins:
                self.out += ins
            self.plain.append(c)
            self.out.append(c)

    def prompt(self):
        return self.t["prompt"](self, self.mode).encode()

    def start(self, motd=b""):
        """what the device prints when the session opens"""
        self._emit(motd + self.prompt())

    # -- input -------------------------------------------------------------------------------
    def feed(self, data):
        self.rx += data
        for c in data:
            if c == 13:
                self._skip_lf = True
                self._return()
            elif c == 10:
                if self._skip_lf:
                    self._skip_lf = False
                    continue
                self._return()
            else:
                self._skip_lf = False
                self.line.append(c)
                if self.echo and self.dialog is None:
                    self._emit(bytes([c]))

    def _table(self):
        m = "session" if self.mode.startswith("session:") else self.mode
        return self.t["trans"].get(m, {})

    def _return(self):
        raw = bytes(self.line)
        self.line = bytearray()
        if self.dialog is not None:
            target, attempts = self.dialog
            self.hidden_lines.append(raw)
            self._emit(self.nl)
            if raw.decode("latin-1") == self.secret:
                self.dialog = None
                self.mode = target
                self._emit(self.prompt())
            elif attempts >= 3:
                self.dialog = None
                self._emit(b"% Bad secrets" + self.nl + self.nl + self.prompt())
            else:
                self.dialog = (target, attempts + 1)
                self._emit(b"Password: ")
            return
        line = raw.decode("latin-1").strip()
        mode_before = self.mode
        out = b""
        if not line:
            self.marks.append((len(self.plain), "empty"))
            self._emit(self.nl + self.prompt())
            return
        act = self._table().get(line)
        sess = self.t.get("session_cmd")
        if act is None and sess and self.mode == "privilege_exec" and line.startswith(sess) and line[len(sess):].strip():
            act = ("goto", "session:" + line[len(sess):].strip())
        if act is not None and (mode_before, line) in self.ignore:
            self.log.append((mode_before, raw, b""))
            self._emit(self.nl + self.prompt())
            return
        if act is not None and (mode_before, line) in self.refuse:
            out = self.t["invalid"].encode()
            self.log.append((mode_before, raw, out))
            self._emit(self.nl + out + self.nl + self.prompt())
            return
        if act is not None:
            kind, target = act
            self.log.append((mode_before, raw, b""))
            if kind == "auth" and self.secret is not None:
                self.dialog = (target, 1)
                self._emit(self.nl + b"Password: ")
                return
            self.mode = target
            self.submode = ""
            self._emit(self.nl + self.prompt())
            return
        # user content
        if callable(self.outputs):
            out = self.outputs(mode_before, line)
        else:
            out = self.outputs.get(line, b"")
        if line == "exit" and self.platform != "juniper_junos" and mode_before in ("exec", "privilege_exec", "shell"):
            self.log.append((mode_before, raw, b""))
            self.closed = True
            return
        self.log.append((mode_before, raw, out))
        self.marks.append((len(self.plain), "cmd"))
        body = out.replace(b"\n", self.nl)
        self._emit(self.nl + (body + self.nl if body else b"") + self.prompt())


# ------------------------------------------------------------------------------------------------
# chunking policies: how the pending bytes of the causal stream are split into reads
# ------------------------------------------------------------------------------------------------
class Chunker:
    """policy: ("whole",) | ("bytes", n) | ("cuts", [absolute stream offsets]) | ("random", seed, maxlen)"""

    def __init__(self, policy=("whole",)):
        self.policy = tuple(policy)
        self.rng = random.Random(policy[1]) if policy[0] == "random" else None
        self.cuts = sorted(policy[1]) if policy[0] == "cuts" else []

    def take(self, delivered, pending):
        k = self.policy[0]
        if k == "whole":
            return pending
        if k == "bytes":
            return min(pending, self.policy[1])
        if k == "cuts":
            for c in self.cuts:
                if delivered < c < delivered + pending:
                    return c - delivered
            return pending
        if k == "random":
            return min(pending, self.rng.randint(1, self.policy[2] if len(self.policy) > 2 else 7))
        raise ValueError(self.policy)


class _Common:
    def _init(self, device, policy, fault=None):
        self.device = device
        self.chunker = Chunker(policy)
        self.delivered = 0
        self.writes = []
        self.reads = []
        self.opened = False
        self.fault = fault or {}   # {"drop_at": stream offset, "exc": exception instance/class, "write_exc_at": n}
        self.nwrites = 0

    def _read(self):
        if not self.opened:
            from scrapli.exceptions import ScrapliConnectionNotOpened
            raise ScrapliConnectionNotOpened
        drop = self.fault.get("drop_at")
        pending = len(self.device.out) - self.delivered
        if drop is not None:
            pending = min(pending, max(0, drop - self.delivered))
            if pending == 0 and (self.delivered >= drop):
                raise self._exc()
        if self.device.closed and pending <= 0:
            raise self._exc()
        if pending <= 0:
            raise Starved()
        n = max(1, self.chunker.take(self.delivered, pending))
        b = bytes(self.device.out[self.delivered:self.delivered + n])
        self.delivered += n
        self.reads.append(b)
        return b

    def _exc(self):
        from scrapli.exceptions import ScrapliConnectionError
        e = self.fault.get("exc")
        if e is None:
            return ScrapliConnectionError("encountered EOF reading from transport; typically means the device closed the connection")
        return e() if isinstance(e, type) else e

    def _write(self, b):
        if not self.opened:
            from scrapli.exceptions import ScrapliConnectionNotOpened
            raise ScrapliConnectionNotOpened
        self.nwrites += 1
        w = self.fault.get("write_exc_at")
        if w is not None and self.nwrites >= w:
            raise self._exc()
        self.writes.append(bytes(b))
        self.device.feed(b)

    def residue(self):
        """bytes the device has printed that the client has not read"""
        return bytes(self.device.out[self.delivered:])


def _bta(host="sim", port=23):
    return BaseTransportArgs(transport_options={}, host=host, port=port, timeout_socket=0, timeout_transport=0)


class ScriptedTransport(_Common, Transport):
    def __init__(self, device, policy=("whole",), fault=None, base_transport_args=None):
        Transport.__init__(self, base_transport_args or _bta())
        self._init(device, policy, fault)

    def open(self):
        self.opened = True

    def close(self):
        self.opened = False

    def isalive(self):
        return self.opened and not self.device.closed

    def read(self):
        return self._read()

    def write(self, channel_input):
        self._write(channel_input)


class AsyncScriptedTransport(_Common, AsyncTransport):
    def __init__(self, device, policy=("whole",), fault=None, base_transport_args=None):
        AsyncTransport.__init__(self, base_transport_args or _bta())
        self._init(device, policy, fault)

    async def open(self):
        self.opened = True

    def close(self):
        self.opened = False

    def isalive(self):
        return self.opened and not self.device.closed

    async def read(self):
        return self._read()

    def write(self, channel_input):
        self._write(channel_input)


# ------------------------------------------------------------------------------------------------
# drivers over the simulated device
# ------------------------------------------------------------------------------------------------
def driver_class(kind, stack):
    import scrapli.driver.core as core
    from scrapli.driver import AsyncGenericDriver, AsyncNetworkDriver, GenericDriver, NetworkDriver
    sync = stack == "sync"
    return {
        "generic": GenericDriver if sync else AsyncGenericDriver,
        "network": NetworkDriver if sync else AsyncNetworkDriver,
        "cisco_iosxe": core.IOSXEDriver if sync else core.AsyncIOSXEDriver,
        "cisco_iosxr": core.IOSXRDriver if sync else core.AsyncIOSXRDriver,
        "cisco_nxos": core.NXOSDriver if sync else core.AsyncNXOSDriver,
        "arista_eos": core.EOSDriver if sync else core.AsyncEOSDriver,
        "juniper_junos": core.JunosDriver if sync else core.AsyncJunosDriver,
    }[kind]


def make_driver(kind, stack, device, policy=("whole",), fault=None, **kw):
    """real scrapli driver of `kind` whose transport is the scripted one (no source hooks needed)"""
    from copy import deepcopy
    cls = driver_class(kind, stack)
    args = dict(host="sim", transport="telnet" if stack == "sync" else "asynctelnet", auth_bypass=True,
                timeout_ops=0, timeout_transport=0, timeout_socket=0)
    if kind == "network":
        from scrapli.driver.core.cisco_iosxe.base_driver import PRIVS
        args.update(privilege_levels=deepcopy(PRIVS), default_desired_privilege_level="privilege_exec")
    args.update(kw)
    d = cls(**args)
    tcls = ScriptedTransport if stack == "sync" else AsyncScriptedTransport
    t = tcls(device, policy, fault, base_transport_args=d._base_transport_args)
    d.transport = t
    d.channel.transport = t
    return d


class Runner:
    """runs driver calls of either stack uniformly:  r.call(d.send_command, "x")"""

    def __init__(self, stack):
        self.stack = stack
        self.loop = asyncio.new_event_loop() if stack != "sync" else None

    def call(self, fn, *a, **kw):
        if self.stack == "sync":
            return fn(*a, **kw)
        return self.loop.run_until_complete(fn(*a, **kw))

    def close(self):
        if self.loop is not None:
            self.loop.close()
            self.loop = None
