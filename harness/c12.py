"""C12 — secrets never appear in logs, repr or error messages.

proof : coq/proofs/Secrets_Proofs.v (T1 no_secret_in_observables, T2 secrets_typed_only_when_asked,
        T3 no_secret_causal_device, unrepaired_refuted, resp_observers_ok, resp_repr_refuted), props/C12.v.
tie   : (a) Gen_Sinks.v regenerated from the source (every logger.* / raise / __repr__ / __str__ sink of EVERY module of
        the package — scrapli/response.py, helper.py, factory.py included — with the identifiers flowing into it, closed
        under local assignments, call edges and attribute stores; a dataclass object formatted as a whole stands for every
        field its generated repr prints; every in-place store into a container some __repr__ prints by reference — the
        user's transport_options dict — is a sink row of kind SStore) + `sinks_ok (outside known_region gen_sinks) = true`
        decided by vm_compute (the full statement is refuted: known finding C12-response-*-hidden-input);
        (b) correspondence of model/Secrets.v [run_op] against the real channel / driver code (sync and asyncio)
        on the same generated scenarios: canary secrets through every in-channel login path, privilege escalation,
        hidden interact events, failing paths; the model is evaluated by vm_compute on the history observed at the
        transport and must produce the same I/O trace (write records REDACTED or not, reads, channel log, exceptions).
oracle: independent of the model — every record on the 'scrapli' logger tree at DEBUG, both file handlers of
        scrapli.logging, repr/str of the driver, str() of every exception in the chain, and what the device
        executed as a command line, are scanned for every encoding of every canary; so are str() / repr() of every
        Response / MultiResponse handed to the user and the exception of its raise_for_status() (failed responses of
        hidden interactions included; one model case per probe).  Oracle-only (outside the Coq model):
        Response.textfsm_parse_output, and the failing writes of the runs through the REAL transport plugins (harness/c12_rt.py: fake pty / socket / stream / library channel) with the
        endpoint dead at a write of the login / escalation / hidden-input dialogue; the LIBRARY authentication of the paramiko /
        asyncssh plugins (harness/c12_auth.py: their real open() against fakes of the library objects and against in-process
        loopback ssh servers that reject the password / the key, accept, drop during the authentication).
        repr() / str() of the DRIVER are taken at every `repr` op and at the end of every scenario (family topts: drivers
        built with the transport_options kwarg for every transport that reads it, looked at before open(), after a
        successful / failed open() and after close(), the user's own option dict included) and are model cases too
        (OpRepr / OpStr of the configuration given at construction: what the driver shows may not depend on its history).
        Family rotate: the user REASSIGNS auth_password / auth_private_key_passphrase / auth_secondary / auth_username of an
        existing driver (ops `set_attr`, `reconnect`) before the first open, after a refused open, between two opens, between
        open and acquire_priv; each assignment is a model case (OpAssign: a credential store makes nothing observable), the
        operations after it are model cases with the values the driver holds at that point.  Family shape: send_interactive with
        hidden events of unusual shapes (accepted ones are model cases, the rejected ones are oracle-only).
        Family factory (harness/c12_factory.py): the driver is created the documented way, through scrapli.Scrapli /
        scrapli.AsyncScrapli, for the five core platforms and for scrapli_community platforms — synthetic ones registered in
        sys.modules for the construction (driver type network / generic / own driver classes, defaults, every variant) and the
        ones of the installed package — with EVERY secret-bearing argument, the user logging at debug / info / warning / error /
        critical (scenario field log_level); the construction is an operation of its own (model case OpConstruct: the record
        may carry the platform's own arguments, nothing of the user's), then the platform's on_open dialogue, a command /
        hidden input, repr, close; what the factory refuses (missing / broken platform, unknown variant) is oracle-only.
        Family unencodable (oracle-only): the login password, key passphrase, enable / root-shell secret, hidden interactive
        input is a str utf-8 cannot encode (lone surrogates: what os.environ / sys.argv give for non-utf-8 bytes); the
        unchanged tree refuses it with the built-in UnicodeEncodeError (str() scanned; its args[1], the object python keeps
        in every UnicodeError, is the one thing of the chain not scanned)."""
import asyncio
import copy
import io
import json
import logging
import os
import random
import time
import warnings

from . import common
from .common import coq_bool, coq_list

LEVEL = "proof"
SOURCES = [
    "scrapli/channel/base_channel.py", "scrapli/channel/sync_channel.py", "scrapli/channel/async_channel.py",
    "scrapli/driver/network/sync_driver.py", "scrapli/driver/network/async_driver.py",
    "scrapli/driver/base/base_driver.py", "scrapli/logging.py",
    "scrapli/transport/plugins/paramiko/transport.py", "scrapli/transport/plugins/asyncssh/transport.py",
    "scrapli/transport/plugins/system/transport.py", "scrapli/driver/generic/base_driver.py",
    "scrapli/driver/generic/sync_driver.py", "scrapli/driver/generic/async_driver.py", "scrapli/decorators.py",
    "scrapli/response.py", "scrapli/helper.py", "scrapli/transport/plugins/telnet/transport.py",
    "scrapli/transport/plugins/asynctelnet/transport.py", "scrapli/factory.py",
]
META = ["%s", "{0}", "\\", "(", "[", "$", "%(x)s", ".*", "{}", "\\d", "^", "|", "?", "*", "+", ")", "]", "%d", "%r",
        "'", '"', " ", "#", ">", "{", "}", "%"]
CREDENTIAL_KWARGS = ("auth_password", "auth_private_key_passphrase", "auth_secondary")
BLOCK_S = 6.0          # how long a blocking read blocks in the timeout scenarios
TIMEOUT_OPS = 1.5      # timeout_ops of those scenarios; nothing is asserted about time (the oracle scans what became
#                        observable, a timer firing outside a blocking read is left out of the model cases)


# ------------------------------------------------------------------------------------------------
# canaries and projection
# ------------------------------------------------------------------------------------------------
def canary(rng, tag, metas=None):
    base = "Zq%s%04d" % (tag, rng.randrange(10000))
    k = rng.choice([0, 1, 2, 3]) if metas is None else metas
    s = base
    for _ in range(k):
        m = rng.choice(META)
        p = rng.randrange(1, len(s))      # never first: a device strips leading blanks of command lines
        s = s[:p] + m + s[p:]
    if s.endswith(" "):
        s += "x"
    return s


_ENC = {}


def encodings(s):
    """the ways a python str can show up in a record / message / repr / byte stream"""
    r = _ENC.get(s)
    if r is None:
        out = {s, repr(s)[1:-1], s.replace("\\", "\\\\"), repr(repr(s))[2:-2], ascii(s)[1:-1]}
        # byte forms: the utf-8 bytes and, for a str utf-8 cannot encode (lone surrogates: what os.environ / sys.argv
        # deliver for non-utf-8 bytes), every way python offers to get bytes out of it anyway; each as the repr of
        # the bytes and as the bytes themselves read the way as_text reads a byte stream (latin-1)
        for errors in ("strict", "surrogateescape", "surrogatepass", "backslashreplace", "replace", "ignore", "xmlcharrefreplace"):
            try:
                b = s.encode("utf-8", errors)
            except UnicodeError:
                continue
            out |= {repr(b)[2:-1], b.decode("latin-1")}
            if errors == "strict":
                break
        out |= {e.lower() for e in out}
        if len(_ENC) > 20000:
            _ENC.clear()
        r = _ENC[s] = (sorted(e for e in out if e), sorted({e.lower() for e in out if e}))
    return r[0]


def occurs(s, text):
    t = text.lower()
    r = _ENC.get(s)
    if r is None:
        encodings(s)
        r = _ENC[s]
    return any(e in t for e in r[1])


def as_text(x):
    if isinstance(x, (bytes, bytearray)):
        return bytes(x).decode("latin-1")
    return str(x)


class Items:
    """interning of the scenario's data items: secrets -> Sec k, everything else -> Pub n"""

    def __init__(self, secrets, publics):
        self.secrets = list(secrets)
        self.publics = []
        for p in publics:
            if p and p not in self.publics and p not in self.secrets:
                self.publics.append(p)

    def proj(self, x):
        t = as_text(x)
        out = []
        for k, s in enumerate(self.secrets):
            if occurs(s, t):
                out.append(("S", k))
        for n, s in enumerate(self.publics):
            if occurs(s, t):
                out.append(("P", n))
        return out

    def secret_hits(self, x):
        t = as_text(x)
        return [s for s in self.secrets if occurs(s, t)]


def coq_msg(m):
    return "[" + "; ".join(("Sec %d" % k) if t == "S" else ("Pub %d" % k) for (t, k) in m) + "]"


# ------------------------------------------------------------------------------------------------
# devices: in-band logins in front of a SimDevice
# ------------------------------------------------------------------------------------------------
class _Front:
    """a login dialogue in front of a SimDevice; same surface as SimDevice for the scripted transports"""

    def __init__(self, inner):
        self.inner = inner
        self.pre = bytearray()
        self.line = bytearray()
        self.stage = None
        self.closed_ = False
        self.hidden_lines = []
        self.rx = bytearray()
        self._skip_lf = False

    @property
    def out(self):
        return bytes(self.pre) + bytes(self.inner.out)

    @property
    def closed(self):
        return self.closed_ or self.inner.closed

    @property
    def log(self):
        return self.inner.log

    def emit(self, b):
        self.pre += b

    def feed(self, data):
        self.rx += data
        if self.stage == "in":
            self.inner.feed(data)
            return
        for c in data:
            if self.stage == "in":
                self.inner.feed(bytes([c]))
                continue
            if c == 13:
                self._skip_lf = True
                self.on_line(bytes(self.line))
                self.line = bytearray()
            elif c == 10:
                if self._skip_lf:
                    self._skip_lf = False
                    continue
                self.on_line(bytes(self.line))
                self.line = bytearray()
            else:
                self._skip_lf = False
                self.line.append(c)
                if self.echoing():
                    self.emit(bytes([c]))

    def enter(self, motd=b""):
        self.stage = "in"
        # the shell's output follows the dialogue in the stream
        self.inner.start(motd)


class TelnetLogin(_Front):
    def __init__(self, inner, user, password, ask_user=True, max_tries=3, motd=b"\r\nWelcome to the lab\r\n"):
        super().__init__(inner)
        self.user, self.password, self.ask_user, self.max_tries, self.motd = user, password, ask_user, max_tries, motd
        self.tries = 0
        self.got_user = None

    def start(self, motd=b""):
        self.emit(b"\r\nUser Access Verification\r\n\r\n")
        self.ask()

    def ask(self):
        if self.ask_user:
            self.stage = "user"
            self.emit(b"Username: ")
        else:
            self.stage = "pass"
            self.emit(b"Password: ")

    def echoing(self):
        return self.stage == "user"

    def on_line(self, raw):
        if self.stage == "user":
            if not raw.strip():
                self.emit(b"\r\nUsername: ")
                return
            self.got_user = raw
            self.stage = "pass"
            self.emit(b"\r\nPassword: ")
        elif self.stage == "pass":
            self.hidden_lines.append(raw)
            ok = raw.decode("latin-1") == self.password and (not self.ask_user or self.got_user.decode("latin-1") == self.user)
            if ok:
                self.emit(b"\r\n")
                self.enter(self.motd)
                return
            self.tries += 1
            self.emit(b"\r\n% Login invalid\r\n\r\n")
            if self.tries >= self.max_tries:
                self.closed_ = True
                return
            self.ask()


class SshLogin(_Front):
    """what the `ssh` binary prints on its pty: passphrase prompt, password prompt, permission denied"""

    def __init__(self, inner, password, passphrase=None, max_tries=3, motd=b"\r\nLast session: today\r\n"):
        super().__init__(inner)
        self.password, self.passphrase, self.max_tries, self.motd = password, passphrase, max_tries, motd
        self.tries = 0

    def start(self, motd=b""):
        if self.passphrase is not None:
            self.stage = "phrase"
            self.emit(b"Enter passphrase for key '/home/lab/.ssh/id_ed25519': ")
        else:
            self.stage = "pass"
            self.emit(b"lab@sim's password: ")

    def echoing(self):
        return False

    def on_line(self, raw):
        self.hidden_lines.append(raw)
        if self.stage == "phrase":
            if raw.decode("latin-1") == self.passphrase:
                self.emit(b"\r\n")
                self.enter(self.motd)
                return
            self.tries += 1
            if self.tries >= 2:
                # key unusable: fall back to password authentication
                self.stage = "pass"
                self.tries = 0
                self.emit(b"\r\nlab@sim's password: ")
            else:
                self.emit(b"\r\nEnter passphrase for key '/home/lab/.ssh/id_ed25519': ")
            return
        if raw.decode("latin-1") == self.password:
            self.emit(b"\r\n")
            self.enter(self.motd)
            return
        self.tries += 1
        if self.tries >= self.max_tries:
            self.emit(b"\r\nlab@sim: Permission denied (publickey,password).\r\n")
            self.closed_ = True
            return
        self.emit(b"\r\nPermission denied, please try again.\r\nlab@sim's password: ")


# ------------------------------------------------------------------------------------------------
# observation: one ordered event list per scenario
# ------------------------------------------------------------------------------------------------
class _Mem(logging.Handler):
    def __init__(self, events):
        super().__init__(level=logging.DEBUG)
        self.events = events

    def emit(self, record):
        try:
            text = record.getMessage()
        except Exception as e:  # noqa  (a record that cannot be formatted is an observable of its own)
            text = "UNFORMATTABLE %r %r %s" % (record.msg, record.args, type(e).__name__)
        self.events.append(("log", record.name, record.levelname, text))


class _NotConstructed(Exception):
    """the factory did not return a driver (harness control flow, never escapes run_scenario)"""


class _ChanLog(io.BytesIO):
    def __init__(self, events):
        super().__init__()
        self.events = events

    def write(self, b):
        self.events.append(("chan", bytes(b)))
        return super().write(b)

    def close(self):      # keep the content readable after channel.close()
        pass


def _exc_name(e):
    return type(e).__name__


LOG_LEVELS = {"debug": logging.DEBUG, "info": logging.INFO, "warning": logging.WARNING, "error": logging.ERROR,
              "critical": logging.CRITICAL}


def _exc_chain(e):
    chain, seen = [], set()
    while e is not None and id(e) not in seen:
        seen.add(id(e))
        args = getattr(e, "args", "")
        if type(e).__module__ == "builtins" and isinstance(e, UnicodeError) and len(args) == 5:
            # a built-in UnicodeEncodeError / UnicodeDecodeError keeps the object it failed on in args[1] (python's doing,
            # its str() names one character / a position): the repr of a built-in exception is outside the property —
            # its MESSAGE and the rest of its args are scanned like everything else
            args = args[:1] + args[2:]
        chain.append({"cls": _exc_name(e), "text": str(e) if isinstance(e, Exception) else "", "args": repr(args)})
        e = e.__cause__ or e.__context__
    return chain


def instrument(d, stack, events, block, read_fault=None):
    """instance-level wrappers (no source hooks): transport read/write, channel operations and read loops.
    read_fault {"after_write": k, "times": n}: the n (default 1) reads that follow the k-th transport write (1-based)
    raise the EOF ScrapliConnectionError the telnet / system transports raise, then the stream goes on"""
    from .simdevice import Starved
    t = d.transport
    ch = d.channel
    is_async = stack != "sync"
    raw_read, raw_write = t.read, t.write
    rf = {"n": 0, "armed": 0}

    def eof_now():
        if rf["armed"] <= 0:
            return
        rf["armed"] -= 1
        from scrapli.exceptions import ScrapliConnectionError
        events.append(("tread_exc", "ScrapliConnectionError"))
        raise ScrapliConnectionError("encountered EOF reading from transport; typically means the device closed the connection")

    if is_async:
        async def tread():
            eof_now()
            try:
                b = await raw_read()
            except Starved:
                if block:
                    events.append(("tblock",))
                    try:
                        await asyncio.sleep(BLOCK_S)
                    except BaseException as e:
                        events.append(("tread_exc", _exc_name(e)))
                        raise
                events.append(("tread_exc", "Starved"))
                raise
            except BaseException as e:
                events.append(("tread_exc", _exc_name(e)))
                raise
            events.append(("tread", b))
            return b
    else:
        def tread():
            eof_now()
            try:
                b = raw_read()
            except Starved:
                if block:
                    events.append(("tblock",))
                    try:
                        time.sleep(BLOCK_S)
                    except BaseException as e:
                        events.append(("tread_exc", _exc_name(e)))
                        raise
                events.append(("tread_exc", "Starved"))
                raise
            except BaseException as e:
                events.append(("tread_exc", _exc_name(e)))
                raise
            events.append(("tread", b))
            return b

    def twrite(channel_input):
        events.append(("twrite", bytes(channel_input)))
        rf["n"] += 1
        if read_fault and rf["n"] == read_fault.get("after_write"):
            rf["armed"] = int(read_fault.get("times", 1))
        try:
            return raw_write(channel_input)
        except BaseException as e:
            events.append(("twrite_exc", _exc_name(e)))
            raise

    t.read, t.write = tread, twrite

    def extra(label, a, kw, r):
        """for _read_until_explicit_prompt: did the event's own expected response (prompts[0]) match what was read?
        (scrapli's own pattern construction and search window; independent of how send_inputs_interact decides)"""
        if label != "_read_until_explicit_prompt":
            return None
        try:
            import re as _re
            prompts = kw.get("prompts", a[0] if a else None)
            pat = ch._get_prompt_pattern(class_pattern=ch._base_channel_args.comms_prompt_pattern, pattern=prompts[0])
            return bool(_re.search(pat, ch._process_read_buf(read_buf=io.BytesIO(r))))
        except Exception:  # noqa
            return None

    def wrap(obj, name, label, kind):
        fn = getattr(obj, name)
        def begin(a, kw):
            events.append((kind + "_begin", label, a, kw))
            if label == "_escalate":
                # the enable secret the driver holds NOW (it may have been reassigned since construction)
                events.append(("attr_now", "auth_secondary", str(getattr(d, "auth_secondary", ""))))

        if is_async and asyncio.iscoroutinefunction(fn):
            async def w(*a, **kw):
                begin(a, kw)
                try:
                    r = await fn(*a, **kw)
                except BaseException as e:
                    events.append((kind + "_end", label, _exc_name(e), str(e) if isinstance(e, Exception) else ""))
                    raise
                events.append((kind + "_end", label, None, "", extra(label, a, kw, r)))
                return r
        else:
            def w(*a, **kw):
                begin(a, kw)
                try:
                    r = fn(*a, **kw)
                except BaseException as e:
                    events.append((kind + "_end", label, _exc_name(e), str(e) if isinstance(e, Exception) else ""))
                    raise
                events.append((kind + "_end", label, None, "", extra(label, a, kw, r)))
                return r
        setattr(obj, name, w)

    for name in ("channel_authenticate_telnet", "channel_authenticate_ssh", "get_prompt", "send_input",
                 "send_inputs_interact"):
        wrap(ch, name, name, "op")
    for name in ("_read_until_input", "_read_until_prompt", "_read_until_explicit_prompt"):
        wrap(ch, name, name, "loop")
    if hasattr(d, "_escalate"):
        wrap(d, "_escalate", "_escalate", "op")


def reset_logging():
    lg = logging.getLogger("scrapli")
    for h in list(lg.handlers):
        if not isinstance(h, logging.NullHandler):
            try:
                h.close()
            except Exception:  # noqa
                pass
            lg.removeHandler(h)
    lg.setLevel(logging.NOTSET)
    lg.propagate = True
    for name, l2 in list(logging.Logger.manager.loggerDict.items()):
        if name.startswith("scrapli.") and isinstance(l2, logging.Logger):
            for h in list(l2.handlers):
                l2.removeHandler(h)
            l2.setLevel(logging.NOTSET)
            l2.propagate = True


# ------------------------------------------------------------------------------------------------
# scenarios
# ------------------------------------------------------------------------------------------------
def priv_device(spec, **kw):
    """a two-level device of a vendor scrapli has no platform for (what a user writes privilege_levels for): own mode
    names, own escalation / de-escalation commands, own prompt endings and its OWN way of asking for the secret —
    `ask` is what it prints when the escalation command needs the secret ("{prompt}" = its current prompt: a device
    that says so and shows its prompt again, reading the next line without echo).  Same causal line discipline as
    SimDevice (subclass: only the vendor table and the wording of the password dialogue differ)."""
    from .simdevice import SimDevice

    class PrivDevice(SimDevice):
        def _ask(self):
            return self.ask.replace("{prompt}", self.prompt().decode("latin-1")).encode("latin-1")

        def _return(self):
            if self.dialog is None:
                raw = bytes(self.line)
                act = self._table().get(raw.decode("latin-1").strip())
                if act is not None and act[0] == "auth" and self.secret is not None:
                    self.line = bytearray()
                    self.log.append((self.mode, raw, b""))
                    self.dialog = (act[1], 1)
                    self._emit(self.nl + self._ask())
                    return
                return SimDevice._return(self)
            raw = bytes(self.line)
            self.line = bytearray()
            target, attempts = self.dialog
            self.hidden_lines.append(raw)
            self._emit(self.nl)
            if raw.decode("latin-1") == self.secret:
                self.dialog = None
                self.mode = target
                self._emit(self.prompt())
            elif attempts >= 3:
                self.dialog = None
                self._emit(b"% Access denied" + self.nl + self.nl + self.prompt())
            else:
                self.dialog = (target, attempts + 1)
                self._emit(self._ask())

    low, high = spec["low"], spec["high"]
    d = PrivDevice("cisco_iosxe", login_mode=low, **kw)
    d.ask = spec["ask"]
    d.t = {"login_modes": [low, high],
           "prompt": lambda dd, m: dd.host + (spec["low_end"] if m == low else spec["high_end"]),
           "trans": {low: {spec["escalate"]: ("auth", high)}, high: {spec["deescalate"]: ("goto", low)}},
           "invalid": "% Unrecognized command", "submodes": [""]}
    return d


def make_device(sc):
    from .simdevice import SimDevice
    dv = sc["device"]
    outputs = {k: v.encode() for k, v in sc.get("outputs", {}).items()}
    if dv.get("custom"):
        inner = priv_device(dv["custom"], secret=dv.get("enable_secret"), outputs=outputs, host=dv.get("host", "router1"))
    else:
        inner = SimDevice(dv["platform"], login_mode=dv.get("login_mode"), secret=dv.get("enable_secret"),
                          outputs=outputs, host=dv.get("host", "router1"))
    front = dv.get("front")
    if front == "telnet":
        return TelnetLogin(inner, dv["user"], dv["password"], ask_user=dv.get("ask_user", True)), inner
    if front == "ssh":
        return SshLogin(inner, dv["password"], dv.get("passphrase")), inner
    return inner, inner


def run_scenario(sc, workdir):
    """run one scenario against the real scrapli code; returns the observation dict"""
    from .simdevice import Runner, Starved, make_driver
    import scrapli.logging as slog

    stack = sc["stack"]
    events = []
    reset_logging()
    prev_raise = logging.raiseExceptions
    logging.raiseExceptions = False
    files = {}
    os.makedirs(workdir, exist_ok=True)
    # the level the user logs at (default: everything); the observers see what the 'scrapli' logger lets through
    level = sc.get("log_level", "debug")
    for buffered in (True, False):
        path = os.path.join(workdir, "scrapli_%s.log" % ("buffered" if buffered else "plain"))
        if os.path.exists(path):
            os.remove(path)
        slog.enable_basic_logging(file=path, level=level, buffer_log=buffered, caller_info=sc.get("caller_info", False))
        files["buffered" if buffered else "plain"] = path
    lg = logging.getLogger("scrapli")
    lg.addHandler(_Mem(events))
    lg.setLevel(LOG_LEVELS[level])

    dev, inner = make_device(sc)
    dev.start()
    devices = [(dev, inner)]       # one per connection (op `reconnect`: the next open() reaches a fresh session)
    # the kwargs are the USER's objects: a deep copy of the scenario's (what scrapli does to them must not change the
    # scenario that goes into a replay file); the transport_options dict handed to the driver is kept to be looked at
    kw = copy.deepcopy(dict(sc.get("driver_kwargs", {})))
    user_opts = kw.get("transport_options")
    pristine = copy.deepcopy({k: v for k, v in kw.items() if k not in CREDENTIAL_KWARGS})
    block = bool(sc.get("timeout"))
    if block:
        kw["timeout_ops"] = TIMEOUT_OPS
    chanlog = _ChanLog(events)
    kw["channel_log"] = chanlog
    if sc.get("privilege_levels"):
        # the USER's own privilege levels (scenario: plain dicts; handed to the driver as PrivilegeLevel objects)
        from scrapli.driver.network.base_driver import PrivilegeLevel
        pl = sc["privilege_levels"]
        kw["privilege_levels"] = {name: PrivilegeLevel(name=name, **dict(lv)) for name, lv in pl["levels"].items()}
        kw["default_desired_privilege_level"] = pl["default"]
    obs = {"exceptions": [], "reprs": [], "results": [], "responses": [], "repr_points": []}
    r = Runner(stack)
    d = None
    actx = None
    wctx = warnings.catch_warnings(record=True)
    wlist = wctx.__enter__()
    warnings.simplefilter("always")
    try:
        if sc.get("libauth"):
            # the REAL transport plugin AND its real open(): library authentication against fakes of the library
            # objects / in-process loopback servers that accept, reject or drop (harness/c12_auth.py)
            from .c12_auth import make_auth_driver
            d, actx = make_auth_driver(sc, dev, workdir, **kw)
        elif sc.get("transport"):
            # the REAL transport plugin with a fake endpoint (pty / socket / stream pair / library channel)
            from .c12_rt import make_real_driver
            d = make_real_driver(sc["kind"], sc["transport"], dev, tuple(sc.get("policy", ["whole"])), sc.get("fault"), **kw)
        elif sc.get("factory"):
            # the driver the FACTORY returns (Scrapli / AsyncScrapli; core and scrapli_community platforms): the
            # construction is an operation of its own — what it logs / raises is observed like any other step
            from .c12_factory import make_factory_driver
            events.append(("step", "construct"))
            n0 = len(events)
            try:
                d = make_factory_driver(sc, dev, tuple(sc.get("policy", ["whole"])), sc.get("fault"), **kw)
            except Exception as e:  # noqa  (platform not found / broken platform definition / rejected argument)
                obs["exceptions"].append({"where": "construct", "chain": _exc_chain(e)})
                obs["constructed"] = _exc_name(e)
                d = None
            construct_records = [ev for ev in events[n0:] if ev[0] == "log"]
            obs["construct_records"] = [[ev[1], ev[2]] for ev in construct_records]
            events.append(("step", "construct_end"))
        else:
            d = make_driver(sc["kind"], stack, dev, tuple(sc.get("policy", ["whole"])), sc.get("fault"), **kw)
        if d is None:
            raise _NotConstructed()
        instrument(d, stack, events, block, sc.get("read_fault"))
        # the configuration the user gave (model/Secrets.v [conf]): what repr() / str() of the driver may show, at ANY
        # point of its life cycle, is decided from this — taken before the first operation
        # — and, for an attribute the user REASSIGNS on the existing driver (op `set_attr`), from the value assigned
        cdesc = {"host": str(d.host), "user": str(d.auth_username), "key": str(d.auth_private_key), "rest": repr(pristine),
                 "pw": kw.get("auth_password", ""), "ph": kw.get("auth_private_key_passphrase", ""),
                 "sec2": kw.get("auth_secondary", "")}
        if sc.get("factory"):
            from .c12_factory import platform_text
            f = sc["factory"]
            obs["constructed"] = type(d).__name__
            # model case OpConstruct: (community platform?, what the platform definition supplies, the user's
            # configuration) against the records the construction emitted
            events.append(("construct_probe", f.get("origin") != "core",
                           platform_text(f["synthetic"], f.get("variant")) if f.get("synthetic") else "",
                           dict(cdesc), [ev[3] for ev in construct_records]))

        def probe_driver(tag):
            """repr() / str() of the driver (and of the option dict the user handed in, which repr(driver) prints)"""
            shown_r, shown_s = repr(d), str(d)
            obs["reprs"].append(("repr" + tag, shown_r))
            obs["reprs"].append(("str" + tag, shown_s))
            events.append(("drv_probe", "repr", dict(cdesc), shown_r))
            events.append(("drv_probe", "str", dict(cdesc), shown_s))
            if user_opts is not None:
                obs["reprs"].append(("user_transport_options" + tag, repr(user_opts)))
            openers = [x for x in done if x.startswith(("open", "transport_open", "login_"))]
            obs["repr_points"].append("after close" if [x for x in done if x.startswith("close")] else
                                      "after failed open" if [x for x in openers if x.endswith("!")] else
                                      "after open" if openers else "before open")

        done = []

        def note_exc(e, where):
            obs["exceptions"].append({"where": where, "chain": _exc_chain(e)})

        def probe_response(res, hidden, probes=None):
            """what a user does with a Response / MultiResponse: str(), repr(), raise_for_status(), textfsm parsing.
            repr() and textfsm_parse_output() of a response whose channel_input holds a hidden input are the region of
            the known finding C12-response-hidden-input: only probed when the scenario asks for it (finding replays)"""
            if probes is None:
                probes = ["str", "raise_for_status"] + ([] if hidden else ["repr"])
            obs["responses"].append({"cls": type(res).__name__, "failed": bool(res.failed), "hidden": bool(hidden), "probes": list(probes)})
            elems = list(res.data) if hasattr(res, "data") else [res]
            # what the model's [resp] record is built from (model/Secrets.v)
            rdesc = {"host": res.host, "input": "\n".join(str(x.channel_input) for x in elems),
                     "fwc": "\n".join(str(x.failed_when_contains) for x in elems), "failed": bool(res.failed)}
            for pr in probes:
                events.append(("step", "probe_" + pr))
                shown, exc = "", None
                try:
                    if pr == "str":
                        shown = str(res)
                        obs["reprs"].append(("response_str", shown))
                    elif pr == "repr":
                        shown = repr(res)
                        obs["reprs"].append(("response_repr", shown))
                    elif pr == "raise_for_status":
                        res.raise_for_status()
                    elif pr == "textfsm":
                        res.textfsm_parse_output()
                    else:
                        raise ValueError("unknown probe %r" % (pr,))
                except ValueError:
                    raise
                except Exception as e:  # noqa
                    note_exc(e, "response." + pr)
                    exc = (_exc_name(e), str(e) + " " + repr(getattr(e, "args", "")))
                finally:
                    events.append(("resp_probe", pr, rdesc, shown, exc))
                    events.append(("step", "probe_end"))

        for op in sc["ops"]:
            name = op[0]
            events.append(("step", name))
            try:
                if name == "open":
                    r.call(d.open)
                elif name == "open_ctx":
                    # `with Driver(...) as conn:` — a failing open is reported as ScrapliConnectionError(exc)
                    r.call(d.__enter__ if stack == "sync" else d.__aenter__)
                elif name == "transport_open":
                    if stack == "sync":
                        d.transport.open()
                    else:
                        r.call(d.transport.open)
                    d.channel.open()
                elif name == "login_ssh":
                    r.call(d.channel.channel_authenticate_ssh, op[1], op[2])
                elif name == "login_telnet":
                    r.call(d.channel.channel_authenticate_telnet, op[1], op[2])
                elif name == "send_command":
                    kw2 = {}
                    if len(op) > 2 and op[2] is not None:
                        kw2["failed_when_contains"] = list(op[2])
                    res = r.call(d.send_command, op[1], **kw2)
                    obs["results"].append(res.result)
                    probe_response(res, False, op[3] if len(op) > 3 else None)
                elif name == "send_commands":
                    kw2 = {}
                    if len(op) > 2 and op[2] is not None:
                        kw2["failed_when_contains"] = list(op[2])
                    res = r.call(d.send_commands, list(op[1]), **kw2)
                    obs["results"].append(res.result)
                    probe_response(res, False, op[3] if len(op) > 3 else None)
                elif name == "set_attr":
                    # the user assigns an attribute of the EXISTING driver object (credential rotation, another
                    # password after a refused login, a secret fetched after the inventory built the drivers)
                    events.append(("op_begin", "set_attr", (op[1], op[2]), {}))
                    try:
                        setattr(d, op[1], op[2])
                    except BaseException as e:
                        events.append(("op_end", "set_attr", _exc_name(e), str(e) if isinstance(e, Exception) else ""))
                        raise
                    events.append(("op_end", "set_attr", None, "", None))
                    if op[1] in SET_ATTR_CONF:
                        cdesc[SET_ATTR_CONF[op[1]]] = str(op[2])
                    if op[1] in pristine:
                        pristine[op[1]] = op[2]
                        cdesc["rest"] = repr(pristine)
                    obs.setdefault("assigned", []).append([op[1], getattr(d, op[1]) == op[2]])
                elif name == "reconnect":
                    # the next open() of the same driver object reaches a NEW session of the device (op[1]: what has
                    # changed at the device meanwhile, e.g. the password it accepts)
                    dev, inner = make_device(dict(sc, device=dict(sc["device"], **(op[1] if len(op) > 1 else {}))))
                    dev.start()
                    devices.append((dev, inner))
                    if sc.get("libauth"):
                        raise ValueError("reconnect: not available for the library-authentication endpoints")
                    if sc.get("transport"):
                        from .c12_rt import reconnect
                        reconnect(d, sc["transport"], dev, tuple(sc.get("policy", ["whole"])))
                    else:
                        d.transport._init(dev, tuple(sc.get("policy", ["whole"])), None)
                elif name == "send_interactive":
                    evs = decode_events(op[1])
                    kw2 = {}
                    if len(op) > 2 and op[2] is not None:
                        kw2["interaction_complete_patterns"] = list(op[2])
                    if len(op) > 3 and op[3] is not None:
                        kw2["failed_when_contains"] = list(op[3])
                    res = r.call(d.send_interactive, evs, **kw2)
                    obs["results"].append(res.result)
                    probe_response(res, any(event_hidden(e) for e in evs), op[4] if len(op) > 4 else None)
                elif name == "acquire_priv":
                    r.call(d.acquire_priv, op[1])
                elif name == "get_prompt":
                    obs["results"].append(r.call(d.get_prompt))
                elif name == "repr":
                    probe_driver("")
                    obs["reprs"].append(("repr_channel", repr(d.channel) + str(d.channel)))
                    obs["reprs"].append(("repr_transport", repr(d.transport) + str(d.transport)))
                elif name == "close":
                    r.call(d.close)
                else:
                    raise ValueError("unknown op %r" % (name,))
            except Starved as e:
                obs["exceptions"].append({"where": name, "chain": [{"cls": "Starved", "text": "", "args": ""}]})
                break
            except Exception as e:  # noqa
                note_exc(e, name)
                done.append(name + "!")
                if sc.get("stop_on_error", True):
                    break
            else:
                done.append(name)
        if d is not None:
            probe_driver("_after")
    except _NotConstructed:
        pass        # the factory refused: what it raised / logged is the observation
    finally:
        if actx is not None:
            obs["offered"] = [list(x) for x in actx.offered]
            try:
                actx.cleanup(r)
            except Exception as e:  # noqa
                obs["offered"].append(["cleanup failed", type(e).__name__])
        try:
            r.close()
        except Exception:  # noqa
            pass
        try:
            if hasattr(r, "loop") and r.loop is not None:
                r.loop.close()
        except Exception:  # noqa
            pass
        reset_logging()
        logging.raiseExceptions = prev_raise
        obs["warnings"] = [str(w.message) for w in wlist]
        wctx.__exit__(None, None, None)
    obs["events"] = events
    obs["files"] = {k: open(p, "rb").read().decode("latin-1") for k, p in files.items()}
    obs["device_log"] = [(m, bytes(l), bytes(o)) for (_dv, inn) in devices for (m, l, o) in inn.log]
    obs["hidden_lines"] = [bytes(x) for (dv, inn) in devices
                           for x in (list(getattr(dv, "hidden_lines", [])) if dv is not inn else []) + list(inn.hidden_lines)]
    obs["channel_log"] = chanlog.getvalue()
    return obs


# attributes of the driver whose reassignment changes the model's conf record (what repr() / str() may show)
SET_ATTR_CONF = {"auth_username": "user", "auth_password": "pw", "auth_private_key_passphrase": "ph", "auth_secondary": "sec2"}


def decode_events(spec):
    """interact events of a scenario (JSON) -> what the user hands to send_interactive.  An event written as a list is a
    tuple (the documented shape), `{"list": [...]}` an event that IS a list; `{"tuple": [events]}` around all of them:
    the events handed over as a tuple instead of a list.  Elements are whatever the scenario says (None, numbers,
    lists, more or fewer than three of them): the malformed shapes are scenarios too."""
    whole_tuple = isinstance(spec, dict)
    if whole_tuple:
        spec = spec["tuple"]
    evs = [list(e["list"]) if isinstance(e, dict) else tuple(e) for e in spec]
    return tuple(evs) if whole_tuple else evs


def event_hidden(e):
    try:
        return bool(e[2])
    except Exception:  # noqa  (shorter than three elements / not indexable: not marked hidden)
        return False


class _Endpoint:
    """stands for the pty / socket / paramiko channel / asyncssh stdin a real transport writes to"""

    def __init__(self, fault=None):
        self.got = []
        self.sock = self
        self.fault = fault or {}
        self.n = 0

    def write(self, b):
        self.n += 1
        if self.fault.get("write_at") == self.n:
            # the pty / socket / library channel is dead when this write happens
            from .c12_rt import WRITE_EXC
            raise WRITE_EXC[self.fault.get("exc", "EIO")]()
        self.got.append(bytes(b))

    send = write

    def __bool__(self):
        return True


_HANDLER = {}


def ssh_handler_called(stack):
    """does channel_authenticate_ssh of this stack run _ssh_message_handler on the login buffer? (read from the source:
    the sync loop always did, the asyncio loop does since fix ad58f65)"""
    if stack not in _HANDLER:
        import inspect
        from scrapli.channel import AsyncChannel, Channel
        cls = Channel if stack == "sync" else AsyncChannel
        _HANDLER[stack] = "_ssh_message_handler(" in inspect.getsource(cls.channel_authenticate_ssh)
    return _HANDLER[stack]


REAL_TRANSPORTS = [("system", "sync", "session"), ("telnet", "sync", "socket"), ("asynctelnet", "async", "stdin"),
                   ("paramiko", "sync", "session_channel"), ("asyncssh", "async", "stdin"),
                   ("ssh2", "sync", "session_channel")]


def run_transport_writes(sc, workdir):
    """the redacted / shown channel writes through the REAL transport classes' write() (endpoint replaced by a sink)"""
    import scrapli.logging as slog
    from .simdevice import driver_class
    events = []
    reset_logging()
    prev_raise = logging.raiseExceptions
    logging.raiseExceptions = False
    files = {}
    os.makedirs(workdir, exist_ok=True)
    obs = {"exceptions": [], "reprs": [], "results": [], "device_log": [], "hidden_lines": [], "channel_log": b"", "warnings": []}
    try:
        for buffered in (True, False):
            path = os.path.join(workdir, "scrapli_t_%s.log" % ("buffered" if buffered else "plain"))
            if os.path.exists(path):
                os.remove(path)
            slog.enable_basic_logging(file=path, level="debug", buffer_log=buffered)
            files["buffered" if buffered else "plain"] = path
        lg = logging.getLogger("scrapli")
        lg.addHandler(_Mem(events))
        lg.setLevel(logging.DEBUG)
        with warnings.catch_warnings(record=True) as wl:
            warnings.simplefilter("always")
            try:
                d = driver_class("generic", sc["stack"])(host="sim", transport=sc["transport"], auth_strict_key=False,
                                                         auth_username="labuser", **sc["driver_kwargs"])
            except Exception as e:  # transport plugin not installed in this environment
                obs["skipped"] = "%s: %s" % (type(e).__name__, e)
                d = None
            if d is not None:
                ep = _Endpoint(sc.get("fault"))
                setattr(d.transport, sc["attr"], ep)
                for (val, red) in sc["writes"]:
                    try:
                        d.channel.write(channel_input=val, redacted=red)
                        d.channel.send_return()
                    except Exception as e:  # noqa
                        chain, seen = [], set()
                        while e is not None and id(e) not in seen:
                            seen.add(id(e))
                            chain.append({"cls": type(e).__name__, "text": str(e), "args": repr(e.args)})
                            e = e.__cause__ or e.__context__
                        obs["exceptions"].append({"where": "write", "chain": chain})
                obs["results"] = [b.decode("latin-1") for b in ep.got]
                obs["reprs"] += [("repr", repr(d)), ("str", str(d)), ("repr_transport", repr(d.transport) + str(d.transport))]
            obs["warnings"] = [str(w.message) for w in wl]
    finally:
        reset_logging()
        logging.raiseExceptions = prev_raise
    obs["events"] = events
    obs["files"] = {k: open(p, "rb").read().decode("latin-1") for k, p in files.items()}
    return obs


def sc_transport(rng, tname, stack, attr, fault_at=None):
    """fault_at: which endpoint write (1-based; payload and return alternate) finds the endpoint dead"""
    pw, ph, hid = canary(rng, "P"), canary(rng, "K"), canary(rng, "H")
    cmd = "show yam%d" % rng.randrange(100)
    sc = {"family": "transport-write", "mode": tname, "kind": "generic", "stack": stack, "policy": ["whole"],
          "transport": tname, "attr": attr, "driver_kwargs": {"auth_password": pw, "auth_private_key_passphrase": ph},
          "secrets": {"password": pw, "passphrase": ph, "hidden": hid}, "publics": [cmd],
          "writes": [[pw, True], [cmd, False], [ph, True], [hid, True]], "ops": []}
    if fault_at is not None:
        from .c12_rt import TRANSPORTS
        sc["fault"] = {"write_at": fault_at, "exc": rng.choice(TRANSPORTS[tname][2])}
        sc["mode"] = tname + "+write-fault"
    return sc


# ------------------------------------------------------------------------------------------------
# property oracle (independent of the model)
# ------------------------------------------------------------------------------------------------
def oracle(sc, obs):
    """list of leaks: (where, secret name, excerpt)"""
    secrets = sc["secrets"]           # name -> value
    leaks = []

    def scan(where, text):
        t = as_text(text)
        for name, val in secrets.items():
            if val and occurs(val, t):
                leaks.append({"where": where, "secret": name, "excerpt": t[:300]})

    # records emitted while a Response is being parsed (textfsm_parse_output) are attributed to that probe
    step, parse_texts = None, []
    for ev in obs["events"]:
        if ev[0] == "step":
            step = ev[1]
        elif ev[0] == "log":
            if step == "probe_textfsm":
                scan("response_textfsm log record %s %s" % (ev[1], ev[2]), ev[3])
                if ev[3]:
                    parse_texts.append(ev[3])
            else:
                scan("log record %s %s" % (ev[1], ev[2]), ev[3])
    for k, text in obs["files"].items():
        for ln in text.split("\n"):
            if any(t in ln for t in parse_texts):
                scan("response_textfsm log file (%s handler)" % k, ln)
            else:
                scan("log file (%s handler)" % k, ln)
    # repr / str of the driver, its channel and transport, and of every Response / MultiResponse handed to the user
    for (k, text) in obs["reprs"]:
        scan(k, text)
    for ex in obs["exceptions"]:
        for c in ex["chain"]:
            scan("exception %s in %s" % (c["cls"], ex["where"]), c["text"] + " " + c["args"])
    for wtext in obs.get("warnings", []):
        scan("warning", wtext)
    # device side: a secret executed as a command line (typed when the device was not asking for it)
    for (mode, line, out) in obs["device_log"]:
        scan("typed as a command at the device (%s)" % mode, line)
    # the channel log may hold a secret only if the device itself printed it
    if sc.get("device_never_prints_secrets", True):
        scan("channel log", obs["channel_log"])
    return leaks


def leak_signature(leaks):
    kinds = sorted({l["where"].split(" ")[0] for l in leaks})
    return "c12-leak:" + ",".join(kinds)


# ------------------------------------------------------------------------------------------------
# correspondence: channel operations of the run -> model cases
# ------------------------------------------------------------------------------------------------
EXC_CODE = {"ScrapliAuthenticationFailed": 1, "ScrapliTimeout": 2, "ScrapliConnectionError": 3, "ScrapliCommandFailure": 4}


def build_resp_case(pr, rdesc, shown, exc, items):
    """Coq case term for one probe of a Response / MultiResponse (str, repr, raise_for_status); textfsm parsing is
    outside the model"""
    P = items.proj
    ctor = {"str": "OpRespStr", "repr": "OpRespRepr", "raise_for_status": "OpRespRaise"}.get(pr)
    if ctor is None:
        return None
    r = "(mkResp %s %s %s %s)" % (coq_msg(P(rdesc["host"])), coq_msg(P(rdesc["input"])), coq_msg(P(rdesc["fwc"])), coq_bool(rdesc["failed"]))
    if exc is not None:
        trace = ["OExc %d %s" % (EXC_CODE.get(exc[0], 99), coq_msg(P(exc[1])))]
    elif pr == "raise_for_status":
        trace = []
    else:
        trace = ["ORepr %s" % coq_msg(P(shown))]
    return "(%s %s, ([] : list rev), (%s : list obs), ([] : msg), %d%%nat)" % (ctor, r, coq_list(trace), 1 if exc is not None else 0)

def build_conf_case(pr, cdesc, shown, items):
    """Coq case term for one repr() / str() of the DRIVER: the model's [m_repr] / [m_str] of the configuration the user
    gave at construction, against what the real driver shows at this point of its life cycle"""
    P = items.proj
    ctor = {"repr": "OpRepr", "str": "OpStr"}[pr]
    c = "(mkConf %s)" % " ".join(coq_msg(P(cdesc[k])) for k in ("host", "user", "key", "rest", "pw", "ph", "sec2"))
    return "(%s %s, ([] : list rev), ([ORepr %s] : list obs), ([] : msg), 0%%nat)" % (ctor, c, coq_msg(P(shown)))


def build_construct_case(community, plat_text, cdesc, records, items):
    """Coq case term for one construction through the factory: OpConstruct of (community platform?, what the platform
    definition supplies, the configuration the user gave) against the atoms of the records emitted meanwhile"""
    P = items.proj
    c = "(mkConf %s)" % " ".join(coq_msg(P(cdesc[k])) for k in ("host", "user", "key", "rest", "pw", "ph", "sec2"))
    infos = []
    for text in records:
        infos += P(text)
    return "(OpConstruct %s %s %s, ([] : list rev), ([] : list obs), (%s : msg), 0%%nat)" % (
        coq_bool(bool(community)), coq_msg(P(plat_text)), c, coq_msg(sorted(set(infos))))


FLAG_NAMES = ["kick", "user", "pass", "phrase", "prompt", "denied", "input", "expect", "complete"]


def coq_flags(fl):
    return "(mkF %s)" % " ".join(coq_bool(n in fl) for n in FLAG_NAMES)


def op_segments(events):
    """(label, args, kwargs, inner events, end exception name, end exception text) of every outermost-or-nested
    channel operation / _escalate call"""
    out = []
    stack = []
    for i, ev in enumerate(events):
        if ev[0] == "op_begin":
            stack.append((ev[1], ev[2], ev[3], i))
        elif ev[0] == "op_end" and stack:
            label, a, kw, start = stack.pop()
            out.append((label, a, kw, events[start + 1:i], ev[2], ev[3]))
    return out


def build_case(label, a, kw, evs, exc, exc_text, items, sc):
    """Coq case term for one operation, or None when the operation is outside the model"""
    P = items.proj
    sec = sc["secrets"]

    def arg(name, pos, default=None):
        if name in kw:
            return kw[name]
        return a[pos] if len(a) > pos else default

    # ---- the operation descriptor
    if label == "get_prompt":
        opt = "OpGetPrompt"
    elif label == "send_input":
        ci = arg("channel_input", 0)
        if kw.get("eager"):
            return None
        if not isinstance(ci, str):
            return None
        opt = "(OpSendInput %s %s)" % (coq_msg(P(ci)), coq_bool(bool(kw.get("eager_input")) or ci == ""))
    elif label == "send_inputs_interact":
        evl = arg("interact_events", 0)
        pats = kw.get("interaction_complete_patterns")
        if not isinstance(evl, list):
            return None
        evt = []
        for e in evl:
            # unusual shapes the code accepts are modelled as what it reads of them: elements 0..2 of a tuple OR list,
            # anything after them ignored, an expected response of None / "" = "read to the prompt" (e_resp_ne false)
            if not isinstance(e, (tuple, list)) or len(e) < 2 or not isinstance(e[0], str) or not (e[1] is None or isinstance(e[1], str)):
                return None     # the code fails on this event with a python error: outside the model (oracle-only)
            hidden = bool(e[2]) if len(e) > 2 else False
            if len(e) > 2 and type(e[2]) is not bool:
                return None     # `hidden_input is not True` differs from truthiness there: outside the model
            evt.append("(mkEv %s %s %s %s %s)" % (coq_msg(P(e[0])), coq_msg(P(e[1] or "")), coq_bool(hidden),
                                                  coq_bool(e[0] != ""), coq_bool(bool(e[1]))))
        opt = "(OpInteract %s %s)" % (coq_bool(bool(pats)), coq_list(evt))
    elif label == "_escalate":
        priv = arg("escalate_priv", 0)
        if not getattr(priv, "escalate_auth", False):
            return None
        if not priv.escalate_prompt:
            # a user-defined level WITHOUT an escalate prompt: m_escalate's first event always has an expected response
            # (read back the input, then to that response) — oracle-only at this level; the send_inputs_interact the
            # driver makes of it is a model case of its own (OpInteract with the events and hidden flags as handed over)
            return None
        s2 = sc.get("driver_kwargs", {}).get("auth_secondary", "")
        for ev in evs:
            if ev[0] == "attr_now" and ev[1] == "auth_secondary":
                s2 = ev[2]      # what the driver holds at this point of the history (reassigned or not)
                break
        opt = "(OpEscalate %s %s %s %s [] [] %s)" % (coq_msg(P(priv.escalate)), coq_msg(P(priv.escalate_prompt)),
                                                     coq_msg(P(s2)), coq_msg(P(priv.pattern)), coq_bool(s2 != ""))
    elif label == "set_attr":
        # `driver.X = v`: credentials are plain stores (nothing observable), the public tunables' setters log the value
        if not isinstance(a[1], str):
            return None
        opt = "(OpAssign %s %s)" % (coq_bool(a[0] in CREDENTIAL_KWARGS), coq_msg(P(a[1])))
    elif label == "channel_authenticate_telnet":
        opt = "(OpLoginTelnet %s %s)" % (coq_msg(P(arg("auth_username", 0, ""))), coq_msg(P(arg("auth_password", 1, ""))))
    elif label == "channel_authenticate_ssh":
        opt = "(OpLoginSsh %s %s %s)" % (coq_bool(ssh_handler_called(sc["stack"])), coq_msg(P(arg("auth_password", 0, ""))),
                                         coq_msg(P(arg("auth_private_key_passphrase", 1, ""))))
    else:
        return None

    # ---- history (reads with the pattern answers inferred from what the code did next) and observed I/O trace
    hist, trace, infos = [], [], []
    reads = []            # indices into hist of RData entries, with bookkeeping
    loop = None
    n_interact_events = len(arg("interact_events", 0, [])) if label == "send_inputs_interact" else 2
    explicit_ends = []    # hist index of the read that ended each _read_until_explicit_prompt
    writes_after = {}     # hist index -> list of payloads written before the next read
    last_read = None
    pending_log = None
    pw = sec.get("password") or ""
    ph = sec.get("passphrase") or ""
    user = sc.get("driver_kwargs", {}).get("auth_username", "")
    if label == "channel_authenticate_telnet":
        user, pw = arg("auth_username", 0, ""), arg("auth_password", 1, "")
    if label == "channel_authenticate_ssh":
        pw, ph = arg("auth_password", 0, ""), arg("auth_private_key_passphrase", 1, "")
    for ev in evs:
        k = ev[0]
        if k == "tread":
            hist.append(["D", P(ev[1].replace(b"\r", b"")), set(), ev[1]])
            last_read = len(hist) - 1
            writes_after[last_read] = []
            if loop is not None:
                loop[1].append(last_read)
        elif k == "tread_exc":
            if ev[1] == "Starved":
                hist.append(["B"])
            elif ev[1] in ("ScrapliTimeout", "CancelledError"):
                hist.append(["T"])
            elif ev[1] == "ScrapliConnectionError":
                hist.append(["C"])
                if label == "channel_authenticate_telnet" and not sc.get("read_fault"):
                    return None     # the login loop retries forever on a dead transport: outside the scenarios
                #                     (a TRANSIENT EOF — scenario field read_fault — is m_login_telnet's RConnErr step)
            else:
                return None
            last_read = None
        elif k == "twrite_exc":
            return None         # a failing transport write is outside the model (the oracle still scans the run)
        elif k == "twrite":
            trace.append("OWrite %s false" % coq_msg(P(ev[1])))
            if last_read is not None:
                writes_after[last_read].append(ev[1])
        elif k == "chan":
            trace.append("OChan %s" % coq_msg(P(ev[1])))
        elif k == "log":
            text = ev[3]
            if ev[1].startswith("scrapli.channel") and (text.startswith("write: ") or text.startswith("read: ")):
                trace.append("OLog %s" % coq_msg(P(text)))
            else:
                infos += P(text)
        elif k == "loop_begin":
            loop = [ev[1], []]
        elif k == "loop_end":
            if loop is not None and ev[2] is None and loop[1]:
                fl = {"_read_until_input": "input", "_read_until_prompt": "prompt",
                      "_read_until_explicit_prompt": "expect"}[ev[1]]
                hist[loop[1][-1]][2].add(fl)
                if ev[1] == "_read_until_explicit_prompt":
                    explicit_ends.append(loop[1][-1])
                    if len(ev) > 4 and ev[4] is False:
                        # what matched is a completion pattern, not the event's expected response
                        hist[loop[1][-1]][2].discard("expect")
                        hist[loop[1][-1]][2].add("complete")
            loop = None
    # interact: which match ended each explicit-prompt loop
    if label in ("send_inputs_interact", "_escalate") and exc is None:
        if len(explicit_ends) < n_interact_events and explicit_ends:
            # the interaction ended early: a completion pattern matched, not the expected response
            hist[explicit_ends[-1]][2].discard("expect")
            hist[explicit_ends[-1]][2].add("complete")
    # get_prompt: the read after which it returned
    if label == "get_prompt" and exc is None:
        ds = [i for i, h in enumerate(hist) if h[0] == "D"]
        if ds:
            hist[ds[-1]][2].add("prompt")
    # logins: answers from what was written next
    if label in ("channel_authenticate_telnet", "channel_authenticate_ssh"):
        uc = pc = phc = 0
        ds = [i for i, h in enumerate(hist) if h[0] == "D"]
        acc = b""
        for n, i in enumerate(ds):
            ws = [w.decode("latin-1") for w in writes_after.get(i, [])]
            fl = hist[i][2]
            acc = (acc + hist[i][3]) if not (n and writes_after.get(ds[n - 1])) else hist[i][3]
            if label == "channel_authenticate_telnet" and user in ws and user != "":
                fl.add("user")
                uc += 1
            if pw in ws and pw != "":
                fl.add("pass")
                pc += 1
            if label == "channel_authenticate_ssh" and ph in ws and ph != "":
                fl.add("phrase")
                phc += 1
            if n == len(ds) - 1 and hist[-1][0] == "D":
                if exc is None:
                    fl.add("prompt")
                elif exc == "ScrapliAuthenticationFailed":
                    low = acc.lower()
                    if b"passphrase" in low and phc >= 2:
                        fl.add("phrase")
                    elif b"password:" in low and pc >= 2 and not (b"denied" in low and ssh_handler_called(sc["stack"]) and label == "channel_authenticate_ssh"):
                        fl.add("pass")
                    elif (b"login:" in low or b"username:" in low) and uc >= 2:
                        fl.add("user")
                    else:
                        fl.add("denied")
    if exc == "ScrapliTimeout" and not (hist and hist[-1][0] == "T"):
        return None             # the timer fired outside a blocking read (loaded machine): not a modelled history
    if exc is not None and exc != "Starved":
        code = EXC_CODE.get(exc)
        if code is None:
            return None
        if label == "_escalate" and exc == "ScrapliAuthenticationFailed" and hist and hist[-1][0] == "T":
            trace.append("OExc 2 []")
        trace.append("OExc %d %s" % (code, coq_msg(P(exc_text))))
    stop = 0 if exc is None else 2 if exc == "Starved" else 1
    hl = []
    for h in hist:
        if h[0] == "D":
            hl.append("RData %s %s" % (coq_msg(h[1]), coq_flags(h[2])))
        else:
            hl.append({"B": "RBlock", "T": "RTimeout", "C": "RConnErr"}[h[0]])
    term = "(%s, (%s : list rev), (%s : list obs), (%s : msg), %d%%nat)" % (opt, coq_list(hl), coq_list(trace), coq_msg(sorted(set(infos))), stop)
    return term


HEADER = """From Verif Require Import Bytes Secrets.
Fixpoint subset (a b : msg) : bool :=
  match a with [] => true | x :: r => existsb (aeqb x) b && subset r b end.
Definition chk (c : op * list rev * list obs * msg * nat) : bool :=
  let '(o, h, tr, infos, st) := c in
  let '(t, s, _) := run_op true o h in
  (* I/O part exact; of the other records only the SECRET atoms are compared (they must be ones the model also puts
     into a non-I/O record, a read record or the channel log): a new or reworded line showing public data changes nothing *)
  teqb (io_part t) tr && (N.to_nat (stop_code s) =? st)%nat &&
  subset (filter (fun a => negb (is_pub a)) (canon infos))
         (info_atoms t ++ canon (flat_map (fun x => match x with OLog m | OChan m => m | _ => [] end) t)).
"""


# ------------------------------------------------------------------------------------------------
# generators
# ------------------------------------------------------------------------------------------------
ENABLE_PLATFORMS = ["cisco_iosxe", "cisco_nxos", "arista_eos", "network"]


def dev_platform(kind):
    return "cisco_iosxe" if kind in ("network", "generic") else kind


def gen_policy(rng):
    return rng.choice([["whole"], ["whole"], ["bytes", 1], ["bytes", 3], ["bytes", 7], ["random", rng.randrange(10 ** 6), 9]])


def sc_escalate(rng, kind, stack, mode, policy=None, timeout=False, fault=None, extra_ops=True):
    """mode: good | bad | none (device grants enable without a password) | empty (no auth_secondary configured)"""
    sec2 = canary(rng, "E")
    cmd, out = "show kiwi%d" % rng.randrange(100), "OUT-plum%d" % rng.randrange(1000)
    dev_secret = {"good": sec2, "bad": canary(rng, "X", 0), "none": None, "empty": None}[mode]
    ops = [["open"]]
    if extra_ops:
        # the user looks at the responses: str / repr / raise_for_status (failed ones included)
        fwc = rng.choice([None, [out[:6]], ["router1", "% Invalid"]])
        ops += [["send_command", cmd, fwc]]
        if rng.random() < 0.4:
            ops += [["send_commands", [cmd, "show nothing%d" % rng.randrange(10)], rng.choice([None, ["OUT-"], [out]])]]
        ops += [["repr"], ["close"]]
    return {"family": "escalate", "mode": mode, "kind": kind, "stack": stack, "policy": policy or gen_policy(rng),
            "device": {"platform": dev_platform(kind), "login_mode": "exec", "enable_secret": dev_secret},
            "driver_kwargs": {"auth_secondary": "" if mode == "empty" else sec2, "auth_password": canary(rng, "P"),
                              "auth_private_key_passphrase": canary(rng, "K"), "auth_username": "labuser"},
            "secrets": {"secondary": sec2 if mode != "empty" else "", "password": None, "passphrase": None},
            "outputs": {cmd: out}, "publics": [cmd, out, "labuser", "enable"], "ops": ops,
            "timeout": timeout, "fault": fault}


# user-defined privilege levels: (low name, high name), (escalate, deescalate) commands, prompt endings
PRIV_NAMES = [("user_view", "system_view"), ("guest", "admin"), ("exec", "privilege_exec"), ("operator", "level15")]
PRIV_CMDS = [("super", "quit"), ("enable 15", "disable"), ("system-view", "return"), ("enable", "disable")]
# how the device asks for the secret / what the user declares as escalate_prompt
#   literal: the device's own wording, declared literally;  regex: declared as a ^...$ pattern;
#   empty: NO escalate_prompt declared (the device says a secret is required and shows its prompt again, then reads the
#          next line without echo: the first event is read to the class prompt pattern)
PRIV_ASKS = {"literal": [("Enter secret for level 15: ", "Enter secret for level 15:"), ("admin password: ", "admin password:"),
                         ("Password: ", "Password:")],
             "regex": [("Secret (level 15): ", r"^secret \(level \d+\):\s?$"), ("Password: ", r"^(?:enable\s){0,1}password:\s?$")],
             "empty": [("% secret required\r\n{prompt}", ""), ("{prompt}", "")]}
PRIV_PROMPT_KINDS = ["literal", "regex", "empty"]


def sc_escalate_custom(rng, stack, mode, prompt_kind, policy=None, timeout=False):
    """the enable escalation of a NetworkDriver with USER-SUPPLIED privilege_levels (custom names, commands, prompt
    patterns; escalate_auth=True with a custom / a regex / an EMPTY escalate_prompt) against a device that asks the way
    the user's levels say.  mode as sc_escalate; with an empty escalate_prompt only `good` (the code cannot tell that
    device's challenge from its prompt: a refused or unasked secret there is typed at the prompt — outside the scenarios)"""
    if prompt_kind == "empty":
        mode, timeout = "good", False
    sc = sc_escalate(rng, "network", stack, mode, policy=policy, timeout=timeout)
    (low, high), (esc, deesc) = rng.choice(PRIV_NAMES), rng.choice(PRIV_CMDS)
    low_end, high_end = rng.choice([(">", "#"), ("$", "#"), (">", "%")])
    ask, eprompt = rng.choice(PRIV_ASKS[prompt_kind])
    pat = lambda end: r"^[a-z0-9.\-@()/:]{1,48}%s$" % ("\\" + end if end == "$" else end)
    sc["privilege_levels"] = {"default": high, "levels": {
        low: {"pattern": pat(low_end), "previous_priv": "", "deescalate": "", "escalate": "", "escalate_auth": False,
              "escalate_prompt": ""},
        high: {"pattern": pat(high_end), "previous_priv": low, "deescalate": deesc, "escalate": esc, "escalate_auth": True,
               "escalate_prompt": eprompt}}}
    sc["device"] = {"platform": "cisco_iosxe", "enable_secret": sc["device"]["enable_secret"],
                    "custom": {"low": low, "high": high, "escalate": esc, "deescalate": deesc, "low_end": low_end,
                               "high_end": high_end, "ask": ask}}
    sc["mode"] = "custom-%s-%s" % (prompt_kind, sc["mode"])
    # (level names / de-escalation command stay outside the public atoms: they are words of repr(driver) and of the
    #  escalation-failure message, which the model cases compare atom by atom)
    sc["publics"] = [x for x in sc["publics"] if x != "enable"] + [esc] + ([eprompt] if eprompt else [])
    return sc


def telnet_read_faults(rng, sc, obs, every):
    """the same telnet login with the transport read raising the EOF connection error (the one the login loop
    tolerates) right after the write that carried the password, right after the one that carried the user name, and
    after one other write (all others when `every`).  Off the password write the run is delivered `whole`: with the
    stream fragmented the extra return can overtake a prompt still unread, and the device would echo what follows."""
    secs = [v for v in all_secrets(sc).values() if v]
    user = sc["driver_kwargs"].get("auth_username", "")
    writes = [e[1] for e in obs["events"] if e[0] == "twrite"]
    hot = [i + 1 for i, w in enumerate(writes) if any(occurs(v, as_text(w)) for v in secs)]
    named = [i + 1 for i, w in enumerate(writes) if user and as_text(w) == user][:1]
    # (only writes that a read follows)
    pos = [i for i, e in enumerate(obs["events"]) if e[0] == "twrite"]
    last_read = max([i for i, e in enumerate(obs["events"]) if e[0] == "tread"] or [-1])
    follow = {n + 1 for n, i in enumerate(pos) if i < last_read}
    hot, named = [k for k in hot if k in follow], [k for k in named if k in follow]
    cold = [k for k in sorted(follow) if k not in hot and k not in named]
    if not every and cold:
        cold = [rng.choice(cold)]
    out = []
    for k in hot + named + cold:
        f = dict(sc, read_fault={"after_write": k, "times": 1},
                 mode=sc["mode"].split("+")[0] + ("+eof-after-password" if k in hot else "+eof-after-username" if k in named else "+eof-read"))
        if k not in hot:
            f["policy"] = ["whole"]
        f.pop("finding", None)
        out.append(f)
    return out


def sc_junos_root(rng, stack, mode):
    sec2 = canary(rng, "E")
    dev_secret = {"good": sec2, "bad": canary(rng, "X", 0), "none": None}[mode]
    return {"family": "escalate", "mode": "junos-" + mode, "kind": "juniper_junos", "stack": stack, "policy": gen_policy(rng),
            "device": {"platform": "juniper_junos", "enable_secret": dev_secret},
            "driver_kwargs": {"auth_secondary": sec2, "auth_password": canary(rng, "P")},
            "secrets": {"secondary": sec2}, "outputs": {}, "publics": ["start shell user root"],
            "ops": [["open"], ["acquire_priv", "root_shell"], ["repr"], ["close"]], "timeout": False, "fault": None}


def sc_login_telnet(rng, kind, stack, mode, timeout=False):
    """mode: good | bad (device rejects the password) | pwonly (no user name asked)"""
    pw = canary(rng, "P")
    user = "lab%d" % rng.randrange(100)
    cmd, out = "show fig%d" % rng.randrange(100), "OUT-date%d" % rng.randrange(1000)
    dkw = {"auth_bypass": False, "auth_username": user, "auth_password": pw,
           "auth_private_key_passphrase": canary(rng, "K")}
    if kind != "generic":
        dkw["auth_secondary"] = canary(rng, "E")
    # timeout_ops > 0 on both stacks: with 0 the asyncio login polls with wait_for(read, 0) and never reads, and the
    # sync login sends a return on every empty read (C09/C07 findings 15 / 22) — not this property's region
    dkw["timeout_ops"] = 120
    return {"family": "login_telnet", "mode": mode, "kind": kind, "stack": stack,
            "policy": ["whole"] if stack != "sync" else gen_policy(rng),
            "device": {"platform": dev_platform(kind), "front": "telnet", "user": user,
                       "password": pw if mode != "bad" else canary(rng, "X", 0), "ask_user": mode != "pwonly",
                       "enable_secret": None},
            "driver_kwargs": dkw, "secrets": {"password": pw, "secondary": dkw.get("auth_secondary"), "passphrase": dkw["auth_private_key_passphrase"]},
            "outputs": {cmd: out}, "publics": [cmd, out, user],
            "ops": [["open"], ["send_command", cmd], ["repr"], ["close"]], "timeout": timeout, "fault": None}


def sc_login_ssh(rng, stack, mode, policy=None):
    """mode: good | bad | phrase-good | phrase-bad (falls back to the password)"""
    pw, ph = canary(rng, "P"), canary(rng, "K")
    cmd, out = "show lime%d" % rng.randrange(100), "OUT-pear%d" % rng.randrange(1000)
    dv = {"platform": "cisco_iosxe", "front": "ssh", "enable_secret": None,
          "password": pw if mode in ("good", "phrase-bad", "phrase-good") else canary(rng, "X", 0),
          "passphrase": None if mode in ("good", "bad") else (ph if mode == "phrase-good" else canary(rng, "Y", 0))}
    return {"family": "login_ssh", "mode": mode, "kind": "generic", "stack": stack,
            "policy": policy or (["whole"] if stack != "sync" else gen_policy(rng)),
            "device": dv, "driver_kwargs": {"auth_password": pw, "auth_private_key_passphrase": ph},
            "secrets": {"password": pw, "passphrase": ph}, "outputs": {cmd: out}, "publics": [cmd, out],
            "ops": [["transport_open"], ["login_ssh", pw, ph], ["send_command", cmd], ["repr"], ["close"]],
            "timeout": False, "fault": None}


def sc_interact(rng, stack, mode, with_complete, probes=None):
    """a user-level send_interactive with a hidden event (generic driver at the exec prompt of an IOS-XE device);
    the response is looked at the way a user does: str(), raise_for_status() (failed_when_contains given: the
    interaction is marked failed when the device refuses the password / always / never).
    mode `denied`: the device refuses the hidden input three times and says so (the interaction completes, failed)"""
    hid = canary(rng, "H")
    dev_secret = {"good": hid, "bad": canary(rng, "X", 0), "none": None, "denied": canary(rng, "X", 0)}[mode]
    if mode == "denied":
        evs = [["enable", "Password:", False], [hid, "Password:", True], [hid, "Password:", True], [hid, "router1>", True]]
        fwc = ["% Bad secrets"]
    else:
        evs = [["enable", "Password:", False], [hid, "router1#", True]]
        fwc = rng.choice([None, ["Password"], ["% Bad secrets", "router1"]])
    ops = [["open"], ["send_interactive", evs, ["router1>", "router1#"] if with_complete else None, fwc] + ([probes] if probes else []),
           ["repr"], ["close"]]
    return {"family": "interact", "mode": mode + ("+complete" if with_complete else ""), "kind": "generic", "stack": stack,
            "policy": gen_policy(rng),
            "device": {"platform": "cisco_iosxe", "login_mode": "exec", "enable_secret": dev_secret},
            "driver_kwargs": {"auth_password": canary(rng, "P")}, "secrets": {"hidden": hid},
            "outputs": {}, "publics": ["enable", "Password:", "router1#", "router1>"], "ops": ops,
            "timeout": False, "fault": None}


RT_KINDS = ["generic", "cisco_iosxe", "cisco_nxos", "arista_eos"]


def sc_rt(rng, tname, kind, policy=None):
    """a whole dialogue through the REAL transport plugin `tname` (fake endpoint in front of the device): in-channel
    login where the plugin has one (system: ssh passphrase / password; telnet: user name / password), then the enable
    escalation with auth_secondary (network kinds, inside open) or a hidden interactive input (generic driver)"""
    from .c12_rt import TRANSPORTS
    stack, front, _excs = TRANSPORTS[tname]
    pw, ph, sec2 = canary(rng, "P"), canary(rng, "K"), canary(rng, "E")
    user = "lab%d" % rng.randrange(100)
    cmd, out = "show yuzu%d" % rng.randrange(100), "OUT-sloe%d" % rng.randrange(1000)
    dkw = {"auth_username": user, "auth_password": pw, "auth_private_key_passphrase": ph}
    dv = {"platform": dev_platform(kind), "login_mode": "exec", "enable_secret": sec2}
    mode = tname
    if front == "telnet":
        dv.update(front="telnet", user=user, password=pw, ask_user=True)
        dkw["timeout_ops"] = 120       # see sc_login_telnet
    elif front == "ssh":
        with_phrase = rng.random() < 0.5
        dv.update(front="ssh", password=pw, passphrase=ph if with_phrase else None)
        mode += "+phrase" if with_phrase else ""
    secrets = {"password": pw, "passphrase": ph}
    if kind == "generic":
        evs = [["enable", "Password:", False], [sec2, "router1#", True]]
        ops = [["open"], ["send_interactive", evs, ["router1>", "router1#"], rng.choice([None, ["Password"]])], ["repr"], ["close"]]
        secrets["hidden"] = sec2
    else:
        dkw["auth_secondary"] = sec2
        ops = [["open"], ["send_command", cmd, rng.choice([None, ["OUT-"]])], ["repr"], ["close"]]
        secrets["secondary"] = sec2
    return {"family": "rt", "mode": mode, "kind": kind, "stack": stack, "transport": tname,
            "policy": policy or (["whole"] if stack != "sync" else gen_policy(rng)), "device": dv, "driver_kwargs": dkw,
            "secrets": secrets, "outputs": {cmd: out}, "publics": [cmd, out, user, "enable"], "ops": ops,
            "timeout": False, "fault": None}


LIBAUTH = {"paramiko": "sync", "asyncssh": "async"}


def sc_libauth(rng, tname, endpoint, key, password, kind="generic", channel="ok", via=None, policy=None):
    """the plugin's REAL open() of a transport that authenticates through its ssh library (paramiko / asyncssh): the
    server side (endpoint `fake`: fakes of the library objects; `loopback`: in-process ssh servers and the real client
    libraries — harness/c12_auth.py) rejects / accepts / drops at the key (`key` None: no key configured) and at the
    password; `channel` drop: the session dies when the shell is requested.  After an accepted authentication on a
    fake endpoint the dialogue goes on like sc_rt's (enable escalation / hidden interactive input, responses probed)."""
    from .c12_auth import ASYNCSSH_DROPS, PARAMIKO_DROPS
    stack = LIBAUTH[tname]
    pw, ph, sec2 = canary(rng, "P"), canary(rng, "K"), canary(rng, "E")
    user = "lab%d" % rng.randrange(100)
    cmd, out = "show nori%d" % rng.randrange(100), "OUT-kelp%d" % rng.randrange(1000)
    dkw = {"auth_username": user, "auth_password": pw, "auth_private_key_passphrase": ph}
    dv = {"platform": dev_platform(kind), "login_mode": "exec", "enable_secret": sec2}
    spec = {"endpoint": endpoint, "key": key, "password": password, "channel": channel}
    if "drop" in (key, password, channel):
        spec["drop_exc"] = rng.choice(PARAMIKO_DROPS if tname == "paramiko" else ASYNCSSH_DROPS)
    secrets = {"password": pw, "passphrase": ph}
    opener = [via or rng.choice(["open", "open", "open_ctx"])]
    if endpoint == "loopback":
        # the loopback server's shell is an echo process, not a device: the scenario is the authentication
        if kind != "generic":
            raise ValueError("loopback endpoints have no device behind them: generic driver only")
        ops = [opener, ["repr"], ["close"]]
    elif kind == "generic":
        evs = [["enable", "Password:", False], [sec2, "router1#", True]]
        ops = [opener, ["send_interactive", evs, ["router1>", "router1#"], rng.choice([None, ["Password"]])], ["repr"], ["close"]]
        secrets["hidden"] = sec2
    else:
        dkw["auth_secondary"] = sec2
        ops = [opener, ["send_command", cmd, rng.choice([None, ["OUT-"]])], ["repr"], ["close"]]
        secrets["secondary"] = sec2
    mode = "%s/%s key=%s password=%s%s" % (tname, endpoint, key, password, " channel=drop" if channel == "drop" else "")
    return {"family": "libauth", "mode": mode, "kind": kind, "stack": stack, "transport": tname, "libauth": spec,
            "policy": policy or (["whole"] if stack != "sync" else gen_policy(rng)), "device": dv, "driver_kwargs": dkw,
            "secrets": secrets, "outputs": {cmd: out}, "publics": [cmd, out, user, "enable"], "ops": ops,
            "timeout": False, "fault": None}


# (key outcome, password outcome, channel): the server rejects the password / rejects the key (then takes or rejects the
# password) / accepts / drops during the authentication / right after it
LIBAUTH_OUTCOMES = [(None, "reject", "ok"), ("reject", "reject", "ok"), ("reject", "accept", "ok"), (None, "accept", "ok"),
                    ("accept", "reject", "ok"), (None, "drop", "ok"), ("drop", "reject", "ok"), ("reject", "drop", "ok"),
                    ("unreadable", "reject", "ok"), ("unreadable", "accept", "ok"), (None, "accept", "drop")]
LIBAUTH_LOOPBACK = [(None, "reject"), ("reject", "reject"), (None, "accept"), ("reject", "accept"), ("accept", "reject"),
                    (None, "drop")]


def corpus_libauth(rng):
    """the transports that authenticate through their ssh library: the plugin's real open() against a server side that
    rejects the password / the key, accepts, drops during the authentication (fakes of the library objects: every
    outcome; real libraries against in-process loopback servers: the ones a server decides)"""
    out = []
    for tname in sorted(LIBAUTH):
        for (key, password, channel) in LIBAUTH_OUTCOMES:
            out.append(sc_libauth(rng, tname, "fake", key, password, rng.choice(RT_KINDS), channel))
        for via in ("open", "open_ctx"):
            out.append(sc_libauth(rng, tname, "fake", None, "reject", "generic", via=via))
        for (key, password) in LIBAUTH_LOOPBACK:
            out.append(sc_libauth(rng, tname, "loopback", key, password, "generic", policy=["whole"]))
    return out


def gen_libauth(rng):
    tname = rng.choice(["paramiko", "asyncssh"])
    key, password, channel = rng.choice(LIBAUTH_OUTCOMES + LIBAUTH_OUTCOMES[:3])
    return sc_libauth(rng, tname, "fake", key, password, rng.choice(RT_KINDS), channel)


# the transports that read the user's transport_options, and what a user puts there for them
TOPTS_TRANSPORTS = ["asyncssh", "paramiko", "system", "telnet", "asynctelnet"]


def user_transport_options(rng, tname, tok, real_library=False):
    """a transport_options dict as a user writes it for transport `tname` (`tok`: a public marker that must show in
    repr(driver)); real_library: only options the real client library accepts (loopback endpoints)"""
    if tname == "asyncssh":
        inner = {"keepalive_interval": rng.choice([5, 30]), "client_version": tok}
        if not real_library:
            inner["kex_algs"] = ["curve25519-sha256", "diffie-hellman-group14-sha1"][:rng.choice([1, 2])]
            if rng.random() < 0.3:
                inner["username"] = tok        # the documented use: options override scrapli's own connect() arguments
        opts = {"asyncssh": inner}
    elif tname == "paramiko":
        opts = {"enable_rsa2": rng.choice([True, False]), "paramiko": {"banner_timeout": 5, "tag": tok}}
    elif tname == "system":
        opts = {"open_cmd": rng.choice([["-o", "KexAlgorithms=+diffie-hellman-group14-sha1", "-o", "SendEnv=" + tok], "-o SendEnv=" + tok]),
                "ptyprocess": {"rows": rng.choice([24, 80]), "cols": 100}}
    else:
        opts = {tname: {"tag": tok}, "open_cmd": ["-v"]}
    if rng.random() < 0.3:
        # options for another transport ride along (one dict shared by drivers on different transports)
        other = rng.choice([t for t in TOPTS_TRANSPORTS[:3] if t != tname])
        for k, v in user_transport_options(rng, other, tok).items():
            opts.setdefault(k, v)
    return opts


def sc_topts(rng, tname, mode, kind=None, endpoint="fake", dialogue=False):
    """a driver constructed with the rarely used `transport_options` kwarg, on a transport that reads it; repr() / str()
    of the driver (and the user's own option dict, which repr(driver) prints) are taken BEFORE open(), AFTER open()
    — mode good: it succeeded, bad: the password was rejected — and AFTER close().
    asyncssh / paramiko: the plugin's real open() (library authentication against fakes / a loopback server);
    system / telnet / asynctelnet: the real plugin over a fake endpoint (system: the real _build_open_cmd)."""
    tok = "optTok%04d" % rng.randrange(10000)
    kind = kind or rng.choice(RT_KINDS)
    if tname in LIBAUTH:
        if endpoint == "loopback":
            kind = "generic"
        sc = sc_libauth(rng, tname, endpoint, None, "accept" if mode == "good" else "reject", kind, policy=["whole"])
    else:
        sc = sc_rt(rng, tname, kind, policy=["whole"])
        if mode == "bad":
            sc["device"]["password"] = canary(rng, "X", 0)
    sc["driver_kwargs"]["transport_options"] = user_transport_options(rng, tname, tok, real_library=(endpoint == "loopback"))
    opener = sc["ops"][0]
    if mode == "good" and dialogue:
        ops = [["repr"]] + sc["ops"] + [["repr"]]
    else:
        ops = [["repr"], opener, ["repr"], ["close"], ["repr"]]
    sc.update(family="topts", mode="%s/%s %s%s" % (tname, endpoint if tname in LIBAUTH else "endpoint", mode, "+dialogue" if dialogue and mode == "good" else ""),
              ops=ops, stop_on_error=False, publics=sc["publics"] + [tok])
    return sc


def corpus_topts(rng):
    out = []
    for tname in TOPTS_TRANSPORTS:
        out.append(sc_topts(rng, tname, "good", dialogue=(tname in ("asyncssh", "system"))))
        if tname != "asynctelnet":      # the asyncio telnet login sleeps per loop iteration
            out.append(sc_topts(rng, tname, "bad"))
    out.append(sc_topts(rng, "asyncssh", "good", kind="generic"))
    out.append(sc_topts(rng, "asyncssh", "bad", kind="cisco_iosxe"))
    out.append(sc_topts(rng, "asyncssh", rng.choice(["good", "bad"]), endpoint="loopback"))
    return out


def gen_topts(rng):
    tname = rng.choice(["asyncssh", "asyncssh", "paramiko", "system", "telnet"])
    return sc_topts(rng, tname, rng.choice(["good", "good", "bad"]), dialogue=rng.random() < 0.3)

# ------------------------------------------------------------------------------------------------
# credentials REASSIGNED on an existing driver (family rotate) and unusual shapes of interact events (family shape)
# ------------------------------------------------------------------------------------------------
ROTATE_MODES = ["before-open", "after-refused", "between-opens", "secondary-after-open", "junos-root", "system-phrase",
                "system-refused"]


def sc_rotate(rng, stack, mode, kind=None):
    """the user assigns EVERY secret-bearing attribute (auth_password, auth_private_key_passphrase, auth_secondary; the
    user name as well) of an EXISTING driver object — before the first open, after an open() the device refused, between
    two opens (the device's credentials were rotated), between open() and acquire_priv() — and goes on using the driver;
    the device only accepts the NEW values where the scenario says so, so the assignment is what the login types.
      before-open / after-refused / between-opens: in-channel telnet login + enable escalation inside open()
      secondary-after-open: open() stays in exec, auth_secondary assigned, acquire_priv('privilege_exec')
      junos-root: auth_secondary assigned after open(), acquire_priv('root_shell')
      system-phrase / system-refused: the REAL system transport plugin (fake pty): ssh passphrase + password dialogue"""
    old = {"auth_password": canary(rng, "P"), "auth_private_key_passphrase": canary(rng, "K"), "auth_secondary": canary(rng, "E")}
    new = {"auth_password": canary(rng, "Q"), "auth_private_key_passphrase": canary(rng, "L"), "auth_secondary": canary(rng, "F")}
    u_old, u_new = "lab%d" % rng.randrange(100), "ops%d" % rng.randrange(100)
    cmd, out = "show okra%d" % rng.randrange(100), "OUT-leek%d" % rng.randrange(1000)
    kind = kind or rng.choice(RT_KINDS[1:])
    secrets = {"password": old["auth_password"], "passphrase": old["auth_private_key_passphrase"], "secondary": old["auth_secondary"],
               "password_new": new["auth_password"], "passphrase_new": new["auth_private_key_passphrase"],
               "secondary_new": new["auth_secondary"]}
    dkw = dict(old, auth_username=u_old)
    sets = [["set_attr", k, v] for k, v in new.items()] + [["set_attr", "auth_username", u_new]]
    rng.shuffle(sets)
    use = [["send_command", cmd, rng.choice([None, ["OUT-"]])], ["repr"], ["close"]]
    sc = {"family": "rotate", "mode": mode, "kind": kind, "stack": stack, "policy": ["whole"], "outputs": {cmd: out},
          "publics": [cmd, out, u_old, u_new, "enable"], "timeout": False, "fault": None, "stop_on_error": False}
    expect = ["auth_password", "auth_secondary"]
    if mode in ("before-open", "after-refused", "between-opens"):
        dkw.update(auth_bypass=False, timeout_ops=120)      # see sc_login_telnet
        dv = {"platform": dev_platform(kind), "login_mode": "exec", "front": "telnet", "ask_user": True,
              "user": u_new, "password": new["auth_password"], "enable_secret": new["auth_secondary"]}
        if stack == "sync":
            sc["policy"] = gen_policy(rng)
        if mode == "before-open":
            ops = [["repr"]] + sets + [["repr"], ["open"]] + use
        elif mode == "after-refused":
            # the device knows the user; the first password is refused; the user puts the right one on the same driver
            # and opens it again (no close() in between: a network driver's on_close talks to the device first)
            dv["user"] = u_old
            sets = [x for x in sets if x[1] != "auth_username"]
            ops = [["open"]] + sets + [["reconnect"], ["open"]] + use
        else:
            dv.update(user=u_old, password=old["auth_password"], enable_secret=old["auth_secondary"])
            ops = [["open"], ["send_command", cmd], ["close"]] + sets + \
                  [["reconnect", {"user": u_new, "password": new["auth_password"], "enable_secret": new["auth_secondary"]}], ["open"]] + use
    elif mode == "secondary-after-open":
        dkw["default_desired_privilege_level"] = "exec"
        dv = {"platform": dev_platform(kind), "login_mode": "exec", "enable_secret": new["auth_secondary"]}
        sc["policy"] = gen_policy(rng)
        ops = [["open"], ["repr"]] + sets + [["acquire_priv", "privilege_exec"]] + use
        expect = ["auth_secondary"]
    elif mode == "junos-root":
        sc["kind"] = kind = "juniper_junos"
        dv = {"platform": "juniper_junos", "enable_secret": new["auth_secondary"]}
        sc["policy"] = gen_policy(rng)
        sc["publics"].append("start shell user root")
        ops = [["open"]] + sets + [["acquire_priv", "root_shell"], ["repr"], ["close"]]
        expect = ["auth_secondary"]
    elif mode in ("system-phrase", "system-refused"):
        if stack != "sync":
            raise ValueError("the system transport is sync only")
        sc["transport"] = "system"
        dv = {"platform": dev_platform(kind), "login_mode": "exec", "front": "ssh", "password": new["auth_password"],
              "passphrase": new["auth_private_key_passphrase"], "enable_secret": new["auth_secondary"]}
        if mode == "system-phrase":
            ops = sets + [["repr"], ["open"]] + use
            expect = ["auth_private_key_passphrase", "auth_secondary"]
        else:
            # wrong passphrase (twice), then the wrong password until ssh gives up; new values on the same driver
            ops = [["open"]] + sets + [["reconnect"], ["open"]] + use
            expect = ["auth_private_key_passphrase", "auth_secondary"]
    else:
        raise ValueError("unknown rotate mode %r" % (mode,))
    sc.update(device=dv, driver_kwargs=dkw, secrets=secrets, ops=ops, expect_typed=[new[k] for k in expect])
    return sc


def corpus_rotate(rng):
    out = []
    for stack in ("sync", "async"):
        out.append(sc_rotate(rng, stack, "secondary-after-open"))
        out.append(sc_rotate(rng, stack, "junos-root"))
    for mode in ("before-open", "before-open", "after-refused", "between-opens", "system-phrase", "system-refused"):
        out.append(sc_rotate(rng, "sync", mode))
    # the asyncio telnet login sleeps per loop iteration: one of them here, more in the thorough tier's stream
    out.append(sc_rotate(rng, "async", "before-open"))
    return out


def gen_rotate(rng, thorough=False):
    mode = rng.choice(ROTATE_MODES)
    stack = "sync"
    if not mode.startswith("system") and rng.random() < (0.3 if thorough or mode in ("secondary-after-open", "junos-root") else 0.0):
        stack = "async"
    return sc_rotate(rng, stack, mode)


# what the unchanged tree does with the shape: accepted = the interaction runs (the hidden input is typed at the password
# prompt), rejected = a python / scrapli error, before or in the middle of the interaction
EVENT_SHAPES = {"resp-none": "accepted", "resp-empty": "accepted", "list-event": "accepted", "four-tuple": "accepted",
                "four-list": "accepted", "all-lists": "accepted", "resp-int": "rejected", "resp-list": "rejected",
                "short-first": "rejected", "events-tuple": "rejected", "input-list": "rejected"}


def sc_shape(rng, stack, shape, with_complete=None):
    """send_interactive with a hidden event of an unusual shape (generic driver at the exec prompt, the device asks for
    its enable password): shapes the code accepts (expected response None / "", an event that is a list, four elements)
    and shapes it rejects (a response that is not a string, a too short event before the hidden one, the events handed
    over as a tuple, the hidden input wrapped in a list).  Oracle as everywhere: no exception message / log record / repr
    shows the hidden input — an argument check that quotes what it rejects is a leak."""
    if with_complete is None:
        with_complete = rng.random() < 0.5
    sc = sc_interact(rng, stack, "good", with_complete)
    hid = sc["secrets"]["hidden"]
    note = "note%d" % rng.randrange(100)
    first, second, whole = ["enable", "Password:", False], [hid, "router1#", True], None
    if shape == "resp-none":
        second = [hid, None, True]
    elif shape == "resp-empty":
        second = [hid, "", True]
    elif shape == "list-event":
        second = {"list": [hid, "router1#", True]}
    elif shape == "four-tuple":
        second = [hid, "router1#", True, note]
    elif shape == "four-list":
        second = {"list": [hid, "router1#", True, None]}
    elif shape == "all-lists":
        first, second = {"list": first}, {"list": [hid, "router1#", True, note, 7]}
    elif shape == "resp-int":
        second = [hid, rng.randrange(2, 99), True]
    elif shape == "resp-list":
        second = [hid, ["router1#", "router1>"], True]
    elif shape == "short-first":
        first = ["enable"]
    elif shape == "events-tuple":
        whole = True
    elif shape == "input-list":
        second = [[hid], "router1#", True]
    else:
        raise ValueError("unknown event shape %r" % (shape,))
    evs = [first, second]
    op = sc["ops"][1]
    op[1] = {"tuple": evs} if whole else evs
    op[3] = rng.choice([None, ["Password"]])
    sc.update(family="shape", mode=shape + ("+complete" if with_complete else ""), stop_on_error=False,
              publics=sc["publics"] + [note], expect_shape=EVENT_SHAPES[shape])
    return sc


def corpus_shape(rng):
    out = []
    for i, shape in enumerate(sorted(EVENT_SHAPES)):
        out.append(sc_shape(rng, "sync", shape))
        if i % 2 == 0 or EVENT_SHAPES[shape] == "accepted":
            out.append(sc_shape(rng, "async", shape))
    return out


def gen_shape(rng):
    return sc_shape(rng, rng.choice(["sync", "sync", "async"]), rng.choice(sorted(EVENT_SHAPES)))


# ------------------------------------------------------------------------------------------------
# secrets utf-8 cannot encode (family unencodable): lone surrogates, what the os layer delivers for non-utf-8 bytes
# ------------------------------------------------------------------------------------------------
UNENC_KINDS = ["os-bytes", "os-bytes", "high-surrogate", "reversed-pair", "mixed"]
# target -> (which credential of the scenario, its key in sc["secrets"])
UNENC_TARGETS = {"password-telnet": "password", "password-telnet-pwonly": "password", "password-ssh": "password",
                 "passphrase-ssh": "passphrase", "secondary-enable": "secondary", "secondary-junos-root": "secondary",
                 "hidden-interact": "hidden", "hidden-interact-denied": "hidden"}


def unencodable(rng, s, kind=None):
    """`s` with characters inserted that str.encode() (utf-8, strict) refuses: lone LOW surrogates U+DC80..U+DCFF (what
    os.environ / sys.argv / os.fsdecode give for bytes that are not utf-8: a latin-1 'é' in a password exported from a
    non-utf-8 shell), lone HIGH surrogates (half of a pair cut by a UTF-16 tool), a pair in the wrong order; `mixed`:
    next to characters utf-8 encodes to several bytes.  Never first / last (the device strips blanks, the canary's head
    stays recognisable)."""
    kind = kind or rng.choice(UNENC_KINDS)
    if kind == "os-bytes":
        ins = ["".join(chr(0xDC00 + rng.randrange(0x80, 0x100)) for _ in range(rng.choice([1, 1, 2, 3]))) for _ in range(rng.choice([1, 1, 2]))]
    elif kind == "high-surrogate":
        ins = [chr(rng.randrange(0xD800, 0xDC00))]
    elif kind == "reversed-pair":
        ins = [chr(rng.randrange(0xDC00, 0xE000)) + chr(rng.randrange(0xD800, 0xDC00))]
    else:
        ins = [rng.choice(["\u00e9", "\u20ac", "\U0001f511", "\u00ff"]), chr(0xDC00 + rng.randrange(0x80, 0x100)), rng.choice(META)]
    for x in ins:
        p = rng.randrange(1, len(s))
        s = s[:p] + x + s[p:]
    try:
        s.encode()
    except UnicodeEncodeError:
        return s
    raise AssertionError("unencodable(): %r is encodable" % (s,))


def _subst(x, old, new):
    if isinstance(x, str):
        return new if x == old else x
    if isinstance(x, list):
        return [_subst(y, old, new) for y in x]
    if isinstance(x, dict):
        return {k: _subst(v, old, new) for k, v in x.items()}
    return x


def sc_unencodable(rng, target, stack, kind=None, level=None, others=False):
    """one of the credential dialogues (in-channel telnet / ssh login password, key passphrase, enable / root-shell secret,
    hidden interactive input) with the credential a str that utf-8 cannot encode.  What the unchanged tree does with it:
    BaseChannel.write logs `write: REDACTED`, then channel_input.encode() raises the built-in UnicodeEncodeError (message:
    one character and a position).  Oracle as everywhere; whatever the code does INSTEAD of failing (another codec, an
    error handler, a wrapped exception, a record about the fallback) must not show the secret at any level.  The device
    accepts the bytes `surrogateescape` would send (when the str has such bytes), so a tree that gets the write through
    goes on with the dialogue.  `others`: the credentials the dialogue does not use are of the same kind."""
    if target.startswith("password-telnet"):
        sc = sc_login_telnet(rng, rng.choice(["generic", "cisco_iosxe", "cisco_nxos", "arista_eos"]), stack,
                             "pwonly" if target.endswith("pwonly") else "good")
    elif target == "password-ssh":
        # whole reads: a fragment of the ssh client's prompt (`lab@`) looks like a device prompt to the generic pattern
        # and ends the login before anything is asked — the credential would never be typed
        sc = sc_login_ssh(rng, stack, "good", policy=["whole"])
    elif target == "passphrase-ssh":
        sc = sc_login_ssh(rng, stack, "phrase-good", policy=["whole"])
    elif target == "secondary-enable":
        sc = sc_escalate(rng, rng.choice(ENABLE_PLATFORMS), stack, "good")
    elif target == "secondary-junos-root":
        sc = sc_junos_root(rng, stack, "good")
    elif target.startswith("hidden-interact"):
        sc = sc_interact(rng, stack, "denied" if target.endswith("denied") else "good", rng.random() < 0.5)
    else:
        raise ValueError("unknown target %r" % (target,))
    olds = [sc["secrets"][UNENC_TARGETS[target]]]
    if others:
        olds += [v for k, v in sorted(sc["driver_kwargs"].items()) if k in CREDENTIAL_KWARGS and v and v not in olds]
    news = []
    for old in olds:
        new = unencodable(rng, old, kind)
        news.append(new)
        sc = _subst(sc, old, new)
    for k in ("password", "passphrase", "enable_secret"):
        if sc["device"].get(k) in news:
            # the device compares bytes (read as latin-1): the ones surrogateescape gives, when there are such
            try:
                sc["device"][k] = sc["device"][k].encode("utf-8", "surrogateescape").decode("latin-1")
            except UnicodeEncodeError:
                sc["device"][k] = canary(rng, "X", 0)
    sc.update(family="unencodable", mode="%s %s" % (target, kind or "any"), unencodable=target,
              log_level=level or rng.choice(["debug", "debug", "info", "warning"]))
    return sc


def corpus_unencodable(rng):
    out = []
    for i, target in enumerate(sorted(UNENC_TARGETS)):
        out.append(sc_unencodable(rng, target, "sync", "os-bytes", "debug"))
        out.append(sc_unencodable(rng, target, "async", UNENC_KINDS[1 + i % 4], ["warning", "debug", "info"][i % 3], others=(i % 2 == 0)))
    return out


def gen_unencodable(rng):
    return sc_unencodable(rng, rng.choice(sorted(UNENC_TARGETS)), rng.choice(["sync", "sync", "async"]), rng.choice(UNENC_KINDS),
                          others=rng.random() < 0.3)


# ------------------------------------------------------------------------------------------------
# drivers created through the factory (family factory): core and scrapli_community platforms, every log level
# ------------------------------------------------------------------------------------------------
FACTORY_LEVELS = ["debug", "info", "warning", "error", "critical"]


def sc_factory(rng, stack, origin, platform, variant=None, level="debug", mode="dialogue"):
    """`Scrapli(platform=..., variant=..., host=..., auth_password=..., auth_private_key_passphrase=..., auth_secondary=...)`
    / `AsyncScrapli(...)`: EVERY secret-bearing argument is handed to the factory, the user logs at `level`.
    origin: core (the five core platforms) | synthetic (a scrapli_community platform registered for the construction:
    harness/c12_factory.py SYNTHETIC) | installed (a platform of the installed scrapli_community package) |
    broken (a platform definition the factory rejects) | missing (no such platform).
    mode: construct (the driver is built and looked at) | dialogue (open — the platform's on_open escalates with
    auth_secondary —, a command / a hidden interactive input, repr, close) | telnet-login (the same after the in-channel
    telnet login types auth_password).  Canaries and observers as everywhere."""
    from .c12_factory import BROKEN, SYNTHETIC
    pw, ph, sec2 = canary(rng, "P"), canary(rng, "K"), canary(rng, "E")
    user = "lab%d" % rng.randrange(100)
    cmd, out = "show taro%d" % rng.randrange(100), "OUT-yam%d" % rng.randrange(1000)
    spec = copy.deepcopy(SYNTHETIC.get(platform) or BROKEN.get(platform)) if origin in ("synthetic", "broken") else None
    dtype = "network"
    if origin == "synthetic":
        dtype = "generic" if spec["driver_type"] == "generic" else "network"
    if origin == "installed":
        from .c12_factory import INSTALLED_GENERIC
        dtype = "generic" if platform in INSTALLED_GENERIC else "network"
    dkw = {"auth_username": user, "auth_password": pw, "auth_private_key_passphrase": ph}
    secrets = {"password": pw, "passphrase": ph}
    devplat = platform if origin == "core" else "cisco_iosxe"
    dv = {"platform": devplat, "enable_secret": sec2}
    if devplat in ENABLE_PLATFORMS:
        dv["login_mode"] = "exec"
    if dtype == "network":
        dkw["auth_secondary"] = sec2
        secrets["secondary"] = sec2
        use = [["send_command", cmd, rng.choice([None, ["OUT-"]])]]
    else:
        secrets["hidden"] = sec2
        use = [["send_interactive", [["enable", "Password:", False], [sec2, "router1#", True]], ["router1>", "router1#"],
                rng.choice([None, ["Password"]])]]
    if origin in ("installed", "broken", "missing") or not isinstance(platform, str):
        mode = "construct"
    policy = ["whole"]
    if mode == "construct":
        ops = [["repr"]]
    else:
        ops = [["open"]] + use + [["repr"], ["close"]]
        if stack == "sync":
            policy = gen_policy(rng)
    if mode == "telnet-login":
        if stack != "sync":
            raise ValueError("the asyncio telnet login sleeps per loop iteration: sync only here")
        dkw.update(auth_bypass=False, timeout_ops=120)      # see sc_login_telnet
        dv.update(front="telnet", user=user, password=pw, ask_user=True)
    return {"family": "factory", "mode": "%s/%s%s %s %s" % (origin, platform, "+" + variant if variant else "", level, mode),
            "kind": platform if origin == "core" else "community-" + dtype, "stack": stack, "policy": policy,
            "factory": {"origin": origin, "platform": platform, "variant": variant, "synthetic": spec},
            "log_level": level, "device": dv, "driver_kwargs": dkw, "secrets": secrets, "outputs": {cmd: out},
            "publics": [cmd, out, user], "ops": ops, "timeout": False, "fault": None,
            "expect_constructed": origin in ("core", "synthetic") and isinstance(platform, str) and
                                  (variant is None or origin == "core" or variant in (spec or {}).get("variants", {}))}


def factory_platforms():
    """(origin, platform, variant) of every synthetic community platform with each of its variants, and the core ones"""
    from .c12_factory import CORE, SYNTHETIC
    out = [("core", p, None) for p in CORE]
    for name in sorted(SYNTHETIC):
        out.append(("synthetic", name, None))
        for v in sorted(SYNTHETIC[name]["variants"]):
            out.append(("synthetic", name, v))
    return out


def corpus_factory(rng):
    from .c12_factory import BROKEN, INSTALLED
    out = []
    combos = factory_platforms()
    # every platform / variant: a whole dialogue on one stack at DEBUG or INFO, the construction alone on the other stack
    # at the next level (so that every level meets every kind of platform over the corpus)
    for i, (origin, platform, variant) in enumerate(combos):
        stack = ("sync", "async")[i % 2]
        other = ("async", "sync")[i % 2]
        out.append(sc_factory(rng, stack, origin, platform, variant, ("debug", "info")[(i // 2) % 2], "dialogue"))
        out.append(sc_factory(rng, other, origin, platform, variant, FACTORY_LEVELS[i % 5], "construct"))
    # one community platform and one core platform at EVERY level, both stacks
    for j, level in enumerate(FACTORY_LEVELS):
        out.append(sc_factory(rng, ("sync", "async")[j % 2], "synthetic", "zqnet_edgeos", "longlines", level, "dialogue"))
        out.append(sc_factory(rng, ("async", "sync")[j % 2], "synthetic", "zqcorp_switchos", None, level, "construct"))
        out.append(sc_factory(rng, ("async", "sync")[j % 2], "core", "cisco_nxos", None, level, "construct"))
    # the in-channel telnet login in front of a community platform's on_open
    out.append(sc_factory(rng, "sync", "synthetic", "zqnet_edgeos", None, "debug", "telnet-login"))
    out.append(sc_factory(rng, "sync", "synthetic", "zqcorp_switchos", "legacy", "info", "telnet-login"))
    out.append(sc_factory(rng, "sync", "core", "arista_eos", None, "debug", "telnet-login"))
    # platforms of the installed scrapli_community package (ScrapliModuleNotFound is the observation when it is not there)
    for k, (platform, variant) in enumerate(INSTALLED):
        out.append(sc_factory(rng, ("sync", "async")[k % 2], "installed", platform, variant, ("info", "debug")[k % 2]))
    # what the factory refuses: no such platform, a platform definition without SCRAPLI_PLATFORM / defaults, an unknown
    # variant, a platform that is not a string
    for k, (origin, platform, variant) in enumerate([("missing", "zqnone_nosuchos", None), ("broken", sorted(BROKEN)[0], None),
                                                     ("broken", sorted(BROKEN)[1], None), ("synthetic", "zqnet_edgeos", "nosuchvariant"),
                                                     ("missing", 7, None)]):
        out.append(sc_factory(rng, ("sync", "async")[k % 2], origin, platform, variant, ("debug", "info")[k % 2]))
    return out


def gen_factory(rng):
    from .c12_factory import INSTALLED
    r = rng.random()
    stack = rng.choice(["sync", "sync", "async"])
    level = rng.choice(FACTORY_LEVELS + ["debug", "info", "info"])
    if r < 0.12:
        platform, variant = rng.choice(INSTALLED)
        return sc_factory(rng, stack, "installed", platform, variant, level)
    origin, platform, variant = rng.choice([c for c in factory_platforms() if c[0] != "core"] * 2 + factory_platforms())
    mode = rng.choice(["dialogue", "dialogue", "construct"] + (["telnet-login"] if stack == "sync" and platform != "zqwlc_controller" else []))
    return sc_factory(rng, stack, origin, platform, variant, level, mode)


def rt_faults(rng, sc, obs, every):
    """the same dialogue with the endpoint dead at one of its writes: at EVERY write that carries a secret, and at
    one other write (all other writes when `every`); the exception is one the plugin's endpoint raises"""
    from .c12_rt import TRANSPORTS
    secs = [v for v in all_secrets(sc).values() if v]
    writes = [e[1] for e in obs["events"] if e[0] == "twrite"]
    hot = [i + 1 for i, w in enumerate(writes) if any(occurs(v, as_text(w)) for v in secs)]
    cold = [i + 1 for i in range(len(writes)) if i + 1 not in hot]
    if not every and cold:
        cold = [rng.choice(cold)]
    out = []
    for k in hot + cold:
        f = dict(sc, fault={"write_at": k, "exc": rng.choice(TRANSPORTS[sc["transport"]][2])},
                 mode=sc["mode"].split("+")[0] + ("+secret-write-fault" if k in hot else "+write-fault"), stop_on_error=False)
        f.pop("finding", None)
        out.append(f)
    return out


def corpus(rng):
    out = []
    for stack in ("sync", "async"):
        # the baseline defect: `enable` granted without a password prompt (DESIGN section 6 #29)
        for kind in ENABLE_PLATFORMS:
            out.append(sc_escalate(rng, kind, stack, "none", policy=["whole"]))
        sc = sc_escalate(rng, "cisco_iosxe", stack, "good", policy=["whole"])
        sc["ops"][1] = sc["ops"][1][:3] + [["str", "repr", "raise_for_status", "textfsm"]]
        out.append(sc)
        out.append(sc_escalate(rng, "cisco_iosxe", stack, "bad", policy=["whole"]))
        out.append(sc_escalate(rng, "cisco_iosxe", stack, "bad", policy=["whole"], timeout=True))
        out.append(sc_escalate(rng, "arista_eos", stack, "empty", policy=["bytes", 3]))
        out.append(sc_junos_root(rng, stack, "good"))
        out.append(sc_junos_root(rng, stack, "none"))
        # user-supplied privilege levels: escalate_auth with a custom literal / regex / EMPTY escalate_prompt
        for pk in PRIV_PROMPT_KINDS:
            out.append(sc_escalate_custom(rng, stack, "good", pk, policy=["whole"]))
        out.append(sc_escalate_custom(rng, stack, "bad", "literal", policy=["whole"]))
        out.append(sc_escalate_custom(rng, stack, "none", "regex", policy=["bytes", 3]))
        out.append(sc_interact(rng, stack, "good", True))
        out.append(sc_interact(rng, stack, "none", True))
        out.append(sc_interact(rng, stack, "bad", False))
        out.append(sc_interact(rng, stack, "denied", False))
        out.append(sc_login_ssh(rng, stack, "good", policy=["whole"]))
        out.append(sc_login_ssh(rng, stack, "bad", policy=["whole"]))      # sync: `permission denied` branch
        out.append(sc_login_ssh(rng, stack, "phrase-good", policy=["whole"]))
        out.append(sc_login_ssh(rng, stack, "phrase-bad", policy=["whole"]))
    for (tname, stack, attr) in REAL_TRANSPORTS:
        out.append(sc_transport(rng, tname, stack, attr))
        # the endpoint is dead exactly when the password / the passphrase / the hidden input is written
        for k in (1, 5, 7):
            out.append(sc_transport(rng, tname, stack, attr, fault_at=k))
        # whole dialogues through the real plugin (their write-fault variants are derived from the run: rt_faults)
        if tname != "ssh2" and stack == "sync":
            out.append(sc_rt(rng, tname, "generic", policy=["whole"]))
            out.append(sc_rt(rng, tname, rng.choice(RT_KINDS[1:]), policy=["whole"]))
        elif tname != "ssh2":
            # the asyncio logins sleep per loop iteration: one dialogue per plugin here (hidden interactive input or
            # escalation), more of them in the thorough tier's random stream
            out.append(sc_rt(rng, tname, rng.choice(RT_KINDS), policy=["whole"]))
    out.append(sc_login_telnet(rng, "cisco_iosxe", "sync", "good"))
    out.append(sc_login_telnet(rng, "generic", "sync", "bad"))
    out.append(sc_login_telnet(rng, "cisco_nxos", "sync", "pwonly"))
    out.append(sc_login_telnet(rng, "cisco_iosxe", "async", "good"))
    out.append(sc_login_telnet(rng, "cisco_iosxe", "async", "bad"))
    # disconnect in the middle of the password dialogue / of a command
    sc = sc_escalate(rng, "cisco_iosxe", "sync", "good", policy=["whole"])
    sc["fault"] = {"drop_at": 30}
    sc["mode"] = "good+disconnect"
    out.append(sc)
    sc = sc_escalate(rng, "cisco_nxos", "async", "good", policy=["bytes", 7])
    sc["fault"] = {"write_exc_at": 3}
    sc["mode"] = "good+write-error"
    out.append(sc)
    return out


def gen_scenario(rng, with_rt=False):
    """with_rt (thorough tier): also whole dialogues through the real transport plugins beyond the corpus's ten"""
    fam = rng.choice(["escalate"] * 5 + ["interact"] * 2 + ["login_ssh"] * 2 + ["login_telnet"] * 2 + ["junos"] + (["rt"] if with_rt else []))
    stack = rng.choice(["sync", "sync", "async"])
    if fam == "rt":
        # the asyncio logins sleep per loop iteration: fewer of them
        tname = rng.choice(["system", "system", "telnet", "paramiko", "paramiko", "asynctelnet", "asyncssh"])
        return sc_rt(rng, tname, rng.choice(RT_KINDS))
    if fam == "escalate" and rng.random() < 0.2:
        mode = rng.choice(["good", "good", "bad", "none"])
        # (the timeout variants wait timeout_ops of real time each: thorough tier only)
        return sc_escalate_custom(rng, stack, mode, rng.choice(PRIV_PROMPT_KINDS), timeout=(with_rt and mode == "bad" and rng.random() < 0.15))
    if fam == "escalate":
        mode = rng.choice(["good", "good", "bad", "none", "none", "empty"])
        sc = sc_escalate(rng, rng.choice(ENABLE_PLATFORMS), stack, mode, timeout=(mode == "bad" and rng.random() < 0.15))
        r = rng.random()
        if r < 0.15:
            sc["fault"] = {"drop_at": rng.randrange(5, 160)}
            sc["mode"] += "+disconnect"
        elif r < 0.22:
            sc["fault"] = {"write_exc_at": rng.randrange(1, 9)}
            sc["mode"] += "+write-error"
        return sc
    if fam == "interact":
        return sc_interact(rng, stack, rng.choice(["good", "bad", "none", "denied"]), rng.random() < 0.6)
    if fam == "login_ssh":
        if stack != "sync" and rng.random() < 0.5:
            stack = "sync"      # the asyncio twin sleeps 0.1 s per loop iteration: fewer of them
        return sc_login_ssh(rng, stack, rng.choice(["good", "bad", "phrase-good", "phrase-bad"]))
    if fam == "login_telnet":
        if stack != "sync" and rng.random() < 0.6:
            stack = "sync"
        return sc_login_telnet(rng, rng.choice(["generic", "cisco_iosxe", "cisco_nxos", "arista_eos"]), stack,
                               rng.choice(["good", "good", "bad", "pwonly"]))
    return sc_junos_root(rng, stack, rng.choice(["good", "bad", "none"]))


def gen_malformed(rng):
    """outside the mostly-valid stream: secrets that are all metacharacters, very long, format-looking; hidden flag
    given as a non-bool truthy value; an empty hidden input; secret equal to a prefix of another secret"""
    kind = rng.choice(["allmeta", "long", "format", "truthy-hidden", "twins"])
    sc = sc_escalate(rng, rng.choice(ENABLE_PLATFORMS), rng.choice(["sync", "async"]), rng.choice(["good", "none", "bad"]))
    base = "Zq%04d" % rng.randrange(10000)
    if kind == "allmeta":
        s2 = base + "".join(rng.choice(META[:18]) for _ in range(8))
    elif kind == "long":
        s2 = base + "".join(rng.choice("abcXYZ019%\\{}") for _ in range(300))
    elif kind == "format":
        s2 = base + rng.choice(["%(message)s", "{record}", "%s%s%s%s", "{0}{1}", "%n", "\\x00", "${HOME}", "%%s"])
    elif kind == "twins":
        s2 = sc["driver_kwargs"]["auth_password"] + "tail"
    else:
        s2 = base + "Tr"
    s2 = s2.rstrip(" ") or base
    if sc["mode"].startswith("good"):
        sc["device"]["enable_secret"] = s2
    sc["driver_kwargs"]["auth_secondary"] = s2
    sc["secrets"]["secondary"] = s2
    sc["mode"] = "malformed-" + kind + "-" + sc["mode"]
    if kind == "truthy-hidden":
        sc = sc_interact(rng, sc["stack"], "good", True)
        sc["ops"][1][1][1][2] = 1          # hidden given as 1, not True
        sc["mode"] = "malformed-truthy-hidden"
    return sc


# ------------------------------------------------------------------------------------------------
def isinstance_name(cls_name):
    """is the exception class (by name, as recorded in the chain) one of python's Unicode errors?"""
    import builtins
    c = getattr(builtins, cls_name, None)
    return isinstance(c, type) and issubclass(c, UnicodeError)


def items_of(sc):
    secrets = [v for v in [sc["secrets"].get(k) for k in sorted(sc["secrets"])] if v]
    # credentials configured on the driver but never used in the scenario are secrets too
    for k in ("auth_password", "auth_private_key_passphrase", "auth_secondary"):
        v = sc.get("driver_kwargs", {}).get(k)
        if v and v not in secrets:
            secrets.append(v)
    return Items(secrets, sc.get("publics", []))


def all_secrets(sc):
    out = dict((k, v) for k, v in sc["secrets"].items() if v)
    for k in ("auth_password", "auth_private_key_passphrase", "auth_secondary"):
        v = sc.get("driver_kwargs", {}).get(k)
        if v and v not in out.values():
            out[k] = v
    return out


def check_scenario(sc, workdir):
    obs = run_transport_writes(sc, workdir) if sc["family"] == "transport-write" else run_scenario(sc, workdir)
    sc2 = dict(sc)
    sc2["secrets"] = all_secrets(sc)
    leaks = oracle(sc2, obs)
    return obs, leaks


def summarize(obs):
    return {"exceptions": [[c["cls"] for c in e["chain"]] for e in obs["exceptions"]],
            "device_log": [[m, l.decode("latin-1")] for (m, l, o) in obs["device_log"]][:12], "skipped": obs.get("skipped"),
            "n_records": sum(1 for e in obs["events"] if e[0] == "log"),
            "n_writes": sum(1 for e in obs["events"] if e[0] == "twrite"),
            "failed_writes": [as_text(obs["events"][i - 1][1])[:80] for i, e in enumerate(obs["events"])
                              if e[0] == "twrite_exc" and i and obs["events"][i - 1][0] == "twrite"][:4],
            "responses": obs.get("responses", [])[:6],
            "offered_to_server": [[x if not isinstance(x, str) or len(x) < 60 else x[:57] + "..." for x in o] for o in obs.get("offered", [])][:6]}


def run(rep):
    from gen import gen_sinks

    rng = rep.rng
    thorough = rep.tier == "thorough"
    info = {}
    ok, _ = rep.build_static()
    # 1. regenerate the sink table from the source
    try:
        _, info, rows = gen_sinks.generate(rep.workdir, common.REPO)
        rc, out, _ = common.coqc(os.path.join(rep.workdir, "Gen_Sinks.v"), rep.workdir)
        if rc:
            rep.broken.append("Gen_Sinks.v")
            rep.notes.append(out[-2000:])
    except Exception as e:  # translator aborted: broken tie
        rep.broken.append("gen_sinks:%s" % e)
        rows = []
    # 2. proofs
    rep.add_static_obligations("props/C12.v", ok)
    if not ok:
        rep.broken.append("static-build")
    props_ok = False
    if ok and not [b for b in rep.broken if not b.startswith("forbidden")]:
        props_ok, _ = rep.compile_props("props/C12.v")
    if rows:
        bad_rows = [r for r in rows if any(i in SECRET_IDENTS and not (set(g) & {"redacted", "hidden_input"}) for (i, g) in r[4])
                    and (r[1], r[3]) not in KNOWN_REGION]
        if bad_rows:
            rep.notes.append("sinks a secret-carrying identifier reaches unguarded: " + "; ".join(
                "%s:%d %s <- %s" % (r[1], r[2], r[3], [i for (i, g) in r[4] if i in SECRET_IDENTS and not (set(g) & {"redacted", "hidden_input"})]) for r in bad_rows[:8]))
    # 3. dynamic: scenarios against the real code; oracle; model cases
    n_gen = 2500 if thorough else 150
    n_mal = 400 if thorough else 30
    if rep.broken:
        n_gen *= 2      # an obligation broke: widen the search for a concrete leaking input
    scenarios = corpus(rng)
    corpus_ids = {id(x) for x in scenarios}
    scenarios = scenarios + [gen_scenario(rng, with_rt=thorough) for _ in range(n_gen)] + [gen_malformed(rng) for _ in range(n_mal)]
    # library-authenticated transports: own stream (derived from rep.rng after the streams above, which stay what they were)
    lrng = random.Random(rng.getrandbits(64))
    scenarios += corpus_libauth(lrng) + [gen_libauth(lrng) for _ in range(400 if thorough else 16)]
    # drivers constructed with transport_options: own stream again (derived last)
    trng = random.Random(lrng.getrandbits(64))
    scenarios += corpus_topts(trng) + [gen_topts(trng) for _ in range(300 if thorough else 10)]
    # credentials reassigned on an existing driver; interact events of unusual shapes: own stream (derived last)
    xrng = random.Random(trng.getrandbits(64))
    scenarios += corpus_rotate(xrng) + [gen_rotate(xrng, thorough) for _ in range(300 if thorough else 8)]
    scenarios += corpus_shape(xrng) + [gen_shape(xrng) for _ in range(300 if thorough else 8)]
    # drivers created through the factory (core + scrapli_community platforms, every log level): own stream (derived last)
    frng = random.Random(xrng.getrandbits(64))
    scenarios += corpus_factory(frng) + [gen_factory(frng) for _ in range(400 if thorough else 12)]
    # credentials utf-8 cannot encode (lone surrogates): own stream (derived last)
    urng = random.Random(frng.getrandbits(64))
    scenarios += corpus_unencodable(urng) + [gen_unencodable(urng) for _ in range(300 if thorough else 10)]
    # replays of listed findings run first
    for f in rep.findings:
        p = os.path.join(common.VERIF, f.get("replay", ""))
        if f.get("replay") and os.path.exists(p):
            try:
                scenarios.insert(0, dict(json.load(open(p))["scenario"], finding=f["id"]))
            except Exception as e:  # noqa
                rep.notes.append("finding replay %s unreadable: %s" % (p, e))
    dist = {"family": {}, "mode": {}, "stack": {}, "kind": {}, "policy": {}, "exception": {}, "ops_modelled": {},
            "secret_len": {}, "metachar_secrets": 0, "writes_redacted": 0, "writes_shown": 0, "flag_hits": {},
            "responses": {}, "response_probes": {}, "write_faults": {}, "real_transport": {}, "library_auth": {},
            "transport_options": {}, "driver_repr_at": {}, "reassigned": {}, "rotate": {}, "event_shapes": {},
            "factory": {}, "factory_records": {}, "log_level": {}, "unencodable": {},
            "read_faults": {}, "custom_privilege_levels": {}}
    terms, term_src = [], []
    resp_terms = set()
    nviol = 0
    wd = os.path.join(rep.workdir, "run")
    for si, sc in enumerate(scenarios):
        try:
            obs, leaks = check_scenario(sc, wd)
        except Exception as e:  # the harness itself failed on this scenario: fail closed
            rep.broken.append("harness: scenario %d (%s/%s) raised %s: %s" % (si, sc.get("family"), sc.get("mode"), type(e).__name__, e))
            continue
        for key, val in (("family", sc["family"]), ("mode", sc["mode"].split("-")[0] if sc["mode"].startswith("malformed") else sc["mode"]),
                         ("stack", sc["stack"]), ("kind", sc["kind"]), ("policy", sc["policy"][0])):
            dist[key][val] = dist[key].get(val, 0) + 1
        for e in obs["exceptions"]:
            c = e["chain"][0]["cls"]
            dist["exception"][c] = dist["exception"].get(c, 0) + 1
        for rs in obs.get("responses", []):
            key = "%s %s%s" % (rs["cls"], "failed" if rs["failed"] else "ok", " hidden-input" if rs["hidden"] else "")
            dist["responses"][key] = dist["responses"].get(key, 0) + 1
            for pr in rs["probes"]:
                dist["response_probes"][pr] = dist["response_probes"].get(pr, 0) + 1
        if sc["family"] in ("rt", "libauth", "topts"):
            dist["real_transport"][sc["transport"]] = dist["real_transport"].get(sc["transport"], 0) + 1
        if sc["family"] == "topts":
            # at which points of the life cycle the driver was looked at ("open!": the open failed)
            key = "%s %s" % (sc["transport"], " | ".join(obs.get("repr_points", [])))
            dist["transport_options"][key] = dist["transport_options"].get(key, 0) + 1
        for pt in obs.get("repr_points", []):
            dist["driver_repr_at"][pt] = dist["driver_repr_at"].get(pt, 0) + 1
        if sc["family"] == "rotate":
            # which attributes were reassigned, what the opens did, and whether the NEW values are what got typed
            for (attr, took) in obs.get("assigned", []):
                dist["reassigned"][attr] = dist["reassigned"].get(attr, 0) + 1
            typed = [as_text(e[1]) for e in obs["events"] if e[0] == "twrite"]
            missing = [v for v in sc.get("expect_typed", []) if not any(occurs(v, t) for t in typed)]
            key = "%s %s -> %s%s" % (sc["mode"], sc["stack"], ",".join(e["chain"][0]["cls"] + "@" + e["where"] for e in obs["exceptions"]) or "no exception",
                                     "" if not missing else " (reassigned value NOT typed)")
            dist["rotate"][key] = dist["rotate"].get(key, 0) + 1
            if missing and not sc.get("finding"):
                rep.broken.append("harness: rotate scenario %d (%s %s %s): a reassigned credential was never typed at the device" % (
                    si, sc["mode"], sc["kind"], sc["stack"]))
        lvl = sc.get("log_level", "debug")
        dist["log_level"][lvl] = dist["log_level"].get(lvl, 0) + 1
        if sc["family"] == "factory":
            # which platform (origin, driver type, variant?) at which level on which stack, and what the factory returned
            f = sc["factory"]
            key = "%s %s%s %s %s -> %s" % (f["origin"], sc["kind"], " +variant" if f.get("variant") else "", lvl, sc["stack"],
                                           obs.get("constructed"))
            dist["factory"][key] = dist["factory"].get(key, 0) + 1
            for (lname, llevel) in obs.get("construct_records", []):
                k2 = "%s %s" % (lname if lname.count(".") < 2 else lname.split(".")[0] + ".<uid>." + lname.split(".")[-1], llevel)
                dist["factory_records"][k2] = dist["factory_records"].get(k2, 0) + 1
            failed = any(e["where"] == "construct" for e in obs["exceptions"])
            if sc.get("expect_constructed") and failed and not sc.get("finding"):
                rep.broken.append("harness: factory scenario %d (%s): the factory did not return a driver: %s" % (
                    si, sc["mode"], [e["chain"][0]["cls"] for e in obs["exceptions"] if e["where"] == "construct"]))
            if not failed and lvl in ("debug", "info") and not obs.get("construct_records") and not sc.get("finding"):
                # nothing the construction logs reached the observers although the level lets INFO through: blind, fail closed
                rep.broken.append("harness: factory scenario %d (%s): no record of the construction observed at level %s" % (si, sc["mode"], lvl))
        if sc["family"] == "unencodable":
            # what the code did with the credential: refused it (which exception, where) or typed it (as which bytes)
            secs_u = [v for v in all_secrets(sc).values() if v]
            refused = [e["chain"][0]["cls"] + "@" + e["where"] for e in obs["exceptions"] if any(isinstance_name(c["cls"]) for c in e["chain"])]
            typed = any(any(occurs(v, as_text(e[1])) for v in secs_u) for e in obs["events"] if e[0] == "twrite")
            # refused where: by write() itself (its REDACTED record is there; DEBUG only) or before it (send_inputs_interact
            # encodes every input before it writes)
            redacted = sum(1 for e in obs["events"] if e[0] == "log" and e[3] == "write: REDACTED")
            key = "%s %s %s -> %s" % (sc["mode"], sc["stack"], lvl, "typed" if typed else
                                      (",".join(refused) + (" in write" if redacted else "")) or "NOT REACHED")
            dist["unencodable"][key] = dist["unencodable"].get(key, 0) + 1
            if not typed and not refused and not sc.get("finding"):
                # the credential neither reached a write nor was refused as unencodable: the scenario is blind, fail closed
                rep.broken.append("harness: unencodable scenario %d (%s %s %s): the credential never reached a channel write" % (
                    si, sc["mode"], sc["kind"], sc["stack"]))
        if sc["family"] == "shape":
            # what the code did with the shape (against what the unchanged tree does with it)
            excs = [e["chain"][0]["cls"] for e in obs["exceptions"] if e["where"] == "send_interactive"]
            key = "%s %s: %s (unchanged tree: %s)" % (sc["mode"].split("+")[0], sc["stack"], excs[0] if excs else "accepted", sc.get("expect_shape"))
            dist["event_shapes"][key] = dist["event_shapes"].get(key, 0) + 1
        if sc["family"] == "libauth":
            # which authentication outcome, how it reached the user, and whether the password crossed to the server side
            la = sc["libauth"]
            crossed = any(any(isinstance(f, str) and occurs(v, f) for f in o) for o in obs.get("offered", []) for v in all_secrets(sc).values())
            key = "%s %s key=%s password=%s channel=%s -> %s%s" % (
                sc["transport"], la["endpoint"], la.get("key"), la["password"], la.get("channel", "ok"),
                obs["exceptions"][0]["chain"][0]["cls"] if obs["exceptions"] else "opened", " (secret offered)" if crossed else "")
            dist["library_auth"][key] = dist["library_auth"].get(key, 0) + 1
        if (sc.get("fault") or {}).get("write_at") and sc["family"] in ("rt", "transport-write"):
            # did the fault hit a write that carried a secret, and what reached the user
            hit = any(e[0] == "twrite_exc" for e in obs["events"]) or any(x["where"] == "write" for x in obs["exceptions"])
            key = "%s %s %s" % (sc["transport"], sc["fault"]["exc"], "hit" if hit else "not-reached")
            dist["write_faults"][key] = dist["write_faults"].get(key, 0) + 1
        if sc["family"] == "rt" and not sc.get("fault") and not sc.get("finding"):
            scenarios.extend(rt_faults(rng, sc, obs, thorough))
        if sc["family"] == "login_telnet" and not sc.get("read_fault") and not sc.get("timeout") and not sc.get("finding"):
            # the same login with the read raising the tolerated EOF right after the password / the user name was written
            derived = telnet_read_faults(rng, sc, obs, thorough)
            if not thorough and id(sc) not in corpus_ids:
                # quick tier, random stream: the EOF after the password only (the asyncio login sleeps after every EOF: sync only)
                derived = derived[:1] if sc["stack"] == "sync" else []
            elif not thorough and sc["stack"] != "sync":
                derived = derived[:1]
            scenarios.extend(derived)
        if sc.get("read_fault"):
            hit = sum(1 for e in obs["events"] if e[0] == "tread_exc" and e[1] == "ScrapliConnectionError")
            retyped = sum(1 for e in obs["events"] if e[0] == "twrite" and any(occurs(v, as_text(e[1])) for v in all_secrets(sc).values()))
            key = "%s %s -> %s, secret-carrying writes %d" % (sc["mode"], sc["stack"], "eof raised" if hit else "NOT REACHED", retyped)
            dist["read_faults"][key] = dist["read_faults"].get(key, 0) + 1
            if not hit:
                rep.broken.append("harness: read-fault scenario %d (%s %s): the EOF was never raised" % (si, sc["mode"], sc["stack"]))
        if sc.get("privilege_levels"):
            typed = any(any(occurs(v, as_text(h)) for v in all_secrets(sc).values()) for h in obs["hidden_lines"])
            key = "%s %s -> %s%s" % (sc["mode"], sc["stack"], ",".join(e["chain"][0]["cls"] for e in obs["exceptions"]) or "no exception",
                                     " (secret typed into the device's dialogue)" if typed else "")
            dist["custom_privilege_levels"][key] = dist["custom_privilege_levels"].get(key, 0) + 1
            if "-good" in sc["mode"] and "+" not in sc["mode"] and not typed:
                rep.broken.append("harness: custom privilege level scenario %d (%s %s): the secret was never typed" % (si, sc["mode"], sc["stack"]))
        secs = all_secrets(sc)
        for v in secs.values():
            b = min(len(v) // 8 * 8, 64)
            dist["secret_len"][b] = dist["secret_len"].get(b, 0) + 1
            if any(m in v for m in META):
                dist["metachar_secrets"] += 1
        for e in obs["events"]:
            if e[0] == "log" and e[3].startswith("write: "):
                dist["writes_redacted" if e[3] == "write: REDACTED" else "writes_shown"] += 1
        if obs.get("skipped"):
            dist.setdefault("skipped", {})[sc["mode"]] = obs["skipped"][:80]
        typed_secret = (sc["family"] == "transport-write" and any(any(occurs(v, r_) for v in secs.values()) for r_ in obs["results"])) or any(any(occurs(v, as_text(h)) for v in secs.values()) for h in obs["hidden_lines"]) or \
            any(any(occurs(v, as_text(e[1])) for v in secs.values()) for e in obs["events"] if e[0] == "twrite") or \
            any(any(isinstance(f, str) and occurs(v, f) for v in secs.values()) for o in obs.get("offered", []) for f in o)
        rep.case(("sc", sc["family"], sc["mode"], sc["stack"], sc["kind"], tuple(sc["policy"]), tuple(sorted(secs.values()))),
                 nontrivial=typed_secret)
        if si in (0, 9, 20) or (si == len(scenarios) - 1):
            rep.sample({"scenario": {k: sc[k] for k in ("family", "mode", "kind", "stack", "policy", "ops")},
                        "secrets": secs, "observed": summarize(obs)})
        if leaks:
            sig = leak_signature(leaks)
            if nviol < 5:
                if rep.violation("secret %r observable: %s (scenario %s/%s %s %s)" % (
                        leaks[0]["secret"], "; ".join(sorted({l["where"] for l in leaks}))[:300], sc["family"], sc["mode"], sc["kind"], sc["stack"]),
                        {"suite": "secrets", "scenario": sc, "leaks": leaks[:10], "observed": summarize(obs),
                         "rerun": "./check C12 --replay <this file>"}, signature=sig):
                    nviol += 1
        # model cases (the library authentication itself is oracle-only; what follows an accepted one is modelled)
        items = items_of(sc)
        for ev in obs["events"]:
            if ev[0] != "construct_probe":
                continue
            # the factory's construction: model case OpConstruct (the records it emitted may carry the platform's own
            # arguments, no atom of the user's credentials — at whatever level the user logs)
            terms.append(build_construct_case(ev[1], ev[2], ev[3], ev[4], items))
            term_src.append((si, "Factory.construct", None))
            dist["ops_modelled"]["Factory.construct"] = dist["ops_modelled"].get("Factory.construct", 0) + 1
            rep.evaluations += 1
        for (label, a, kw, evs, exc, exc_text) in op_segments(obs["events"]):
            if lvl != "debug":
                break       # the channel's write / read records are DEBUG records: the I/O trace the model cases compare
                #             is only complete at DEBUG (the oracle scans the run at every level; construction, repr() /
                #             str() and the Response probes are model cases at every level)
            try:
                term = build_case(label, a, kw, evs, exc, exc_text, items, sc)
            except Exception as e:  # noqa
                rep.broken.append("harness: case construction failed for %s: %s: %s" % (label, type(e).__name__, e))
                term = None
            if term is None:
                continue
            dist["ops_modelled"][label] = dist["ops_modelled"].get(label, 0) + 1
            terms.append(term)
            term_src.append((si, label, exc))
            rep.evaluations += 1
        for ev in obs["events"]:
            if ev[0] != "drv_probe":
                continue
            term = build_conf_case(ev[1], ev[2], ev[3], items)
            label = "Driver." + ev[1]
            dist["ops_modelled"][label] = dist["ops_modelled"].get(label, 0) + 1
            rep.evaluations += 1
            if term in resp_terms:
                continue            # the same abstract probe was already handed to the model
            resp_terms.add(term)
            terms.append(term)
            term_src.append((si, label, None))
        for ev in obs["events"]:
            if ev[0] != "resp_probe":
                continue
            term = build_resp_case(ev[1], ev[2], ev[3], ev[4], items)
            if term is None:
                continue
            label = "Response." + ev[1]
            dist["ops_modelled"][label] = dist["ops_modelled"].get(label, 0) + 1
            rep.evaluations += 1
            if term in resp_terms:
                continue            # the same abstract probe (same atoms shown) was already handed to the model
            resp_terms.add(term)
            terms.append(term)
            term_src.append((si, label, ev[4][0] if ev[4] else None))
    from .c12_auth import close_env
    close_env()
    bad, log = common.eval_cases(rep.workdir, "cases_c12", HEADER, terms, "chk", shard=300)
    rep.coverage["correspondence"] = {"suite": "secrets", "scenarios": len(scenarios), "model_cases": len(terms),
                                      "distribution": dist, "model_disagreements": None if bad is None else len(bad),
                                      "oracle_violations": nviol}
    rep.coverage["generated_from"] = common.source_hashes(SOURCES)
    rep.coverage["generated"] = {k: info.get(k) for k in ("sinks", "log", "raise", "repr", "store", "files", "inplace_stores_seen", "stores_into_shown")}
    rep.coverage["secret_reaching_sinks"] = info.get("secret_reaching", [])
    rep.rule = ("scenario = (family, mode, driver kind, stack, chunking policy, canary values); corpus (the enable-without-password "
                "defect on every platform and stack, permission denied, rejected logins, disconnects, timeouts, refused hidden inputs "
                "with failed responses, every real transport plugin with a fake endpoint: whole login / escalation / hidden-input "
                "dialogues and the endpoint dead at every secret-carrying write; the real open() of the paramiko / asyncssh plugins with "
                "the server side rejecting the password / the key, accepting, dropping during / right after the authentication, "
                "through open() and the context manager: fakes of the library objects and in-process loopback ssh servers; drivers "
                "constructed with transport_options={...} on asyncssh / paramiko (real open()), system (real _build_open_cmd), telnet, "
                "asynctelnet: repr()/str() of the driver and the user's own option dict before open, after a successful / rejected "
                "open and after close; credentials REASSIGNED on an existing driver object — auth_password, auth_private_key_passphrase, "
                "auth_secondary, auth_username assigned before the first open, after a refused open, between two opens, between open "
                "and acquire_priv, over the scripted telnet login and the real system plugin, the device accepting only the new values; "
                "send_interactive with hidden events of unusual shapes, accepted (response None / '', list events, extra elements) and "
                "rejected (non-string response, short event, events as a tuple, input in a list); drivers created through the "
                "FACTORY (Scrapli / AsyncScrapli) with every secret-bearing argument: the five core platforms and scrapli_community "
                "platforms (synthetic ones registered in sys.modules — network / generic / own driver classes, each variant — and "
                "those of the installed package), the construction alone and followed by the platform's on_open dialogue, the user "
                "logging at debug / info / warning / error / critical; missing / broken platform definitions, unknown variant; "
                "credentials utf-8 cannot encode — lone low / high surrogates, reversed pairs, next to multi-byte characters — as telnet / "
                "ssh login password, key passphrase, enable / junos root-shell secret, hidden interactive input, sync and asyncio, the "
                "user logging at debug / info / warning; NetworkDriver with USER-SUPPLIED privilege_levels — custom names, commands, "
                "patterns, escalate_auth with a literal / regex / EMPTY escalate_prompt — against a device asking in that wording; "
                "telnet logins with a TRANSIENT EOF read error right after the password / the user name / another write) + seeded scenarios + "
                "a malformed stream (all-metacharacter / very long / format-looking secrets, truthy non-bool hidden flag); "
                "every Response / MultiResponse handed to the user is probed with str(), raise_for_status() and (no hidden input) repr(); "
                "every repr()/str() of a driver is one model case (OpRepr / OpStr of the configuration given at construction); "
                "non-trivial = a secret was actually typed at the device; every scenario is scanned by the oracle, every channel "
                "operation and _escalate call inside it is one model case")
    if bad is None:
        rep.broken.append("correspondence secrets (model evaluation failed)")
        rep.notes.append(log)
    elif bad:
        seen = set()
        for ix in bad[:8]:
            si, label, exc = term_src[ix]
            sc = scenarios[si]
            rep.notes.append("model/implementation disagreement: scenario %d %s/%s %s %s op %s (exc %s): %s" % (
                si, sc["family"], sc["mode"], sc["kind"], sc["stack"], label, exc, terms[ix][:1500]))
            seen.add((sc["family"], label))
        rep.broken.append("correspondence secrets: model differs from implementation on %d operation(s) %s" % (len(bad), sorted(seen)))
        if not rep.violations:
            # search near the disagreement: the same scenarios under every chunking policy and both stacks
            found = False
            for ix in bad[:6]:
                si = term_src[ix][0]
                for pol in (["whole"], ["bytes", 1], ["bytes", 5]):
                    for stack in ("sync", "async"):
                        sc = dict(scenarios[si], policy=pol, stack=stack)
                        if sc["family"].startswith("login") and stack != "sync" and pol != ["whole"]:
                            continue    # the asyncio logins sleep per read: fragmenting them makes the return kick fire (C09's region)
                        try:
                            obs, leaks = check_scenario(sc, wd)
                        except Exception:  # noqa
                            continue
                        if leaks:
                            rep.violation("secret %r observable: %s" % (leaks[0]["secret"], leaks[0]["where"]),
                                          {"suite": "secrets", "scenario": sc, "leaks": leaks[:10], "observed": summarize(obs)},
                                          signature=leak_signature(leaks))
                            found = True
                            break
                    if found:
                        break
                if found:
                    break


# the sinks of the known finding C12-response-hidden-input (model/Secrets.v [known_region])
KNOWN_REGION = {("scrapli/response.py", "Response.__repr__"), ("scrapli/helper.py", "_textfsm_get_template")}
SECRET_IDENTS = {"auth_password", "auth_private_key_passphrase", "auth_secondary", "interact_event[0]",
                 "interact_events[0]", "interact_event", "interact_events"}


def replay(path):
    r = json.load(open(path))
    sc = r.get("scenario")
    if not sc:
        print("nothing to replay (no concrete input): %s" % r.get("what"))
        return 1
    wd = os.path.join(common.BUILD, "C12", "replay")
    try:
        obs, leaks = check_scenario(sc, wd)
    finally:
        from .c12_auth import close_env
        close_env()
    print("scenario:", json.dumps({k: sc[k] for k in ("family", "mode", "kind", "stack", "policy", "ops")}))
    print("secrets :", all_secrets(sc))
    print("observed:", json.dumps(summarize(obs)))
    for l in leaks[:12]:
        print("LEAK  %-40s secret=%s  %s" % (l["where"], l["secret"], ascii(l["excerpt"][:160])[1:-1]))
    print("property FAILS on this input" if leaks else "property holds on this input")
    return 1 if leaks else 0


MANIFEST = {
    "text": "Coq theorems (props/C12.v, axiom-free) over an executable model of BaseChannel.write/read, the read loops, "
            "channel_authenticate_telnet/ssh (both twins), get_prompt, send_input, send_inputs_interact, NetworkDriver._escalate and "
            "BaseDriver.__repr__/__str__, Response / MultiResponse __repr__/__str__/raise_for_status extended with the stream of observables "
            "(log records, channel log, exception messages, repr): "
            "T1 for ALL operation sequences and ALL histories (chunkings, pattern answers, disconnects, timeouts, blocking reads; failing "
            "paths included) no observable contains a secret atom when the device does not print it; T2 a secret is only ever typed in "
            "answer to the prompt that asks for it (any device); T3 hence with a causal device (it can only echo what was typed unasked) "
            "nothing observable contains a secret; the code before the repair of the enable-without-password defect is refuted by a "
            "vm_compute witness; str() / raise_for_status() of ANY response show nothing of its channel input, repr() of a response is "
            "secret-free exactly when its channel_input is (full statement refuted: response of an interaction with a hidden input). Static obligation decided in Coq by computation over Gen_Sinks.v (regenerated from the source on every "
            "run): over every logger call, raise and __repr__/__str__ of EVERY module of the scrapli package (anchored files, the files "
            "between them and the credentials, scrapli/response.py, helper.py, factory.py, ptyprocess.py, ...), no secret-carrying "
            "identifier (closed under local assignments, call edges and attribute stores: Response.channel_input stands for the joined "
            "interact inputs; an object of a package dataclass formatted as a whole — `self.plugin_transport_args`, "
            "`_plugin_transport_args`, any identifier annotated / constructed / named as a holder of one — stands for every field its "
            "generated repr prints, auth_password included) reaches the message except under the redacted / hidden_input guard — PARTIAL: outside the two sinks of the "
            "known finding C12-response-*-hidden-input (Response.__repr__, the `no template` warning of textfsm_parse_output), for "
            "which the full statement is refuted by computation. The table also holds, as sinks of kind SStore, every in-place store "
            "(x[k] = v, update / setdefault / append / extend / insert / add) whose receiver may be — through names, attributes, "
            "subscripts, .get()/.setdefault()/.pop() results, local assignments, attribute stores and call edges — an object that a "
            "__repr__ / __str__ of the package formats as a whole: BaseDriver.__repr__ prints the user's own transport_options dict by "
            "reference, so a credential stored into it (or into a dict taken out of it) by any transport is a flow into repr(driver). Partial / observed only: the real runtime is observed, not proved — "
            "canary secrets (regex/format metacharacters included) through telnet login, system-ssh login, enable / root-shell "
            "escalation and hidden interact events on every core driver, sync and asyncio, good / rejected / refused / unasked / "
            "disconnect / timeout paths, DEBUG on the whole 'scrapli' logger tree, both file handlers, repr/str, str(exception chain), "
            "what the device executed; str() / repr() / raise_for_status() of every Response and MultiResponse handed to the user "
            "(failed responses of hidden interactions and of commands after an escalation included); whole login / escalation / "
            "hidden-input dialogues through the REAL system, telnet, asynctelnet, paramiko and asyncssh transport classes over a fake "
            "endpoint, and the same dialogues with the endpoint dead (EIO / EBADF / EPIPE / ECONNRESET / EOF) at every write that "
            "carries a secret and at other writes; channel.write(redacted) through every plugin with the endpoint dead at the secret; "
            "the library authentication of the paramiko and asyncssh transports: their REAL open() (through Driver.open and the "
            "context manager) with the server side rejecting the password, rejecting / failing to load / accepting the key, accepting "
            "the password, dropping the connection during the authentication (EOF / no session / reset / broken pipe / ConnectionLost / "
            "DisconnectError / timeout) or when the shell channel is requested — against fakes of the library objects (every outcome, "
            "the dialogue goes on after an accepted one) and with the real client libraries against in-process loopback ssh servers; "
            "drivers constructed with the transport_options kwarg for every transport that reads it (asyncssh {'asyncssh': {...}} and "
            "paramiko enable_rsa2 through their real open(), system open_cmd / ptyprocess through the real _build_open_cmd, telnet / "
            "asynctelnet; options of another transport riding along): repr() and str() of the driver AND the option dict the user "
            "handed in (same object repr(driver) prints) before open(), after a successful open(), after an open() the server / device "
            "rejected, after close(); every repr()/str() of a driver in any scenario is compared with the model's OpRepr / OpStr of "
            "the configuration given at construction (the atoms shown may not change over the life cycle). Credentials REASSIGNED on an "
            "existing driver object (`conn.auth_password = ...`, auth_private_key_passphrase, auth_secondary, auth_username; every "
            "order) before the first open(), after an open() the device refused, between two opens with the device's credentials rotated, "
            "between open() and acquire_priv() (enable, junos root shell), over the scripted telnet login and the real system plugin's "
            "passphrase / password dialogue, sync and asyncio: the device accepts only the new values (the check fails closed when a "
            "reassigned value is not what gets typed), old and new values are canaries for every observer, each assignment is a model "
            "case (OpAssign); the sink table follows attribute-assignment hooks: the value parameter of a property setter stands for "
            "the attribute it sets, the one of a __setattr__ for every attribute of the class family. send_interactive with a hidden "
            "event of an unusual shape: accepted by the code (expected response None / '', the event a list, extra elements) and "
            "rejected by it (non-string response, too short event before the hidden one, events handed over as a tuple, input "
            "wrapped in a list) — no exception message (python errors included), log record or repr may quote the hidden input. "
            "Drivers created through the FACTORY (scrapli.Scrapli / scrapli.AsyncScrapli — no other family goes through it) with "
            "auth_password, auth_private_key_passphrase and auth_secondary (generic platforms: a hidden interactive input instead) "
            "as canaries: every core platform; scrapli_community platforms laid out like the real package "
            "(scrapli_community.<vendor>.<os> re-exporting SCRAPLI_PLATFORM of ...<vendor>_<os>, also a platform without os part) "
            "registered in sys.modules for the construction — driver_type 'network', 'generic' and a pair of own driver classes, "
            "defaults with privilege levels / on_open / on_close / a transport_options dict, every variant (overrides, a variant "
            "with its own driver classes) — and platforms of the installed scrapli_community package (construction only); sync and "
            "asyncio; the construction alone and followed by open() (the platform's on_open escalates with auth_secondary), a "
            "command / hidden input, repr, close, also behind the in-channel telnet login; the user logging at EVERY level "
            "(debug, info, warning, error, critical: scenario field log_level, both file handlers and the record observer see "
            "what the 'scrapli' logger lets through); what the factory refuses (no such platform, no SCRAPLI_PLATFORM, no "
            "defaults, unknown variant, non-string platform) with the credentials in scope. The construction is a model case "
            "(OpConstruct: one record with the platform's own arguments, nothing of the user's configuration, at any level). "
            "Credentials that utf-8 CANNOT ENCODE (family unencodable): the telnet / ssh in-channel login password, the key "
            "passphrase, the enable and junos root-shell secret and hidden interactive inputs (also the one the device refuses "
            "three times) holding lone low surrogates U+DC80..U+DCFF (what os.environ / sys.argv / os.fsdecode deliver for bytes "
            "that are not utf-8), a lone high surrogate, a pair in the wrong order, or one next to multi-byte characters and "
            "metacharacters; sync and asyncio; the user logging at debug / info / warning; optionally the credentials the dialogue "
            "does not use of the same kind. The device accepts the bytes surrogateescape would send, so a tree that gets such a "
            "write through goes on with the dialogue. Every observer as everywhere (records at the user's level, both log files, "
            "repr/str of driver / channel / transport, str() of the whole exception chain); a canary is recognised in str form, "
            "as \\udcXX escapes (repr / ascii / backslashreplace), as the bytes surrogateescape / surrogatepass / replace / ignore / "
            "xmlcharrefreplace produce (raw and as a bytes repr). The check fails closed when such a credential neither reaches "
            "a write nor is refused with a UnicodeError. "
            "USER-SUPPLIED privilege_levels (family escalate, modes custom-*): a NetworkDriver / AsyncNetworkDriver whose two "
            "levels the user wrote — own level names, escalation / de-escalation commands, prompt endings and patterns — with "
            "escalate_auth=True and an escalate_prompt that is the device's own wording (literal), a ^...$ pattern, or EMPTY, "
            "against a device of that vendor table which asks for the secret in exactly that wording (empty prompt: it says a "
            "secret is required / nothing and shows its prompt again, then reads a line without echo); accepted, refused "
            "(blocking read; timeout in the thorough tier) and unasked secrets, every chunking, both stacks; the check fails "
            "closed when the accepted secret never reaches the device's dialogue. TRANSIENT EOF in the telnet login (scenario "
            "field read_fault, derived from each fault-free login_telnet run): the transport read raises the EOF "
            "ScrapliConnectionError the login loop tolerates right after the write that carried the password, right after "
            "the one that carried the user name, and after another write (login and command phase), then the stream goes on — "
            "accepted, rejected and password-only logins, sync and asyncio (quick tier: all three points for the corpus "
            "logins, the EOF after the password for the random sync ones); fails closed when the EOF is never raised.",
    "note": "Trusted: Coq kernel + vm_compute; the hand model coq/model/Secrets.v (tied to the code by running every channel operation "
            "of every scenario through the model on the history observed at the transport: same write records REDACTED-or-shown, reads, "
            "channel log, exception class; other records compared as sets of data items); gen/gen_sinks.py (identifier-level value flow "
            "is a syntactic approximation of Python semantics: attribute names not objects (an attribute load stands for every store "
            "under that name: class family for self, package-wide otherwise), calls resolved by name and receiver, no "
            "aliasing through containers for VALUE flows (in-place stores into a container that a __repr__ prints are rows of their own, see "
            "SStore), getattr/**kwargs/format(**vars()) not followed; which identifiers hold a dataclass object is "
            "decided from annotations, constructor calls, typed attribute stores and, since the objects travel through untyped "
            "factories, the holder's name; a dataclass with its own __repr__ / repr=False is a sink row of its own / prints nothing); SimDevice and the login front-ends. Pattern "
            "matching is abstracted (the answers are part of the universally quantified history). Not modelled: transports' own "
            "authentication (paramiko/asyncssh/ssh2 take the password through library calls: covered by the sink table and, for "
            "paramiko / asyncssh, by the oracle-only library-authentication scenarios below; ssh2 by the sink table only), "
            "send_input_and_read, read_callback, asyncio TimeoutError iterations of the asyncio ssh login. Response / MultiResponse "
            "str / repr / raise_for_status are modelled (resp record built from host, channel_input, failed_when_contains of the real "
            "object; one model case per probe). Driver repr()/str(): model cases OpRepr / OpStr whose conf record is built from the "
            "kwargs the scenario gave at construction (pristine deep copy, credentials apart) — the model's conf is STATIC, the "
            "transports' use of transport_options (AsyncsshTransport.open merging it into connect(), SystemTransport._build_open_cmd, "
            "ParamikoTransport enable_rsa2) has no Coq model: that nothing is stored into the printed dict is the SStore rows of the "
            "sink table (syntactic alias approximation: names not objects, copies / literals / other calls break the alias) plus the "
            "canary oracle on the topts scenarios, where the user's dict is also scanned directly; the system plugin's open() is "
            "still a stub (it runs the real _build_open_cmd, then attaches the fake pty). Reassigned credentials: the model has no "
            "driver state — OpAssign cred v is `nothing observable` for the three credential attributes (plain stores) and `a record "
            "with the value` for a public tunable with a logging setter; the operations that follow are model cases parametrised by "
            "the values the real driver holds then (login arguments observed at the call, OpEscalate's secret read from the driver at "
            "each _escalate, the conf record of OpRepr / OpStr updated by the assignment); `reconnect` (a fresh device session behind "
            "the same driver / transport object for the next open()) is a harness step, not an operation of scrapli. Interact events "
            "of unusual shapes: the accepted ones are model cases as what the code reads of them (elements 0..2, response None / '' = "
            "read to the prompt), the REJECTED ones (python errors in the middle of the interaction, ScrapliTypeError for a "
            "non-list) are oracle-only; descriptor classes with __set__ are not followed by the sink table. Factory: "
            "model/Secrets.v [m_construct] is one OInfo record holding the platform definition's atoms (community) or nothing "
            "(core) — the case compares the SECRET atoms of all records emitted during the real construction against it (public "
            "atoms and the number / wording of records are free), so the model says what may NOT be there, not what the factory "
            "does: platform resolution (importlib, variants, driver classes) and the merge of platform and user arguments have no "
            "Coq model; a construction the factory refuses is oracle-only. Scenarios logging above DEBUG: the channel "
            "operations' model cases are skipped (their write / read records are DEBUG records), construction, driver repr/str "
            "and Response probes stay model cases, the oracle scans everything. The synthetic platforms stand for "
            "scrapli_community (harness/c12_factory.py: modules put into sys.modules and removed after the construction; on_open / "
            "on_close are scrapli's own IOS-XE ones, the device is the IOS-XE simulator); installed platforms are only "
            "constructed (when the package is missing the factory's ScrapliModuleNotFound is what is observed). ORACLE-ONLY (no Coq model, covered by the sink table + the canary oracle): "
            "Response.textfsm_parse_output and every run with a failing transport write (model cases stop at a twrite exception); the real "
            "transport plugins are driven through fake endpoints (harness/c12_rt.py: open() replaced on the instance, the library "
            "authentication of paramiko / asyncssh / ssh2 is not run there; ssh2 is skipped when not installed). ORACLE-ONLY as well: the "
            "library-authentication scenarios (family libauth, harness/c12_auth.py) — ParamikoTransport.open / AsyncsshTransport.open "
            "and their helpers have no Coq model; every outcome is scanned by the canary oracle (log records, both log files, "
            "str + args of the whole exception chain incl. the library's own exceptions, repr/str of driver, channel, transport), "
            "only the channel operations that FOLLOW an accepted authentication on a fake endpoint are model cases. The fakes replace "
            "Socket / Transport / RSAKey (paramiko plugin module) and connect (asyncssh plugin module) for one scenario and are "
            "restored afterwards (fail-closed if the plugin no longer has these names); the library exceptions they raise carry the "
            "messages the real libraries use, never a credential. The loopback scenarios run the real paramiko / asyncssh clients "
            "against asyncssh servers on 127.0.0.1 (an echo shell, no device: authentication outcome, repr, close only). "
            "Custom privilege levels: OpEscalate is a model case for a non-empty escalate_prompt (whatever its wording; level "
            "names and the de-escalation command are not atoms); with an EMPTY escalate_prompt the _escalate call itself is "
            "ORACLE-ONLY (m_escalate's first event always has an expected response), the send_inputs_interact it makes is still "
            "a model case (OpInteract with the events and hidden flags as the driver handed them over, expected response '' = "
            "read to the class prompt); empty prompt + a device that refuses / does not ask for the secret is outside the "
            "scenarios (the code cannot tell that challenge from the prompt and types the secret at the prompt — not explored, "
            "not listed as a finding). The device of these scenarios is harness/c12.py priv_device (SimDevice subclass: vendor "
            "table and wording of the dialogue replaced). Transient EOF: injected by the read wrapper of instrument() on any "
            "transport (the scripted one here), one read; the login is the model's m_login_telnet RConnErr step (a return, "
            "then on) — model case kept for channel_authenticate_telnet when the scenario has a read_fault, still skipped for a "
            "transport that stays dead; off the password write these runs are delivered whole (fragmented, the extra return "
            "can overtake an unread prompt and the device echoes what is typed next: device behaviour, outside the hypothesis). "
            "ORACLE-ONLY as well: family unencodable — the model's secrets are atoms, it has no encoding step: on the unchanged "
            "tree BaseChannel.write (logins; after its `write: REDACTED` record) resp. send_inputs_interact (hidden inputs and "
            "_escalate; before any write) end with the BUILT-IN UnicodeEncodeError of str.encode(), an exception class outside "
            "the model's (build_case gives no case for it), so only the operations before it, the driver repr/str and "
            "construction cases of these scenarios reach the model. The property is about the messages of exceptions SCRAPLI "
            "raises and about records / reprs: python keeps the object that failed to encode in args[1] of every UnicodeError, "
            "so repr() of that built-in exception shows the credential on the unchanged tree — outside the property, and the "
            "ONE thing the oracle leaves out (args[1] of a builtins UnicodeError with the standard five args; its str(), which "
            "names one character and a position, the rest of its args, and every scrapli exception wrapping it — str and args "
            "— are scanned). "
            "Known findings, kept out of "
            "the main exploration and replayed: repr(Response) and Response.textfsm_parse_output() of a send_interactive with a hidden "
            "input show it (Response.channel_input is the join of all event inputs); repr() is therefore only probed on responses "
            "without hidden inputs. A device that echoes "
            "what it asks for in a password dialogue is outside the theorems' hypothesis (the `permission denied` message and the read "
            "records copy device output).",
    "technique": "Coq proof by induction over histories / event lists with a trace invariant + by-computation obligation over an "
                 "ast-generated sink table + vm_compute correspondence of the model against both channel stacks + canary oracle",
}
