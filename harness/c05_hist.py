"""C05 helper — (d) histories with IN-PLACE edits of existing privilege-level objects, (e) prompt detection after commandeer.

(d) a driver that has ALREADY classified prompts (every level object has been used, the lru cache is warm) gets the
    `.pattern` / `.not_contains` of its existing level objects edited in place (host class widened, length bound narrowed,
    not_contains entry added / removed; controls: the object replaced, a level added), then `update_privilege_levels()`,
    then prompts that tell the old table from the new one are classified and looked for with the real get_prompt.
    model:   PromptCache.crun with `Update tbl_st_<i>`, the table read by gen_prompts.generate_history_tables from a
             FRESH driver after the same steps (never used for a classification, so nothing can be stale in it);
    oracles: the uncached classifier (`__wrapped__`) AND an independent re.search over the CURRENT `.pattern` strings and
             `not_contains` lists of the level objects (a cache that lives inside the level object is shared by
             `__wrapped__`); detection: a prompt one of the current patterns matches as a whole is returned by get_prompt;
             isolation: a connection constructed after the edits still has the platform's own table.
(e) after `new.commandeer(old)` the prompt is detected with the pattern of `new`: a core driver that took over a
    GenericDriver (console server) connection or another platform's connection still detects every prompt of its
    grammars — the long ones (more than 48 characters), the ones with blanks — also after a session was registered /
    a pattern edited on the commandeering connection; a GenericDriver that took over a core connection detects what its
    own pattern describes.  Oracle only (no Coq model of commandeer): get_prompt == the prompt.
"""
import re

from gen import gen_prompts

HOSTCLS = re.compile(r"\[((?:\\.|[^\]\\])+)\]\{1,63\}")
EXTRA = "%~!=&,"


# ---------------------------------------------------------------------------------------------
# oracles
# ---------------------------------------------------------------------------------------------
def levels_now(drv):
    """the table as it is NOW: (key, pattern text, not_contains) of every level object"""
    return [(k, lvl.pattern, list(lvl.not_contains)) for k, lvl in drv.privilege_levels.items()]


def table_classify(levels, t):
    """independent of scrapli's classifier: python re over pattern TEXT"""
    return [n for n, pat, ncs in levels if not any(nc in t for nc in ncs) and re.search(pat, t, flags=re.M | re.I)]


def whole_match(levels, t):
    """some level pattern matches t as a whole (then the combined channel pattern must find exactly t after a newline)"""
    for _, pat, _ in levels:
        m = re.search(pat, t, flags=re.M | re.I)
        if m and m.span() == (0, len(t)) and t == t.strip():
            return True
    return False


def uncached(drv, t):
    from scrapli.exceptions import ScrapliPrivilegeError
    raw = getattr(type(drv)._determine_current_priv, "__wrapped__", None)
    if raw is None:
        return None
    try:
        return list(raw(drv, t))
    except ScrapliPrivilegeError:
        return []


# ---------------------------------------------------------------------------------------------
# (d) edit histories
# ---------------------------------------------------------------------------------------------
def run_history(c05, p, stack, ops):
    """ops: ["Q", hex] classify | ["T", steps] table change | ["G", hex, trail hex] get_prompt.
    returns (observations, failures); a failure = (op index, what, expected, observed)"""
    drv = c05.make_real_driver(p, "base", stack)
    obs, fails = [], []
    for i, op in enumerate(ops):
        if op[0] == "Q":
            t = bytes.fromhex(op[1]).decode("latin-1")
            got = c05.real_classify(drv, t)
            want = table_classify(levels_now(drv), t)
            raw = uncached(drv, t)
            if got != want:
                fails.append((i, "classify", want, got))
            elif raw is not None and got != raw:
                fails.append((i, "stale", raw, got))
            obs.append(got)
        elif op[0] == "T":
            for st in op[1]:
                # edit-locality: an in-place edit of ONE named level object (its not_contains list appended to / an entry
                # removed, its pattern text changed) leaves every OTHER level's pattern and not_contains as they were — the
                # oracle below reads the objects' current attributes, so an edit that leaks into a sibling through a shared
                # list object would otherwise be believed
                named = st[1] if st[0] in ("nc_add", "nc_del") or (st[0] == "sub" and st[1] != "*") else None
                snap = {k: (pat, list(nc)) for k, pat, nc in levels_now(drv)} if named else None
                gen_prompts.apply_step(drv, st)
                if snap is not None:
                    now = {k: (pat, list(nc)) for k, pat, nc in levels_now(drv)}
                    leaked = sorted(k for k in snap if k != named and k in now and now[k] != snap[k])
                    if leaked:
                        fails.append((i, "edit-leak", "edit %r of level %r only" % (st, named),
                                      "also changed %s: %s" % (leaked, {k: now[k][1] for k in leaked})))
            obs.append(None)
        elif op[0] == "G":
            s, trail = bytes.fromhex(op[1]), bytes.fromhex(op[2])
            t = s.decode("latin-1")
            gp = c05.real_get_prompt(drv, s, trail, stack)
            if whole_match(levels_now(drv), t) and gp != t:
                fails.append((i, "get_prompt", t, gp))
            obs.append(gp)
        else:
            raise ValueError(op)
    return obs, fails


def _host_class(levels):
    for _, pat, _ in levels:
        m = HOSTCLS.search(pat)
        if m:
            return m
    return None


def _edit(kind, levels, pool, rng):
    """(steps, undo steps, candidate prompts) of one in-place edit of the table `levels`; None if not applicable"""
    m = _host_class(levels)
    names = [n for n, _, _ in levels]
    if kind in ("widen_all", "widen_one", "replace_widen"):
        if not m:
            return None
        free = [c for c in EXTRA if not re.fullmatch("[%s]" % m.group(1), c, flags=re.I)]
        if not free:
            return None
        c = rng.choice(free)
        old, new = m.group(0), "[%s%s]{1,63}" % (m.group(1), c)
        cands = []
        for s in pool:
            cands.append(s[:1] + c.encode() + s[1:])
            if len(s) > 2:
                cands.append(s[:1] + c.encode() + s[2:])
        if kind == "widen_all":
            return [["sub", "*", old, new]], [["sub", "*", new, old]], cands
        who = rng.choice([n for n, pat, _ in levels if old in pat])
        if kind == "widen_one":
            return [["sub", who, old, new]], [["sub", who, new, old]], cands
        return [["replace", who, old, new]], [["replace", who, new, old]], cands
    if kind in ("narrow_all", "narrow_one"):
        if not m:
            return None
        n = rng.randint(2, 30)
        old, new = m.group(0), "[%s]{1,%d}" % (m.group(1), n)
        who = "*" if kind == "narrow_all" else rng.choice([x for x, pat, _ in levels if old in pat])
        return [["sub", who, old, new]], [["sub", who, new, old]], list(pool)
    if kind == "nc_add":
        s = rng.choice(pool).decode("latin-1")
        hit = table_classify(levels, s)
        if not hit or len(s) < 2:
            return None
        a = rng.randrange(0, len(s) - 1)
        entry = s[a:a + rng.choice([2, 2, 3])]
        if "\n" in entry:
            return None
        who = rng.choice(hit)
        return [["nc_add", who, entry, rng.choice(["append", "assign"])]], [["nc_del", who, entry]], list(pool)
    if kind == "nc_del":
        have = [(n, nc) for n, _, ncs in levels for nc in ncs]
        if not have:
            return None
        who, entry = rng.choice(have)
        cands = [s[:1] + entry.encode("latin-1") + s[1:] for s in pool] + [s[:-1] + entry.encode("latin-1") + s[-1:] for s in pool]
        return [["nc_del", who, entry]], [["nc_add", who, entry, "append"]], cands
    if kind == "add_level":
        if not m or "diag" in names:
            return None
        pat = "^%s\\(diag\\)#\\s?$" % m.group(0)
        cands = [s[:-1] + b"(diag)#" for s in pool if s.endswith(b"#")] or [b"r1(diag)#"]
        return [["add", "diag", pat, names[0]]], [["retire", "diag"]], cands
    raise ValueError(kind)


KINDS = ["widen_all", "widen_all", "widen_one", "narrow_all", "narrow_one", "nc_add", "nc_del", "replace_widen", "add_level"]


def make_history(c05, rx, p, plat, rng, kind):
    """one history: queries (warm-up of every level object and of the lru cache), in-place edit + update, the prompts that
    distinguish the old table from the new one (classification and get_prompt), optionally a second change."""
    obs = [o for o in plat["info"]["obs"] if o["variant"] == "base"]
    pool = []
    for o in obs:
        for _ in range(2):
            s = c05.sample_member(rx, o, rng, 10)
            if s and b"\r" not in s:
                pool.append(s)
    pool = pool or [b"r1#"]
    drv = c05.make_real_driver(p, "base")      # scratch driver: only its pattern TEXT is read (scenario selection)
    base_levels = levels_now(drv)
    steps_so_far = []
    ops, kinds = [], []
    session = any(o["variant"] == "session:s1" for o in plat["info"]["obs"])      # NX-OS / EOS
    if session and rng.random() < 0.3:
        ops.append(["T", [["register", "s1"]]])
        gen_prompts.apply_step(drv, ["register", "s1"])
        kinds.append("register")
        for o in plat["info"]["obs"]:
            if o["variant"] == "session:s1" and o["mode"] == "s1":
                s = c05.sample_member(rx, o, rng, 10)
                if s:
                    pool.append(s)
    before = levels_now(drv)
    e = _edit(kind, before, pool, rng)
    if e is None:
        e = _edit("nc_add", before, pool, rng) or _edit("narrow_all", before, pool, rng)
    if e is None:
        return None
    steps, undo, cands = e
    for st in steps:
        gen_prompts.apply_step(drv, st)
    drv.update_privilege_levels()
    after = levels_now(drv)
    dist = [s for s in cands if 0 < len(s) <= 140 and
            table_classify(before, s.decode("latin-1")) != table_classify(after, s.decode("latin-1"))]
    # isolation observer: the edits were made on the level objects of ONE connection; a connection constructed now has the
    # platform's own table (otherwise every later scenario of this process would start from an edited table)
    other = c05.make_real_driver(p, "base")
    if levels_now(other) != base_levels:
        done = ops[0][1] + steps + [["update"]] if ops else steps + [["update"]]
        for s in dist + cands + pool:
            t = s.decode("latin-1")
            got, want = c05.real_classify(other, t), table_classify(base_levels, t)
            if got != want:
                return "isolation", {"kind": "edit-isolation", "platform": p, "stack": "sync", "steps": done, "prompt_hex": s.hex(),
                                     "prompt": t, "expected": want, "observed": got}
        return "isolation", None
    rng.shuffle(dist)
    dist = dist[:5]
    if not dist:
        return None

    def q(s):
        return ["Q", s.hex()]

    warm = [q(s) for s in dist] + [q(rng.choice(pool)) for _ in range(rng.randint(2, 4))]
    rng.shuffle(warm)
    ops += warm
    ops.append(["T", steps + [["update"]]])
    post = [q(s) for s in dist] + [q(rng.choice(pool)) for _ in range(2)]
    rng.shuffle(post)
    ops += post
    trail = b" " if plat["info"]["obs"][0]["trail"] else b""
    for s in dist[:3]:
        ops.append(["G", s.hex(), (trail if rng.random() < 0.5 else b"").hex()])
    kinds.append(kind)
    r = rng.random()
    if r < 0.35:            # undo in place: the first table again, through the same objects
        ops.append(["T", undo + [["update"]]])
        ops += [q(s) for s in dist] + [q(rng.choice(pool))]
        kinds.append("undo")
    elif r < 0.55 and session and "register" not in kinds:
        ops.append(["T", [["register", "s1"]]])
        ops += [q(s) for s in dist[:3]] + [q(rng.choice(pool))]
        kinds.append("register")
    return ops, kinds, len(dist)


def history_states(ops):
    """cumulative step list after each table change (the descriptor of the table the model is given)"""
    acc, out = [], []
    for op in ops:
        if op[0] == "T":
            acc = acc + op[1]
            out.append(list(acc))
    return out


def edit_histories(c05, rep, rx, plats, rng, thorough, info_all, coq_bytes, coq_list, common, coqc):
    wd = rep.workdir
    stats = {"histories": 0, "ops": 0, "queries_after_edit": 0, "distinguishing_prompts": 0, "get_prompt": 0, "kinds": {}, "failures": 0}
    n_hist = 12 if thorough else 5
    todo = []
    for p, plat in plats.items():
        hists = []
        kinds = list(KINDS)
        rng.shuffle(kinds)
        kinds = ["widen_all"] + kinds        # every platform gets at least the plain widening
        for kind in kinds:
            if len(hists) >= n_hist:
                break
            h = make_history(c05, rx, p, plat, rng, kind)
            if h and h[0] == "isolation":
                if h[1]:
                    rep.violation("%s: after in-place edits %s + update_privilege_levels() on ONE connection, a NEWLY constructed connection classifies %r as %s, "
                                  "expected %s (the platform's own table)" % (p, h[1]["steps"], h[1]["prompt"], h[1]["observed"], h[1]["expected"]), h[1])
                else:
                    rep.broken.append("edit histories %s: a newly constructed driver no longer has the platform's table after another driver's levels were edited" % p)
                rep.notes.append("edit histories / commandeer scenarios abandoned: privilege-level objects are shared between connections in this process")
                stats["abandoned"] = True
                info_all["edit_histories"] = stats
                return False
            if h:
                hists.append(h)
        # fixed on every run (oracle-only, not among the model's histories): every level whose not_contains is empty gets an
        # entry appended IN PLACE and taken away again — the edit must stay with that level (edit-locality, see run_history)
        fixed = c05.make_real_driver(p, "base")
        for name, lvl in list(fixed.privilege_levels.items()):
            if not list(lvl.not_contains):
                fops = [["T", [["nc_add", name, "zz-q", "append"]]], ["T", [["nc_del", name, "zz-q"]]]]
                for stack in ("sync", "async"):
                    _, ffails = run_history(c05, p, stack, fops)
                    stats["histories"] += 1
                    rep.case(("edit-local", p, stack, name))
                    for i, what, want, got in ffails[:1]:
                        stats["failures"] += 1
                        if stats["failures"] <= 4:
                            rep.violation("%s (%s): %s %s — level objects of one connection share state" % (p, stack, want, got),
                                          {"kind": "edit-history", "platform": p, "stack": stack, "ops": fops, "failing_op": i,
                                           "prompt": "", "expected": want, "observed": got, "edit": ["nc_add"]})
        states, terms, meta = [], [], []
        for ops, hk, nd in hists:
            sts = history_states(ops)
            base_ix = len(states)
            states += sts
            for k in hk:
                stats["kinds"][k] = stats["kinds"].get(k, 0) + 1
            stats["distinguishing_prompts"] += nd
            for stack in ("sync", "async"):
                obs, fails = run_history(c05, p, stack, ops)
                stats["histories"] += 1
                stats["ops"] += len(ops)
                rep.case(("edit-hist", p, stack, repr(ops)))
                for i, what, want, got in fails:
                    stats["failures"] += 1
                    if stats["failures"] > 4:
                        continue
                    op = ops[i]
                    if what == "edit-leak":
                        rep.violation("%s (%s): %s %s — level objects of one connection share state" % (p, stack, want, got),
                                      {"kind": "edit-history", "platform": p, "stack": stack, "ops": ops, "failing_op": i,
                                       "prompt": "", "expected": want, "observed": got, "edit": hk})
                        continue
                    t = bytes.fromhex(op[1]).decode("latin-1")
                    replay = {"kind": "edit-history", "platform": p, "stack": stack, "ops": ops, "failing_op": i,
                              "prompt": t, "expected": want, "observed": got, "edit": hk}
                    if what == "get_prompt":
                        rep.violation("%s (%s): after the in-place edit %s and update_privilege_levels() the prompt %r, which a current level "
                                      "pattern matches, is not returned by get_prompt: %r" % (p, stack, hk, t, got), replay)
                    elif what == "stale":
                        rep.violation("%s (%s): stale classification of %r after the in-place edit %s and update_privilege_levels(): cached %s, "
                                      "uncached classifier gives %s" % (p, stack, t, hk, got, want), replay)
                    else:
                        rep.violation("%s (%s): after the in-place edit %s of existing privilege-level objects and update_privilege_levels() the prompt "
                                      "%r is classified %s; the levels' CURRENT patterns / not_contains give %s" % (p, stack, hk, t, got, want), replay)
                # the model's view of the same history
                coq_ops, outs, k = [], [], 0
                seen_t = False
                for op, o in zip(ops, obs):
                    if op[0] == "Q":
                        coq_ops.append("Query %s" % coq_bytes(bytes.fromhex(op[1])))
                        outs.append("Some (%s)" % ("None" if not o else "Some [%s]" % "; ".join('"%s"%%string' % n for n in o)))
                        stats["queries_after_edit"] += seen_t
                    elif op[0] == "T":
                        coq_ops.append("Update tbl_st_%d" % (base_ix + k))
                        outs.append("None")
                        k += 1
                        seen_t = True
                    else:
                        stats["get_prompt"] += 1
                terms.append("(%s, %s)" % (coq_list(coq_ops), coq_list(outs)))
                meta.append((p, stack, ops))
        if not terms:
            rep.broken.append("edit histories %s: no history could be generated" % p)
            continue
        try:
            path, names, _ = gen_prompts.generate_history_tables(p, wd, states)
        except Exception as e:  # translator aborted: broken tie
            rep.broken.append("gen_prompts.generate_history_tables(%s): %s" % (p, e))
            continue
        todo.append((p, path, terms, meta))

    # the model's side: one coqc for the tables and one evaluation per platform, the platforms side by side
    def model(job):
        p, path, terms, meta = job
        rc, out, _ = coqc(path, wd)
        if rc:
            return p, "tables", out, meta
        header = ("From Coq Require Import String List.\nFrom Verif Require Import Bytes Regex RegexDeriv Prompt PromptCache.\n"
                  "From Gen Require Import Gen_Prompts_%s Gen_PromptEdits_%s Gen_PromptCache.\n"
                  "Fixpoint seqb (a b : list string) : bool := match a, b with [] , [] => true | x :: a', y :: b' => String.eqb x y && seqb a' b' | _, _ => false end.\n"
                  "Definition oeqb (a b : option (option (list string))) : bool := match a, b with None, None => true | Some None, Some None => true\n"
                  "  | Some (Some x), Some (Some y) => seqb x y | _, _ => false end.\n"
                  "Fixpoint leqb (a b : list (option (option (list string)))) : bool := match a, b with [], [] => true | x :: a', y :: b' => oeqb x y && leqb a' b' | _, _ => false end.\n"
                  "Definition chk (c : list (cop (list level)) * list (option (option (list string)))) : bool :=\n"
                  "  let '(ops, outs) := c in leqb (snd (crun classify_opt gen_cap gen_update_clears_cache (mkC tbl_base []) ops)) outs.\n" % (p, p))
        bad, log = common.eval_cases(wd, "edhist_%s" % p, header, terms, "chk", shard=40)
        return p, bad, log, meta

    import concurrent.futures as cf
    with cf.ThreadPoolExecutor(max(1, len(todo))) as ex:
        results = list(ex.map(model, todo))
    for p, bad, log, meta in results:
        if bad == "tables":
            rep.broken.append("Gen_PromptEdits_%s.v" % p)
            rep.notes.append(log[-1500:])
        elif bad is None:
            rep.broken.append("correspondence prompt-cache (in-place edits) %s (model evaluation failed)" % p)
            rep.notes.append(log[-1500:])
        elif bad:
            rep.broken.append("correspondence prompt-cache (in-place edits) %s: %d disagreements" % (p, len(bad)))
            rep.notes.append("edit history disagreement: %r" % (meta[bad[0]],))
    info_all["edit_histories"] = stats
    return True


def replay_isolation(c05, r):
    p = r["platform"]
    a = c05.make_real_driver(p, "base")
    base = levels_now(a)
    c05.real_classify(a, "r1#")
    for st in r["steps"]:
        gen_prompts.apply_step(a, st)
    b = c05.make_real_driver(p, "base")
    t = bytes.fromhex(r["prompt_hex"]).decode("latin-1")
    got, want = c05.real_classify(b, t), table_classify(base, t)
    print("connection A of %s: %s; connection B constructed afterwards classifies %r as %s, expected %s" % (p, r["steps"], t, got, want))
    print("property holds on this input" if got == want else "property FAILS on this input")
    return 0 if got == want else 1


def replay_history(c05, r):
    p, stack, ops = r["platform"], r.get("stack", "sync"), r["ops"]
    obs, fails = run_history(c05, p, stack, ops)
    for i, op in enumerate(ops):
        if op[0] == "T":
            print("  %2d  table change %s" % (i, op[1]))
        else:
            print("  %2d  %s %r -> %r" % (i, "classify" if op[0] == "Q" else "get_prompt", bytes.fromhex(op[1]).decode("latin-1"), obs[i]))
    for i, what, want, got in fails:
        if what == "edit-leak":
            print("op %d: %s %s" % (i, want, got))
            continue
        print("op %d (%s) on %r: observed %r, expected %r (current level patterns)" % (i, what, bytes.fromhex(ops[i][1]).decode("latin-1"), got, want))
    print("property FAILS on this history" if fails else "property holds on this history")
    return 1 if fails else 0


# ---------------------------------------------------------------------------------------------
# (e) prompt detection after commandeer
# ---------------------------------------------------------------------------------------------
class _Dev:
    """prints `\\n<prompt><trail>` whenever a return arrives"""

    def __init__(self):
        self.out = bytearray()
        self.closed = False
        self.text = b""

    def feed(self, b):
        if b"\n" in b:
            self.out += self.text


def _mk(kind, stack):
    from .simdevice import driver_class
    return driver_class(kind, stack)(host="h", transport="telnet" if stack == "sync" else "asynctelnet", auth_bypass=True,
                                     timeout_ops=0, timeout_transport=0)


class Commandeered:
    """`new` (kind_new) has commandeered the open connection `old` (kind_old) over a scripted transport"""

    def __init__(self, kind_new, kind_old, stack, steps_before=(), steps_after=()):
        from .simdevice import AsyncScriptedTransport, Runner, ScriptedTransport
        self.dev = _Dev()
        self.old = _mk(kind_old, stack)
        t = (ScriptedTransport if stack == "sync" else AsyncScriptedTransport)(self.dev, ("whole",), None,
                                                                              base_transport_args=self.old._base_transport_args)
        t.opened = True
        self.old.transport = t
        self.old.channel.transport = t
        self.new = _mk(kind_new, stack)
        for st in steps_before:
            gen_prompts.apply_step(self.new, st)
        self.r = Runner(stack)
        self.r.call(self.new.commandeer, self.old, execute_on_open=False)
        for st in steps_after:
            gen_prompts.apply_step(self.new, st)

    def get_prompt(self, prompt, trail):
        from .simdevice import Starved
        self.dev.text = b"\n" + prompt + trail
        try:
            return self.r.call(self.new.channel.get_prompt)
        except Starved:
            return None

    def patterns(self):
        return {"channel_in_use": self.new.channel._base_channel_args.comms_prompt_pattern[:120],
                "driver_own": self.new._base_channel_args.comms_prompt_pattern[:120]}

    def close(self):
        self.r.close()


def long_member(c05, rx, ob, rng, lo=49, tries=40):
    """a member of the grammar whose last line has at least `lo` characters"""
    _, node = rx.translate(ob["line"], 0)
    for _ in range(tries):
        s = rx.sample(node, rng)
        try:
            t = s.decode("latin-1")
        except Exception:
            continue
        if len(t.split("\n")[-1]) >= lo and len(s) <= 140 and c05.in_grammar(ob, t):
            return s
    return None


def generic_members(rx, pattern, rng, n, avoid):
    """single-line printable strings the generic driver's own pattern describes and `avoid` (another driver's pattern) does not"""
    _, node = rx.translate(pattern, re.M | re.I)
    own = re.compile(pattern.encode(), re.M | re.I)
    other = re.compile(avoid.encode(), re.M | re.I)
    out = []
    for _ in range(40 * n):
        s = rx.sample(node, rng)
        if not s or any(b < 33 or b > 126 for b in s):
            continue
        m = own.search(b"\n" + s)
        if m and m.group(0) == s and not other.search(b"\n" + s) and s not in out:
            out.append(s)
            if len(out) >= n:
                break
    return out


def commandeer_suite(c05, rep, rx, plats, rng, thorough, info_all):
    stats = {"scenarios": 0, "get_prompt": 0, "long": 0, "with_blank": 0, "after_register": 0, "after_edit": 0,
             "generic_takes_core": 0, "core_takes_core": 0, "failures": 0}
    per_mode = 2 if thorough else 1

    def check(cm, desc, s, trail, want, extra):
        gp = cm.get_prompt(s, trail)
        stats["get_prompt"] += 1
        rep.case(("commandeer", desc["new"], desc["old"], desc["stack"], repr(desc["steps_after"]), s, trail))
        if gp != want:
            stats["failures"] += 1
            if stats["failures"] <= 4:
                replay = dict(desc)
                replay.update({"kind": "commandeer", "prompt_hex": s.hex(), "trail_hex": trail.hex(), "prompt": s.decode("latin-1"),
                               "expected": want, "observed": gp, "patterns": cm.patterns()})
                replay.update(extra)
                rep.violation("%s (%s) commandeered a %s connection%s: the prompt %r (%d characters) is %s by get_prompt, expected %r" % (
                    desc["new"], desc["stack"], desc["old"], " and then %s" % desc["steps_after"] if desc["steps_after"] else "",
                    s.decode("latin-1"), len(s), "not detected" if gp is None else "returned as %r" % gp, want), replay)

    for p, plat in plats.items():
        obs = plat["info"]["obs"]
        base = [o for o in obs if o["variant"] == "base"]
        sess = [o for o in obs if o["variant"] == "session:s1"]
        others = [q for q in plats if q != p]
        for stack in ("sync", "async"):
            # core driver takes over a GenericDriver (console server) connection / another platform's connection
            olds = ["generic"] + ([rng.choice(others)] if others else [])
            for old in olds:
                desc = {"new": p, "old": old, "stack": stack, "steps_before": [], "steps_after": []}
                cm = Commandeered(p, old, stack)
                stats["scenarios"] += 1
                stats["core_takes_core"] += old != "generic"
                try:
                    for o in base:
                        picks = []
                        for _ in range(per_mode):
                            s = long_member(c05, rx, o, rng)
                            if s:
                                picks.append(s)
                                stats["long"] += 1
                        if old == "generic" or not picks:
                            s = c05.sample_member(rx, o, rng, 10)
                            if s:
                                picks.append(s)
                        for s in picks:
                            trail = b" " if o["trail"] and rng.random() < 0.5 else b""
                            stats["with_blank"] += (b" " in s) or bool(trail)
                            check(cm, desc, s, trail, s.decode("latin-1"), {"mode": o["mode"]})
                finally:
                    cm.close()
            # ... and then registers a configuration session / edits a pattern in place on the commandeering connection
            afters = []
            if sess:
                afters.append(("register", [["register", "s1"]], [o for o in sess if o["mode"] == "s1"] + [rng.choice(base)]))
            lv = levels_now(c05.make_real_driver(p, "base"))
            e = _edit("widen_all", lv, [x for x in (c05.sample_member(rx, o, rng, 10) for o in base) if x], rng)
            if e:
                afters.append(("edit", e[0] + [["update"]], e[2]))
            for what, steps, src in afters:
                desc = {"new": p, "old": "generic", "stack": stack, "steps_before": [], "steps_after": steps}
                cm = Commandeered(p, "generic", stack, steps_after=steps)
                stats["scenarios"] += 1
                try:
                    if what == "register":
                        for o in src:
                            for s in (long_member(c05, rx, o, rng), c05.sample_member(rx, o, rng, 10)):
                                if s:
                                    stats["after_register"] += 1
                                    trail = b" " if o["trail"] and rng.random() < 0.5 else b""
                                    check(cm, desc, s, trail, s.decode("latin-1"), {"mode": o["mode"]})
                    else:
                        now = levels_now(cm.new)
                        cands = [s for s in src if whole_match(now, s.decode("latin-1")) and not whole_match(lv, s.decode("latin-1"))]
                        for s in cands[:3]:
                            stats["after_edit"] += 1
                            check(cm, desc, s, b"", s.decode("latin-1"), {})
                finally:
                    cm.close()
            # the reverse: a GenericDriver takes over this platform's connection and detects what ITS pattern describes
            gen = _mk("generic", stack)
            gpat = gen._base_channel_args.comms_prompt_pattern
            mine = c05.make_real_driver(p, "base").comms_prompt_pattern
            desc = {"new": "generic", "old": p, "stack": stack, "steps_before": [], "steps_after": []}
            cm = Commandeered("generic", p, stack)
            stats["scenarios"] += 1
            try:
                for s in generic_members(rx, gpat, rng, 4 if thorough else 2, mine):
                    stats["generic_takes_core"] += 1
                    check(cm, desc, s, b"", s.decode("latin-1"), {})
            finally:
                cm.close()
    info_all["commandeer_detection"] = stats


def replay_commandeer(c05, r):
    cm = Commandeered(r["new"], r["old"], r.get("stack", "sync"), r.get("steps_before", ()), r.get("steps_after", ()))
    try:
        s, trail = bytes.fromhex(r["prompt_hex"]), bytes.fromhex(r.get("trail_hex", ""))
        gp = cm.get_prompt(s, trail)
        print("%s commandeered a %s connection (%s)%s; device prints %r" % (r["new"], r["old"], r.get("stack", "sync"),
              ", then %s" % r["steps_after"] if r.get("steps_after") else "", b"\n" + s + trail))
        print("channel pattern in use: %(channel_in_use)r\ndriver's own pattern:   %(driver_own)r" % cm.patterns())
        print("get_prompt -> %r, expected %r" % (gp, r["expected"]))
        ok = gp == r["expected"]
        print("property holds on this input" if ok else "property FAILS on this input")
        return 0 if ok else 1
    finally:
        cm.close()
