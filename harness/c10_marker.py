"""C10 — known_hosts MARKER lines (@revoked, @cert-authority), trailing comments, blank / comment lines.

sshd(8), SSH_KNOWN_HOSTS FILE FORMAT: a line may start with a marker.  `@revoked` says the key must NEVER be accepted,
`@cert-authority` says the key signs host CERTIFICATES (scrapli never asks for one) — in neither case is the line a
plain trust entry.  So with strict checking no credential may leave unless a NON-marker line naming the host carries
the presented key.  The families below put the presented key (S) on marker lines — for the target host, for other hosts,
for `*` — with plain entries (another key O, or S itself where the marker line carries O) before / after, in every
entry form (plain, comma list, |1| hash, [host]:port), with trailing comments, blank and comment lines around.

A layout is a list of line specs (the generator knows what it wrote; nothing is parsed back):
  {"who": "target" | "other" | "wild", "marker": None | "revoked" | "cert-authority", "key": <key name>, "comment": bool}
  {"raw": "<noise line>"}
model: coq/model/HostKey.v  khline / lookup_lines reader_as_written — compared with what SSHKnownHosts.lookup returns
(suite marker-lookup); the oracle (c10.spec_entry_keys) reads the TEXT independently and ignores every marker line."""

from .common import coq_bool, coq_bytes, coq_list

# kind -> lines for the TARGET host in file order: (marker, key role S = the key the server presents / O = another key,
# trailing comment), and lines for OTHER hosts / the * pattern: (who, marker, role)
KINDS = {
    "revoked_only":               ([("revoked", "S", False)], []),
    "ca_only":                    ([("cert-authority", "S", False)], []),
    "revoked_and_ca":             ([("revoked", "S", False), ("cert-authority", "S", False)], []),
    "other_then_revoked":         ([(None, "O", False), ("revoked", "S", False)], []),
    "revoked_then_other":         ([("revoked", "S", False), (None, "O", False)], []),
    "other_then_ca":              ([(None, "O", False), ("cert-authority", "S", False)], []),
    "ca_then_other":              ([("cert-authority", "S", False), (None, "O", False)], []),
    # key rotation seen from the NEW key: the new key is trusted, the old one revoked — the server must be let in
    "right_then_revoked_other":   ([(None, "S", False), ("revoked", "O", False)], []),
    "revoked_other_then_right":   ([("revoked", "O", False), (None, "S", False)], []),
    "right_and_ca_other":         ([(None, "S", False), ("cert-authority", "O", False)], []),
    # the presented key revoked / a CA under ANOTHER host or under *, nothing / another key for the target
    "revoked_elsewhere":          ([], [("other", "revoked", "S")]),
    "revoked_elsewhere_other":    ([(None, "O", False)], [("other", "revoked", "S"), ("other", "cert-authority", "S")]),
    "revoked_wildcard":           ([], [("wild", "revoked", "S")]),
    "revoked_wildcard_other":     ([(None, "O", False)], [("wild", "revoked", "S")]),
    # trailing comments (OpenSSH: allowed after the key)
    "comment_right":              ([(None, "S", True)], []),
    "comment_other":              ([(None, "O", True)], []),
    "revoked_comment":            ([("revoked", "S", True)], []),
    "other_then_revoked_comment": ([(None, "O", False), ("revoked", "S", True)], []),
    "other_comment_then_ca":      ([(None, "O", True), ("cert-authority", "S", True)], []),
}
COMMENTS = ["admin@box", "rotated 2024-01-01", "# old key", "user@host.example.net added by ansible"]


def gen_layout(rng, kind, server, others):
    """server: name of the key the server presents; others: names of the other keys"""
    tlines, olines = KINDS[kind]
    o = rng.choice(others)
    role = {"S": server, "O": o}
    lay = [{"who": "target", "marker": m, "key": role[r], "comment": c} for (m, r, c) in tlines]
    # lines of other hosts: the kind's own, plus (noise) plain / marker lines of other hosts carrying any key — a marker line
    # with S only where the kind has no plain S line for the target (a key both trusted and revoked is outside the families)
    plain_s = any(m is None and r == "S" for (m, r, _) in tlines)
    extra = [{"who": w, "marker": m, "key": role[r], "comment": False} for (w, m, r) in olines]
    for _ in range(rng.randint(0, 2)):
        m = rng.choice([None, None, "revoked", "cert-authority"])
        k = rng.choice([server] + list(others))
        if m is not None and k == server and plain_s:
            k = o
        extra.append({"who": "other", "marker": m, "key": k, "comment": rng.random() < 0.2})
    for e in extra:
        lay.insert(rng.randint(0, len(lay)), e)      # the order of the TARGET lines among themselves is kept
    for _ in range(rng.randint(1, 3)):
        x = rng.random()
        raw = "" if x < 0.35 else "# comment" if x < 0.6 else "#COMMENTED" if x < 0.8 else "   "
        lay.insert(rng.randint(0, len(lay)), {"raw": raw})
    return lay


def render(M, rng, layout, fmt, port, keys_pub, server):
    """the text of a layout; fmt: plain | comma | hashed | bracket — the form of EVERY target line"""
    def target_field():
        if fmt == "comma":
            extra = rng.sample(M.OTHER_HOSTS, rng.randint(1, 2))
            pos = rng.randint(0, len(extra))
            return ",".join(extra[:pos] + [M.HOST] + extra[pos:])
        if fmt == "hashed":
            return M.hashed_host(rng, M.HOST)
        if fmt == "bracket":
            return "[%s]:%d" % (M.HOST, port)
        return M.HOST

    out = []
    for ln in layout:
        if "raw" in ln:
            raw = ln["raw"]
            if raw == "#COMMENTED":      # a commented-out entry / marker line with the presented key: never counts
                raw = rng.choice(["# %s %s %s", "#%s %s %s", "# @revoked %s %s %s"]) % (M.HOST, keys_pub[server][0], keys_pub[server][1])
            out.append(raw)
            continue
        if ln["who"] == "target":
            field = target_field()
        elif ln["who"] == "wild":
            field = "*"
        else:
            h = rng.sample(M.OTHER_HOSTS, rng.randint(1, 2))
            field = M.hashed_host(rng, h[0]) if rng.random() < 0.25 else ",".join(h)
        kt, kb = keys_pub[ln["key"]]
        s = "%s %s %s" % (field, kt, kb)
        if ln["marker"]:
            s = "@%s %s" % (ln["marker"], s)
        if ln["comment"]:
            s += " " + rng.choice(COMMENTS)
        out.append(s)
    return "\n".join(out) + "\n"


MARK = {None: "MPlain", "revoked": "MRevoked", "cert-authority": "MCertAuthority"}


def coq_lines(layout, fmt, keys_pub):
    """the model's view of the layout: (first, list khline).  A line names the host for the lookup when it is a target line in
    a form SSHKnownHosts.lookup(host) can match (literal id, member of a comma list, |1| hash; `[host]:port` is another id)."""
    ls = []
    for ln in layout:
        if "raw" in ln:
            continue
        hit = ln["who"] == "target" and fmt != "bracket"
        ls.append("(mkL %s %s %s %s)" % (MARK[ln["marker"]], coq_bool(ln["comment"]), coq_bool(hit), coq_bytes(keys_pub[ln["key"]][1].encode())))
    return coq_bool(fmt == "hashed"), coq_list(ls)


def coq_opt(entry):
    return "None" if entry is None else "(Some %s)" % coq_bytes(entry.encode())


HEADER_MARK = """From Verif Require Import Bytes HostKey.
Definition chk (c : bool * list khline * option bytes) : bool :=
  let '(first, ls, obs) := c in opt_beq (lookup_lines reader_as_written first ls) obs.
"""


def plan_files(rng, thorough):
    """(kind, fmt) of the files of the stub suite: every kind in every form SSHKnownHosts can match, + [host]:port"""
    out = [(k, f) for k in KINDS for f in ("plain", "comma", "hashed")]
    out += [(k, "bracket") for k in (KINDS if thorough else rng.sample(sorted(KINDS), 4))]
    return out


def plan_loopback(rng, thorough):
    """(lib, kind, fmt, server key, method, strict): every kind for both real libraries"""
    out = []
    for lib in ("Paramiko", "Asyncssh"):
        for kind in KINDS:
            fmts = ("plain", "comma", "hashed", "bracket") if thorough else (rng.choice(["plain", "comma", "hashed", "hashed", "bracket"]),)
            for fmt in fmts:
                for sk in (("A", "R") if thorough else (rng.choice(["A", "A", "R"]),)):
                    out.append((lib, kind, fmt, sk, rng.choice(["password", "key", "both"]), rng.choice([None, True])))
    return out
