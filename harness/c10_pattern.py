"""C10 — known_hosts lines with WILDCARD patterns (`*`, `?`) and NEGATED patterns (`!host`, `!*.dom`) in comma lists.

sshd(8), SSH_KNOWN_HOSTS FILE FORMAT: the host field is a comma-separated list of patterns; `*` and `?` are wildcards; a
pattern preceded by `!` negates: a host that matches a negated pattern of a line is NOT matched by that line, whatever
its other patterns say (a line of negations only matches nothing).  So with strict checking no credential may leave for a
host that a line EXCLUDES, even when the line's other patterns cover it and its key is the presented one.  A host that is
covered by a wildcard line only is, generously, listed (a client that reads names literally — the pinned scrapli — then
refuses, which the property allows; one that honours wildcards opens).

A layout is a list of line specs (the generator knows what it wrote; nothing is parsed back):
  {"pos": [positive patterns], "neg": [negated patterns, with the !], "order": "shuffle" | "neg-first" | "neg-last", "key": <key name>}
  {"raw": "<noise line>"}
The oracle (c10.spec_entry_keys) reads the TEXT independently.  The Coq model takes the result of SSHKnownHosts.lookup as its
input (Section variable `lookup`): pattern matching itself is not modelled, these scenarios are oracle-only on that point
and model-compared on the ordering of open() (stubs: exact traces; loopback: projection)."""

# patterns over the target 127.0.0.1
POS = ["127.0.0.*", "127.*", "12?.0.0.1", "*.0.0.1", "127.0.0.?", "1*1", "???.?.?.?", "*.*.*.1"]
POS_STAR = POS + ["*"]                    # the bare * only where no negation is on the line (see the MANIFEST note)
NEG_HOST = ["!127.0.0.1", "!127.0.0.?", "!*.0.0.1", "!12*", "!*.1", "!127.0.0.*", "!1??.0.0.1"]     # each matches the target
NEG_ELSE = ["!127.0.0.11", "!10.*", "!*.example.net", "!128.0.0.?", "!27.0.0.1", "!127.0.0.1?"]    # none matches the target
ELSE_POS = ["10.0.0.*", "*.example.net", "r?.example.net", "127.0.0.1?", "?27.0.0.11", "127.0.1.*", "router-*"]   # none matches the target

# kind -> lines in file order: (what positive patterns, what negations, order, key role S = presented key / O = another key)
#   positive: "W" 1-2 wildcard patterns covering the target, "W*" the same incl. the bare *, "E" patterns / names of other hosts only,
#             "L" the literal name, "" nothing;  negations: "H" 1-2 that match the target, "N" 1-2 that do not, "" none
KINDS = {
    # covered by a wildcard only — generous oracle: listed; no demand beyond the ordering
    "wild_only_right":            [("W*", "", "shuffle", "S")],
    "wild_only_other":            [("W*", "", "shuffle", "O")],
    "wild_neg_elsewhere_right":   [("W", "N", "shuffle", "S")],
    "wild_neg_elsewhere_other":   [("W", "N", "shuffle", "O")],
    # EXCLUDED by a negation of the line that carries the presented key: nothing may be offered
    "neg_excluded_right":         [("W", "H", "shuffle", "S")],
    "neg_excluded_neg_first":     [("W", "H", "neg-first", "S")],
    "neg_excluded_neg_last":      [("W", "H", "neg-last", "S")],
    "neg_excluded_among_others":  [("WE", "H", "shuffle", "S")],
    "neg_excluded_mixed_negs":    [("W", "HN", "shuffle", "S")],
    "neg_only":                   [("", "H", "shuffle", "S")],
    "neg_only_elsewhere":         [("", "N", "shuffle", "S")],
    "neg_else_hosts_only":        [("E", "N", "shuffle", "S")],
    "neg_excluded_other_plain":   [("W", "H", "shuffle", "S"), ("L", "", "shuffle", "O")],
    "other_plain_neg_excluded":   [("L", "", "shuffle", "O"), ("W", "H", "shuffle", "S")],
    "neg_excluded_two_lines":     [("W", "H", "neg-first", "S"), ("W", "H", "neg-last", "S")],
    # excluded on one line, plainly listed with the presented key on another: listed (must be let in by a literal reader)
    "neg_excluded_then_right":    [("W", "H", "shuffle", "S"), ("L", "", "shuffle", "S")],
}


def gen_layout(rng, kind, server, others, host, other_hosts):
    o = rng.choice(others)
    role = {"S": server, "O": o}
    lay = []
    for (p, n, order, r) in KINDS[kind]:
        pos, neg = [], []
        if "W" in p:
            pos += rng.sample(POS_STAR if "*" in p else POS, rng.randint(1, 2))
        if "E" in p:
            pos += rng.sample(ELSE_POS + other_hosts, rng.randint(1, 2))
        if "L" in p:
            pos.append(host)
        if "H" in n:
            neg += rng.sample(NEG_HOST, rng.randint(1, 2))
        if "N" in n:
            neg += rng.sample(NEG_ELSE, rng.randint(1, 2))
        lay.append({"pos": pos, "neg": neg, "order": order, "key": role[r]})
    # noise: lines of other hosts (literal names and patterns that do NOT match the target) carrying any key incl. the presented one
    for _ in range(rng.randint(0, 3)):
        x = rng.random()
        if x < 0.25:
            lay.insert(rng.randint(0, len(lay)), {"raw": rng.choice(["", "# comment", "# %s,!%s" % (POS[0], host)])})
        else:
            e = {"pos": rng.sample(ELSE_POS + other_hosts, rng.randint(1, 2)), "neg": rng.sample(NEG_ELSE + NEG_HOST, rng.randint(0, 1)),
                 "order": "shuffle", "key": rng.choice([server, server, o])}
            lay.insert(rng.randint(0, len(lay)), e)      # the order of the kind's own lines among themselves is kept
    return lay


def render(rng, layout, keys_pub):
    out = []
    for ln in layout:
        if "raw" in ln:
            out.append(ln["raw"])
            continue
        pos, neg = list(ln["pos"]), list(ln["neg"])
        rng.shuffle(pos)
        rng.shuffle(neg)
        if ln["order"] == "neg-first":
            pats = neg + pos
        elif ln["order"] == "neg-last":
            pats = pos + neg
        else:
            pats = pos + neg
            rng.shuffle(pats)
        kt, kb = keys_pub[ln["key"]]
        out.append("%s %s %s" % (",".join(pats), kt, kb))
    return "\n".join(out) + "\n"


def plan_files(rng, thorough):
    """kinds of the stub suite: every kind (thorough: three renderings each)"""
    return [k for k in KINDS for _ in range(3 if thorough else 1)]


def plan_loopback(rng, thorough):
    """(lib, kind, server key, method, strict) against the real libraries: every kind for paramiko (whose only known_hosts reader
    is scrapli's), for asyncssh every kind in the thorough tier and a rotating half in the quick tier"""
    out = []
    kinds = list(KINDS)
    rot = rng.randrange(2)
    for lib in ("Paramiko", "Asyncssh"):
        for i, kind in enumerate(kinds):
            if lib == "Asyncssh" and not thorough and (i + rot) % 2:
                continue
            for sk in (("A", "R") if thorough else (rng.choice(["A", "A", "R"]),)):
                out.append((lib, kind, sk, rng.choice(["password", "key", "password", "both"]), rng.choice([None, True])))
    return out
