"""C06 helper — paired scenarios (operation sequences x device behaviours x chunkings x faults)
through the real sync and asyncio driver stacks over SimDevice, observed canonically so that the
two stacks can be compared WITH EACH OTHER (bytes written, results, exception class names,
device-side execution log)."""
import asyncio

from . import simdevice
from .simdevice import SimDevice, Starved, make_driver

PLATFORMS = ["cisco_iosxe", "cisco_iosxr", "cisco_nxos", "arista_eos", "juniper_junos", "generic", "network"]

EXC = {"ScrapliConnectionError": None, "ConnectionResetError": ConnectionResetError, "OSError": OSError}


def _exc(name):
    if name in (None, "ScrapliConnectionError"):
        return None
    return EXC[name]


class OnceFaultMixin:
    """adds fault {"read_exc_once_at": offset}: ONE read raises when the stream position reaches the
    offset, later reads proceed (a transient error), on top of simdevice's permanent drop."""

    def _read(self):
        once = self.fault.get("read_exc_once_at")
        if once is not None and not getattr(self, "_once_done", False) and self.delivered >= once and self.opened:
            self._once_done = True
            raise self._exc()
        return super()._read()


class ScriptedTransport(OnceFaultMixin, simdevice.ScriptedTransport):
    pass


class AsyncScriptedTransport(OnceFaultMixin, simdevice.AsyncScriptedTransport):
    pass


def build(sc, stack):
    d = sc["device"]
    kind = sc["kind"]
    plat = "cisco_iosxe" if kind == "network" else kind
    dev = SimDevice(plat, host=d.get("host", "router1"), user=d.get("user", "admin"), login_mode=d.get("login_mode"),
                    outputs={k: v.encode("latin-1") for k, v in d.get("outputs", {}).items()},
                    secret=d.get("secret"), nl=d.get("nl", "\r\n").encode(), banner=d.get("banner", ""),
                    refuse=[tuple(x) for x in d.get("refuse", [])], ignore=[tuple(x) for x in d.get("ignore", [])],
                    silent_after=d.get("silent_after"),
                    insertions={int(k): v.encode("latin-1") for k, v in d.get("insertions", {}).items()})
    fault = dict(sc.get("fault") or {})
    if "exc" in fault:
        fault["exc"] = _exc(fault["exc"])
    kw = dict(sc.get("driver_kwargs") or {})
    drv = make_driver(kind, stack, dev, tuple(sc.get("policy", ("whole",))), None, **kw)
    tcls = ScriptedTransport if stack == "sync" else AsyncScriptedTransport
    t = tcls(dev, tuple(sc.get("policy", ("whole",))), fault, base_transport_args=drv._base_transport_args)
    drv.transport = t
    drv.channel.transport = t
    motd = d.get("motd", "").encode("latin-1")
    dev.start(motd)
    return dev, drv


def canon(r):
    """canonical form of an operation result"""
    from scrapli.response import MultiResponse, Response
    if isinstance(r, MultiResponse):
        return ["multi", r.failed, [canon(x) for x in r]]
    if isinstance(r, Response):
        return ["response", r.result, r.raw_result.hex(), r.failed, r.channel_input, r.genie_platform,
                r.textfsm_platform, repr(r.failed_when_contains), r.host]
    if r is None or isinstance(r, (str, int, bool)):
        return r
    if isinstance(r, bytes):
        return r.hex()
    if isinstance(r, (tuple, list)):
        return [canon(x) for x in r]
    return type(r).__name__


def _call_args(drv, op):
    name = op[0]
    a = op[1:]
    if name == "open":
        return drv.open, [], {}
    if name == "close":
        return drv.close, [], {}
    if name == "get_prompt":
        return drv.get_prompt, [], {}
    if name == "send_command":
        return drv.send_command, [a[0]], dict(a[1]) if len(a) > 1 else {}
    if name == "send_commands":
        return drv.send_commands, [list(a[0])], dict(a[1]) if len(a) > 1 else {}
    if name == "send_config":
        return drv.send_config, [a[0]], dict(a[1]) if len(a) > 1 else {}
    if name == "send_configs":
        return drv.send_configs, [list(a[0])], dict(a[1]) if len(a) > 1 else {}
    if name == "send_interactive":
        return drv.send_interactive, [[tuple(x) for x in a[0]]], dict(a[1]) if len(a) > 1 else {}
    if name == "send_and_read":
        return drv.send_and_read, [a[0]], dict(a[1]) if len(a) > 1 else {}
    if name == "acquire_priv":
        return drv.acquire_priv, [a[0]], {}
    if name == "register_configuration_session":
        return drv.register_configuration_session, [a[0]], {}
    if name == "channel_send_input":
        return drv.channel.send_input, [a[0]], dict(a[1]) if len(a) > 1 else {}
    if name == "channel_send_inputs_interact":
        return drv.channel.send_inputs_interact, [[tuple(x) for x in a[0]]], {}
    raise ValueError("unknown op %r" % (name,))


def _has(drv, op):
    n = op[0]
    if n.startswith("channel_"):
        return True
    return hasattr(drv, n)


def _finish(dev, drv, obs):
    t = drv.transport
    return {
        "ops": obs,
        "writes": [w.hex() for w in t.writes],
        "sent": b"".join(t.writes).hex(),
        "device_log": [[m, l.hex(), o.hex()] for (m, l, o) in dev.log],
        "hidden": [h.hex() for h in dev.hidden_lines],
        "reads": b"".join(t.reads).hex(),
        "priv": getattr(getattr(drv, "_current_priv_level", None), "name", None),
        "device_mode": dev.mode,
        "alive": bool(drv.isalive()),
    }


def run_sync(sc):
    dev, drv = build(sc, "sync")
    obs = []
    for op in sc["ops"]:
        if not _has(drv, op):
            obs.append(["skip", op[0]])
            continue
        fn, a, kw = _call_args(drv, op)
        try:
            obs.append(["ok", canon(fn(*a, **kw))])
        except Starved:
            obs.append(["exc", "Starved"])
            break
        except Exception as e:  # noqa
            obs.append(["exc", type(e).__name__])
    return _finish(dev, drv, obs)


async def _run_async(sc):
    dev, drv = build(sc, "async")
    obs = []
    for op in sc["ops"]:
        if not _has(drv, op):
            obs.append(["skip", op[0]])
            continue
        fn, a, kw = _call_args(drv, op)
        try:
            r = fn(*a, **kw)
            if asyncio.iscoroutine(r):
                r = await r
            obs.append(["ok", canon(r)])
        except Starved:
            obs.append(["exc", "Starved"])
            break
        except Exception as e:  # noqa
            obs.append(["exc", type(e).__name__])
    return _finish(dev, drv, obs)


def run_async_batch(scs):
    async def go():
        return await asyncio.gather(*(asyncio.ensure_future(_run_async(sc)) for sc in scs))
    loop = asyncio.new_event_loop()
    try:
        return loop.run_until_complete(go())
    finally:
        loop.close()


def diff_obs(a, b):
    """names of the observation fields that differ"""
    out = []
    for k in sorted(a):
        if a[k] != b.get(k):
            out.append(k)
    return out


# ------------------------------------------------------------------------------------------------
# generators
# ------------------------------------------------------------------------------------------------
SHOW = ["show version", "show ip interface brief", "show run | i hostname", "show clock", "SHOW Users", "ping 10.0.0.1"]
CONF = ["interface Loopback0", "description x y z", "no shutdown", "ip address 10.0.0.1 255.255.255.255", "hostname r9"]
INVALID = {"cisco_iosxe": "% Invalid input detected at '^' marker.", "cisco_iosxr": "% Invalid input detected at '^' marker.",
           "cisco_nxos": "% Invalid command at '^' marker.", "arista_eos": "% Invalid input", "juniper_junos": "unknown command.",
           "generic": "unknown command", "network": "% Invalid input detected at '^' marker."}
OUTPUTS = ["", "line one", "Cisco IOS XE Software, Version 17.3.4\nuptime is 1 week", "a\n\nb\n", "x" * 300,
           "col1   col2\n----   ----\n1      2", "tab\there", "caf\xe9"]
CONF_LEVEL = {"cisco_iosxe": "configuration", "cisco_iosxr": "configuration", "cisco_nxos": "configuration",
              "arista_eos": "configuration", "juniper_junos": "configuration", "network": "configuration"}
PRIVS = {"cisco_iosxe": ["exec", "privilege_exec", "configuration", "tclsh"],
         "network": ["exec", "privilege_exec", "configuration", "tclsh"],
         "cisco_iosxr": ["privilege_exec", "configuration", "configuration_exclusive"],
         "cisco_nxos": ["exec", "privilege_exec", "configuration", "tclsh"],
         "arista_eos": ["exec", "privilege_exec", "configuration"],
         "juniper_junos": ["exec", "configuration", "configuration_exclusive", "configuration_private", "shell"],
         "generic": []}
ENABLE = {"cisco_iosxe", "cisco_nxos", "arista_eos", "network"}


def gen_policy(rng):
    k = rng.choice(["whole", "whole", "bytes", "bytes", "random", "random"])
    if k == "whole":
        return ["whole"]
    if k == "bytes":
        return ["bytes", rng.choice([1, 1, 2, 3, 5, 8, 64])]
    return ["random", rng.randint(0, 10 ** 6), rng.choice([3, 7, 20])]


def gen_op(rng, kind, outputs):
    cmds = list(outputs) or SHOW
    net = kind != "generic"
    r = rng.random()
    if r < 0.25:
        kw = {}
        if rng.random() < 0.3:
            kw["strip_prompt"] = False
        if rng.random() < 0.2:
            kw["failed_when_contains"] = rng.choice([["line"], "uptime", ["zzz", "%"]])
        if rng.random() < 0.1:
            kw["eager_input"] = True
        return ["send_command", rng.choice(cmds), kw]
    if r < 0.4:
        n = rng.choice([1, 2, 3])
        kw = {"stop_on_failed": True} if rng.random() < 0.4 else {}
        if rng.random() < 0.2:
            kw["eager_input"] = True
        if rng.random() < 0.2:
            kw["strip_prompt"] = False
        return ["send_commands", [rng.choice(cmds + ["bogus line"]) for _ in range(n)], kw]
    if r < 0.45:
        return ["get_prompt"]
    if r < 0.5:
        return ["send_and_read", rng.choice(cmds), {"read_duration": 120, "expected_outputs": [rng.choice(["one", "zz", "Version"])]}]
    if not net:
        if r < 0.7:
            return ["send_interactive", [[rng.choice(cmds), "#", False]]]
        if r < 0.85:
            return ["channel_send_input", rng.choice(cmds), {"strip_prompt": rng.random() < 0.5}]
        return ["send_command", rng.choice(cmds), {}]
    if r < 0.65:
        n = rng.choice([1, 2, 3])
        kw = {}
        if rng.random() < 0.4:
            kw["stop_on_failed"] = True
        if kind in ("cisco_iosxr", "juniper_junos") and rng.random() < 0.3:
            kw["privilege_level"] = "configuration_exclusive"
        return ["send_configs", [rng.choice(CONF + ["bogus line"]) for _ in range(n)], kw]
    if r < 0.72:
        return ["send_config", "\n".join(rng.choice(CONF) for _ in range(rng.choice([1, 2]))), {}]
    if r < 0.85:
        return ["acquire_priv", rng.choice(PRIVS[kind])]
    if r < 0.9 and kind in ("arista_eos", "cisco_nxos"):
        return ["register_configuration_session", rng.choice(["s1", "mysess", "abcdefgh"])]
    if r < 0.95:
        return ["send_interactive", [[rng.choice(cmds), "#", False]], {}]
    return ["close"]


def gen_scenario(rng, kind=None, faulty=None):
    kind = kind or rng.choice(PLATFORMS)
    plat = "cisco_iosxe" if kind == "network" else kind
    outputs = {}
    for c in rng.sample(SHOW, rng.randint(1, 4)):
        o = rng.choice(OUTPUTS)
        if rng.random() < 0.15:
            o = INVALID[kind]
        outputs[c] = o
    dev = {"host": rng.choice(["router1", "r1", "core-sw.lab", "R_2"]), "outputs": outputs,
           "nl": rng.choice(["\r\n", "\r\n", "\n"])}
    if "bogus line" not in outputs:
        outputs["bogus line"] = INVALID[kind]
    kw = {}
    if kind in ENABLE:
        dev["login_mode"] = rng.choice(["exec", "privilege_exec", "privilege_exec"])
        if rng.random() < 0.5:
            dev["secret"] = "s3cr3t"
            kw["auth_secondary"] = "s3cr3t" if rng.random() < 0.8 else "wrong"
    if kind == "juniper_junos" and rng.random() < 0.3:
        dev["banner"] = "{master}"
    sc = {"kind": kind, "device": dev, "driver_kwargs": kw, "policy": gen_policy(rng), "fault": None}
    ops = [["open"]]
    for _ in range(rng.choice([1, 2, 3, 4, 6])):
        ops.append(gen_op(rng, kind, outputs))
    if rng.random() < 0.5:
        ops.append(["close"])
    sc["ops"] = ops
    faulty = rng.random() < 0.35 if faulty is None else faulty
    if faulty:
        f = rng.choice(["drop", "drop", "write", "silent", "once", "refuse", "ignore"])
        off = rng.choice([0, 1, 5, 20, 60, 120, 250, 400, 800])
        if f == "drop":
            sc["fault"] = {"drop_at": off, "exc": rng.choice(["ScrapliConnectionError", "ConnectionResetError", "OSError"])}
        elif f == "write":
            sc["fault"] = {"write_exc_at": rng.choice([1, 2, 3, 5, 8, 13, 21]),
                           "exc": rng.choice(["ScrapliConnectionError", "OSError"])}
        elif f == "silent":
            dev["silent_after"] = off
        elif f == "once":
            sc["fault"] = {"read_exc_once_at": off, "exc": "ScrapliConnectionError"}
        elif f in ("refuse", "ignore") and plat != "generic":
            t = simdevice.PLATFORMS[plat]()["trans"]
            pairs = [[m, l] for m in t for l in t[m]]
            if pairs:
                dev[f] = [rng.choice(pairs)]
    return sc


def corpus():
    """fixed boundary scenarios that always run first"""
    out = []
    for kind in PLATFORMS:
        out.append({"kind": kind, "device": {"outputs": {"show version": "v1\nv2"}}, "driver_kwargs": {}, "policy": ["whole"],
                    "fault": None, "ops": [["open"], ["send_command", "show version", {}], ["get_prompt"], ["close"]]})
        out.append({"kind": kind, "device": {"outputs": {"show version": "v1\nv2"}}, "driver_kwargs": {}, "policy": ["bytes", 1],
                    "fault": None, "ops": [["open"], ["send_commands", ["show version", "show version"], {}]]})
    out.append({"kind": "cisco_iosxe", "device": {"login_mode": "exec", "secret": "s3c", "outputs": {}},
                "driver_kwargs": {"auth_secondary": "s3c"}, "policy": ["bytes", 3], "fault": None,
                "ops": [["open"], ["send_configs", ["interface Loopback0", "no shutdown"], {}], ["acquire_priv", "exec"]]})
    out.append({"kind": "cisco_iosxe", "device": {"login_mode": "exec", "secret": "s3c", "outputs": {}},
                "driver_kwargs": {"auth_secondary": "bad"}, "policy": ["whole"], "fault": None, "ops": [["open"]]})
    out.append({"kind": "juniper_junos", "device": {"outputs": {"show version": "Junos: 21.1"}, "banner": "{master}"},
                "driver_kwargs": {}, "policy": ["random", 7, 7], "fault": None,
                "ops": [["open"], ["send_command", "show version", {}], ["send_configs", ["set system host-name x", "bogus line"],
                                                                       {"stop_on_failed": True}]]})
    out.append({"kind": "arista_eos", "device": {"outputs": {}}, "driver_kwargs": {}, "policy": ["whole"], "fault": None,
                "ops": [["open"], ["register_configuration_session", "mysess"],
                        ["send_configs", ["interface Loopback0"], {"privilege_level": "mysess"}]]})
    out.append({"kind": "generic", "device": {"outputs": {"show clock": "12:00"}}, "driver_kwargs": {}, "policy": ["bytes", 2],
                "fault": {"read_exc_once_at": 30, "exc": "ScrapliConnectionError"},
                "ops": [["open"], ["send_command", "show clock", {}], ["send_command", "show clock", {}]]})
    return out
