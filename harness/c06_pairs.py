"""C06 helper — paired scenarios (operation sequences x device behaviours x chunkings x faults)
through the real sync and asyncio driver stacks over SimDevice, observed canonically so that the
two stacks can be compared WITH EACH OTHER (bytes written, results, exception class names,
device-side execution log, the timeout_ops the calls leave behind).  Device lines may be slow
(latency in scripted time, see VClock / VirtualLoop): the real timeout decorators of both stacks
decide whether a call times out.  A silent device is a scripted wait too (HORIZON): an armed
timeout_ops ends it through the real decorators, which is what the error-path family
(gen_error_scenario) relies on; failed operations are observed as exception type + message class +
explicit cause chain (error_class), next to the bytes written and the state afterwards.
Round 7: streaming answers x expected_outputs classes for send_and_read / send_input_and_read (gen_and_read_scenario),
escape sequences x cuts inside them (EscChunker, gen_ansi_scenario), and two-object histories with an in-place edit of a
default privilege level, judged against the isolation expectation as well (_run_sync_one, _isolation)."""
import asyncio
import atexit
import contextlib
import hashlib
import os
import shutil
import signal as _signal
import tempfile

from . import simdevice
from .simdevice import SimDevice, Starved, make_driver

PLATFORMS = ["cisco_iosxe", "cisco_iosxr", "cisco_nxos", "arista_eos", "juniper_junos", "generic", "network"]

EXC = {"ScrapliConnectionError": None, "ConnectionResetError": ConnectionResetError, "OSError": OSError}


def _exc(name):
    if name in (None, "ScrapliConnectionError"):
        return None
    return EXC[name]


class OnceFaultMixin:
    """adds fault {"read_exc_once_at": offset}: ONE read raises when the stream position reaches the
    offset, later reads proceed (a transient error), on top of simdevice's permanent drop."""

    def _read(self):
        once = self.fault.get("read_exc_once_at")
        if once is not None and not getattr(self, "_once_done", False) and self.delivered >= once and self.opened:
            self._once_done = True
            raise self._exc()
        return super()._read()


# ------------------------------------------------------------------------------------------------
# scripted time.  A device line may have a LATENCY (seconds the device thinks before it prints the answer,
# device["latency"] = {line: seconds}); the operation timeouts of the real code (decorators.timeout_wrapper with the
# timeout_ops that decorators.timeout_modifier put in effect) then decide whether a call times out.  Neither stack
# sleeps for real:
#   * asyncio: the batch runs on VirtualLoop, an ordinary selector event loop whose clock is a number that jumps to the
#     next scheduled timer whenever the loop would otherwise block; the transport waits with `await asyncio.sleep(L)`,
#     the real `asyncio.wait_for` of the decorator expires (or not) against it;
#   * sync: the decorator's timer primitives (module attributes `signal` and `time` of scrapli.decorators) are replaced
#     for the duration of a run by VSignal / VTime over the same kind of clock: the transport's blocking read advances
#     the clock by L, and if the armed ITIMER_REAL falls due on the way the registered handler is called at that point
#     of the read — where a real SIGALRM handler would run.
# Ties (a deadline exactly equal to the moment the answer arrives) are kept out of the generators: latencies are
# multiples of 0.25 s, timeouts are never.
# ------------------------------------------------------------------------------------------------
class VClock:
    def __init__(self):
        self.reset()

    def reset(self):
        self.now = 0.0
        self.deadline = None
        self.interval = 0.0
        self.handler = _signal.SIG_DFL
        self.fired = 0

    def advance(self, dt):
        target = self.now + dt
        while self.deadline is not None and self.deadline <= target:
            self.now = max(self.now, self.deadline)
            self.deadline = (self.now + self.interval) if self.interval else None
            self.fired += 1
            if callable(self.handler):
                self.handler(_signal.SIGALRM, None)        # scrapli's handler raises ScrapliTimeout
        self.now = target


VCLOCK = VClock()


class VSignal:
    """stands in for the `signal` module inside scrapli.decorators"""

    def __getattr__(self, name):
        return getattr(_signal, name)

    @staticmethod
    def signal(signum, handler):
        if signum != _signal.SIGALRM:
            raise ValueError("scripted signal module: only SIGALRM is expected, got %r" % (signum,))
        old, VCLOCK.handler = VCLOCK.handler, handler
        return old

    @staticmethod
    def setitimer(which, seconds, interval=0.0):
        if which != _signal.ITIMER_REAL:
            raise ValueError("scripted signal module: only ITIMER_REAL is expected, got %r" % (which,))
        old = (max(VCLOCK.deadline - VCLOCK.now, 1e-9) if VCLOCK.deadline is not None else 0.0, VCLOCK.interval)
        VCLOCK.deadline = (VCLOCK.now + seconds) if seconds else None
        VCLOCK.interval = interval if seconds else 0.0
        return old


class VTime:
    """stands in for the `time` module inside scrapli.decorators"""

    def __getattr__(self, name):
        import time
        return getattr(time, name)

    @staticmethod
    def monotonic():
        return VCLOCK.now


@contextlib.contextmanager
def scripted_timers():
    import threading

    import scrapli.decorators as dec
    if threading.current_thread() is not threading.main_thread():
        raise RuntimeError("the paired scenarios must run in the main thread (the sync timeout decorator uses SIGALRM there)")
    saved = (dec.signal, dec.time)
    VCLOCK.reset()
    dec.signal, dec.time = VSignal(), VTime()
    try:
        yield
    finally:
        dec.signal, dec.time = saved
        VCLOCK.reset()


class _VSelector:
    """selector of VirtualLoop: never blocks; when nothing is ready the loop's clock jumps to the next timer"""

    def __init__(self, inner, loop):
        self._inner, self._loop = inner, loop

    def __getattr__(self, name):
        return getattr(self._inner, name)

    def select(self, timeout=None):
        ev = self._inner.select(0)
        if ev or timeout == 0:
            return ev
        if timeout is None:
            raise RuntimeError("virtual event loop: every task waits and no timer is scheduled (would block for ever)")
        sched = self._loop._scheduled
        new = self._loop._vt + timeout
        if sched and abs(sched[0]._when - new) < 1e-6:
            new = max(new, sched[0]._when)
        self._loop._vt = new
        return ev


class VirtualLoop(asyncio.SelectorEventLoop):
    def __init__(self):
        super().__init__()
        self._vt = 0.0
        self._selector = _VSelector(self._selector, self)

    def time(self):
        return self._vt


class LatencyMixin:
    """serves the device's answers no earlier than the device's latency marks allow (DialogDevice.delays)"""

    def _due(self):
        """the unpaid latency mark the next byte to read lies behind, or None"""
        if not self.opened:
            return None
        for m in self.device.delays:
            if not m[2] and m[0] <= self.delivered:
                return m
        return None

    def _read(self):
        nxt = None
        for m in getattr(self.device, "delays", ()):
            if not m[2] and m[0] > self.delivered:
                nxt = m[0]
                break
        if nxt is None or nxt >= len(self.device.out):
            return super()._read()
        out = self.device.out
        self.device.out = out[:nxt]            # nothing behind an unpaid mark is readable yet
        try:
            return super()._read()
        finally:
            self.device.out = out


# A device that has nothing more to say is SILENT, it does not end the world: the client's read blocks, and if an operation
# timeout is armed (timeout_ops in effect != 0) it is the timeout that ends the read.  Both scripted transports therefore wait
# HORIZON scripted seconds on a read with nothing pending before they give up with Starved ("blocks for ever"): the sync one
# advances VCLOCK (an armed SIGALRM timer falls due on the way and its handler raises from inside the read), the asyncio one
# sleeps on the VirtualLoop (the decorator's wait_for cancels it).  HORIZON is far beyond every timeout of the generators.
HORIZON = 1.0e6


# ------------------------------------------------------------------------------------------------
# chunking policy ["esccut", k, after]: the transport cuts every escape sequence of the device's stream k bytes behind its
# ESC (k = -1: in front of its final byte; a k beyond the sequence is clipped to that), and the read that follows carries
#   after = "rest"  : exactly the rest of the cut sequence (no ESC in that chunk),
#           "plain" : the rest and the text behind it up to (not including) the next ESC (no ESC in that chunk either),
#           "all"   : everything the device has printed so far (further escape sequences included).
# Text without an ESC is delivered whole.  Where a sequence ends is decided here by the ECMA-48 grammar (CSI: parameter
# bytes 0x30-0x3f, intermediate bytes 0x20-0x2f, one final byte; OSC: up to BEL or ST; anything else: ESC + one byte),
# independently of scrapli's patterns.
# ------------------------------------------------------------------------------------------------
def esc_seq_len(data, i):
    n = len(data)
    if i + 1 >= n:
        return 1
    c = data[i + 1]
    if c == 0x5b:
        j = i + 2
        while j < n and 0x30 <= data[j] <= 0x3f:
            j += 1
        while j < n and 0x20 <= data[j] <= 0x2f:
            j += 1
        return min(j + 1, n) - i
    if c == 0x5d:
        j = i + 2
        while j < n and data[j] != 7 and not (data[j] == 0x1b and j + 1 < n and data[j + 1] == 0x5c):
            j += 1
        if j < n and data[j] == 0x1b:
            j += 1
        return min(j + 1, n) - i
    return 2


class EscChunker:
    def __init__(self, device, policy):
        self.device = device
        self.policy = tuple(policy)
        self.k = int(policy[1])
        self.after = policy[2] if len(policy) > 2 else "rest"
        self.mid = 0                      # bytes of a cut sequence that are still to be delivered
        self.cuts = []                    # (sequence, position of the cut) for the coverage record

    def take(self, delivered, pending):
        data = bytes(self.device.out[delivered:delivered + pending])
        if self.mid:
            rest, self.mid = min(self.mid, len(data)), 0
            if self.after == "rest":
                return rest
            if self.after == "plain":
                j = data.find(b"\x1b", rest)
                return len(data) if j < 0 else max(j, 1)
            return len(data)
        i = data.find(b"\x1b")
        if i < 0:
            return len(data)
        n = esc_seq_len(data, i)
        if n < 2:
            return i + n
        k = self.k if 0 < self.k < n else n - 1
        self.mid = n - k
        self.cuts.append((data[i:i + n], k))
        return i + k


class EscCutMixin:
    def _init(self, device, policy, fault=None):
        super()._init(device, policy, fault)
        if tuple(policy)[:1] == ("esccut",):
            self.chunker = EscChunker(device, policy)


OPEN_EXC = ("ScrapliAuthenticationFailed", "ScrapliConnectionNotOpened", "ScrapliConnectionError", "ScrapliTimeout", "OSError",
            "ConnectionRefusedError")


class OpenFaultMixin:
    """fault {"open_exc": exception class name, "open_fails": k}: the first k (default: all) open() calls of the transport fail with
    that exception — what a real transport does when the device refuses the credentials (ScrapliAuthenticationFailed from the ssh
    transports), refuses / never answers the connection (ScrapliConnectionNotOpened, OSError, ScrapliTimeout)"""

    def _open_fault(self):
        name = self.fault.get("open_exc")
        if not name:
            return
        self._nopen = getattr(self, "_nopen", 0) + 1
        k = self.fault.get("open_fails")
        if k is not None and self._nopen > k:
            return
        import builtins

        import scrapli.exceptions as X
        if name not in OPEN_EXC:
            raise ValueError("unknown open_exc %r" % (name,))
        raise (getattr(X, name, None) or getattr(builtins, name))("open fault %s" % name)


class ScriptedTransport(EscCutMixin, LatencyMixin, OnceFaultMixin, OpenFaultMixin, simdevice.ScriptedTransport):
    def open(self):
        self._open_fault()
        super().open()

    def read(self):
        m = self._due()
        while m is not None:
            VCLOCK.advance(m[1])               # a due timer's handler raises from here, like a signal in a blocking read
            m[2] = True
            m = self._due()
        try:
            return self._read()
        except Starved:
            VCLOCK.advance(HORIZON)            # silence: an armed operation timeout expires here
            raise


class AsyncScriptedTransport(EscCutMixin, LatencyMixin, OnceFaultMixin, OpenFaultMixin, simdevice.AsyncScriptedTransport):
    async def open(self):
        self._open_fault()
        await super().open()

    async def read(self):
        m = self._due()
        while m is not None:
            await asyncio.sleep(m[1])          # virtual seconds (VirtualLoop); cancelled by the decorator's wait_for
            m[2] = True
            m = self._due()
        try:
            return self._read()
        except Starved:
            await asyncio.sleep(HORIZON)       # silence: an armed operation timeout (wait_for) expires here
            raise


class DialogDevice(SimDevice):
    """SimDevice + interactive dialogues.  dialogs = {line: {"steps": [step, ...], "out": text, "abort_out": text}},
    step = {"q": question text (printed without a newline after it, the answer is typed right behind it),
            "info": text printed on its own line before the question, "hidden": the answer is not echoed,
            "ask": False -> this software version does not ask this question, "accept": answers that continue (None: any)}.
    After the last asked question (or at once when none is asked) the device prints `out` and its prompt again;
    a refused answer prints `abort_out` and the prompt.  Whatever is typed after that is an ordinary line.
    Written from the vendors' CLI behaviour (clear counters / reload / copy ... dialogues), independent of scrapli."""

    def __init__(self, *a, dialogs=None, latency=None, auth_attempts=None, auth_hang=None, mute=(), login=None, **kw):
        super().__init__(*a, **kw)
        # in-band login (round 9, the with-block family): login = {"password": the right one, "hang": "user" | "password" | None}.
        # The device asks "login: " / "Password: " (no echo) before it prints its first prompt; a wrong password is answered with
        # "Login incorrect" and a new "login: " for as long as the client goes on; with "hang" it prints nothing more after
        # the user name / the password was typed (its AAA server does not answer).
        self.login = dict(login) if login else None
        self.login_stage = None           # "user" | "password" | None (logged in / no login)
        # error-path behaviours (the "errors" family): a password dialogue that gives up after 1 / 2 / 3 (default) wrong
        # attempts, or that hangs (prints nothing more, e.g. its AAA server does not answer) after a wrong / after any
        # password; lines after which the device goes silent for good (mode "*": in any mode)
        self.auth_attempts = auth_attempts
        self.auth_hang = auth_hang
        self.mute = {tuple(x) for x in mute}
        self.dialogs = dialogs or {}
        self.latency = latency or {}      # line -> seconds the device needs before it prints the answer to that line
        self.delays = []                  # [offset in self.out, seconds, paid]: set when such a line is entered
        self.dlg = None                   # (spec, index of the question being asked)
        self.dialog_trace = []            # what the dialogue engine did, for the observation

    def _dlg_end(self, text):
        self.dlg = None
        self.dialog = None
        self.dialog_trace.append("end")
        body = text.encode("latin-1").replace(b"\n", self.nl)
        self._emit(self.nl + (body + self.nl if body else b"") + self.prompt())

    def _dlg_next(self, spec, i):
        steps = spec.get("steps", [])
        while i < len(steps) and not steps[i].get("ask", True):
            self.dialog_trace.append("skip%d" % i)
            i += 1
        if i >= len(steps):
            self._dlg_end(spec.get("out", ""))
            return
        st = steps[i]
        self.dlg = (spec, i)
        self.dialog = ("dialogue", 0) if st.get("hidden") else None      # not None: no echo (see SimDevice.feed)
        self.dialog_trace.append("ask%d" % i)
        info = st.get("info", "").encode("latin-1")
        self._emit(self.nl + (info + self.nl if info else b"") + st["q"].encode("latin-1"))

    def start(self, motd=b""):
        if not self.login:
            return super().start(motd)
        self.login_stage = "user"
        self._emit(motd + b"login: ")

    def _login_return(self):
        raw = bytes(self.line)
        self.line = bytearray()
        self.hidden_lines.append(raw)
        hang = self.login.get("hang")
        if hang == self.login_stage:
            self.silent_after = min(len(self.plain), self.silent_after if self.silent_after is not None else len(self.plain))
            return
        if self.login_stage == "user":
            self.login_user = raw
            self.login_stage, self.dialog = "password", ("login", 0)       # not None: no echo
            self._emit(self.nl + b"Password: ")
            return
        self.dialog = None
        if raw.decode("latin-1") == self.login.get("password") and self.login_user.decode("latin-1") == self.user:
            self.login_stage = None
            self._emit(self.nl + self.prompt())
        else:
            self.login_stage = "user"
            self._emit(self.nl + b"Login incorrect" + self.nl + self.nl + b"login: ")

    def _return(self):
        if self.login_stage is not None:
            return self._login_return()
        if self.dlg is None:
            line = bytes(self.line).decode("latin-1").strip()
            if self.dialog is None and self.latency.get(line):
                self.delays.append([len(self.out), float(self.latency[line]), False])
            if self.dialog is None and self.mute and ((self.mode, line) in self.mute or ("*", line) in self.mute):
                self.silent_after = min(len(self.plain), self.silent_after if self.silent_after is not None else len(self.plain))
            spec = self.dialogs.get(line)
            if spec is None or self.dialog is not None or line in self._table():
                asking = self.dialog
                if asking is not None and self.auth_hang and (
                        self.auth_hang == "always" or bytes(self.line).decode("latin-1") != self.secret):
                    self.hidden_lines.append(bytes(self.line))      # the password is taken, nothing is ever printed again
                    self.line = bytearray()
                    self.silent_after = min(len(self.plain), self.silent_after if self.silent_after is not None else len(self.plain))
                    return
                super()._return()
                if asking is None and self.dialog is not None and self.auth_attempts:
                    self.dialog = (self.dialog[0], 4 - max(1, min(3, int(self.auth_attempts))))      # SimDevice gives up at 3
                return
            raw = bytes(self.line)
            self.line = bytearray()
            self.log.append((self.mode, raw, b""))
            self.dialog_trace.append("start")
            self._dlg_next(spec, 0)
            return
        spec, i = self.dlg
        st = spec["steps"][i]
        raw = bytes(self.line)
        self.line = bytearray()
        if st.get("hidden"):
            self.hidden_lines.append(raw)
        else:
            self.log.append((self.mode + "?%d" % i, raw, b""))
        acc = st.get("accept")
        if acc is not None and raw.decode("latin-1").strip() not in acc:
            self.dialog_trace.append("refused%d" % i)
            self._dlg_end(spec.get("abort_out", "% aborted"))
            return
        self._dlg_next(spec, i + 1)


def build(sc, stack):
    d = sc["device"]
    kind = sc["kind"]
    plat = "cisco_iosxe" if kind == "network" else kind
    dev = DialogDevice(plat, dialogs=d.get("dialogs"), latency=d.get("latency"), auth_attempts=d.get("auth_attempts"),
                       auth_hang=d.get("auth_hang"), mute=d.get("mute", ()), login=d.get("login"), host=d.get("host", "router1"), user=d.get("user", "admin"), login_mode=d.get("login_mode"),
                    outputs={k: v.encode("latin-1") for k, v in d.get("outputs", {}).items()},
                    secret=d.get("secret"), nl=d.get("nl", "\r\n").encode(), banner=d.get("banner", ""),
                    refuse=[tuple(x) for x in d.get("refuse", [])], ignore=[tuple(x) for x in d.get("ignore", [])],
                    silent_after=d.get("silent_after"),
                    insertions={int(k): v.encode("latin-1") for k, v in d.get("insertions", {}).items()})
    fault = dict(sc.get("fault") or {})
    if "exc" in fault:
        fault["exc"] = _exc(fault["exc"])
    kw = dict(sc.get("driver_kwargs") or {})
    for h in ("on_open", "on_close"):
        if h in kw:                       # named hook of HOOKS (scenarios are JSON)
            kw[h] = hook(kw[h], stack)
    drv = make_driver(kind, stack, dev, tuple(sc.get("policy", ("whole",))), None, **kw)
    tcls = ScriptedTransport if stack == "sync" else AsyncScriptedTransport
    t = tcls(dev, tuple(sc.get("policy", ("whole",))), fault, base_transport_args=drv._base_transport_args)
    drv.transport = t
    drv.channel.transport = t
    motd = d.get("motd", "").encode("latin-1")
    dev.start(motd)
    return dev, drv


class HookFailed(Exception):
    """what a user's own on_open / on_close raises in the scenarios"""


def _hook_steps(name):
    """a named user hook as a list of steps (method name, args, kwargs) | ("raise", exception class)"""
    from scrapli.exceptions import ScrapliCommandFailure
    return {
        "raise_value": [("raise", ValueError)],
        "raise_own": [("raise", HookFailed)],
        "raise_scrapli": [("raise", ScrapliCommandFailure)],
        "bad_priv": [("acquire_priv", ["no_such_level"], {})],
        "cmd": [("send_command", ["terminal length 0"], {})],
        "cmd_then_raise": [("send_command", ["terminal length 0"], {}), ("raise", HookFailed)],
        "configs": [("send_configs", [["no shutdown"]], {})],
        "escalate": [("acquire_priv", ["configuration"], {})],
        "prompt": [("get_prompt", [], {})],
    }[name]


HOOK_NAMES = {"generic": ["raise_value", "raise_own", "raise_scrapli", "cmd", "cmd_then_raise", "prompt"],
              "network": ["raise_value", "raise_own", "raise_scrapli", "bad_priv", "cmd", "cmd_then_raise", "configs", "escalate", "prompt"]}


def hook(name, stack):
    """the sync function / the coroutine function a scenario's on_open / on_close name stands for ("none": no hook)"""
    if name in (None, "none"):
        return None
    steps = _hook_steps(name)
    if stack == "sync":
        def fn(conn):
            for st in steps:
                if st[0] == "raise":
                    raise st[1]("hook %s" % name)
                getattr(conn, st[0])(*st[1], **st[2])
        return fn

    async def afn(conn):
        for st in steps:
            if st[0] == "raise":
                raise st[1]("hook %s" % name)
            await getattr(conn, st[0])(*st[1], **st[2])
    return afn


def error_class(e):
    """outcome class of a failed operation beyond its type name: the class of its message (quoted names, numbers and the
    twins' naming difference removed; the two stacks are compared with each other, never with a literal) and the types
    of the exceptions it was explicitly raised from"""
    import re
    m = re.sub(r"'[^']*'|\"[^\"]*\"", "'_'", str(e))
    m = re.sub(r"0x[0-9a-fA-F]+|\d+(\.\d+)?", "#", m)
    m = re.sub(r"(?i)async_?", "", m)
    m = " ".join(m.lower().split())[:100]
    chain, c = [], e.__cause__          # explicit `raise ... from` only: the implicit context of a timeout legitimately differs
    while c is not None and len(chain) < 6:      # (asyncio.TimeoutError / CancelledError vs a signal handler's frame)
        chain.append(type(c).__name__)
        c = c.__cause__
    return [type(e).__name__, m, chain]


def canon(r):
    """canonical form of an operation result"""
    from scrapli.response import MultiResponse, Response
    if isinstance(r, MultiResponse):
        return ["multi", r.failed, [canon(x) for x in r]]
    if isinstance(r, Response):
        return ["response", r.result, r.raw_result.hex(), r.failed, r.channel_input, r.genie_platform,
                r.textfsm_platform, repr(r.failed_when_contains), r.host]
    if r is None or isinstance(r, (str, int, bool)):
        return r
    if isinstance(r, bytes):
        return r.hex()
    if isinstance(r, (tuple, list)):
        return [canon(x) for x in r]
    return type(r).__name__


def _call_args(drv, op):
    name = op[0]
    a = op[1:]
    if name == "open":
        return drv.open, [], {}
    if name == "close":
        return drv.close, [], {}
    if name == "get_prompt":
        return drv.get_prompt, [], {}
    if name == "send_command":
        return drv.send_command, [a[0]], dict(a[1]) if len(a) > 1 else {}
    if name == "send_commands":
        return drv.send_commands, [list(a[0])], dict(a[1]) if len(a) > 1 else {}
    if name == "send_config":
        return drv.send_config, [a[0]], dict(a[1]) if len(a) > 1 else {}
    if name == "send_configs":
        return drv.send_configs, [list(a[0])], dict(a[1]) if len(a) > 1 else {}
    if name in ("send_commands_from_file", "send_configs_from_file"):
        return getattr(drv, name), [_lines_file(a[0])], dict(a[1]) if len(a) > 1 else {}
    if name == "send_interactive":
        return drv.send_interactive, [[tuple(x) for x in a[0]]], dict(a[1]) if len(a) > 1 else {}
    if name == "send_and_read":
        return drv.send_and_read, [a[0]], dict(a[1]) if len(a) > 1 else {}
    if name == "acquire_priv":
        return drv.acquire_priv, [a[0]], {}
    if name == "register_configuration_session":
        return drv.register_configuration_session, [a[0]], {}
    if name == "channel_send_input":
        return drv.channel.send_input, [a[0]], dict(a[1]) if len(a) > 1 else {}
    if name == "channel_send_input_and_read":
        return drv.channel.send_input_and_read, [a[0]], dict(a[1]) if len(a) > 1 else {}
    if name == "update_privilege_levels":
        return drv.update_privilege_levels, [], {}
    if name == "channel_send_inputs_interact":
        return drv.channel.send_inputs_interact, [[tuple(x) for x in a[0]]], dict(a[1]) if len(a) > 1 else {}
    raise ValueError("unknown op %r" % (name,))


_FILES = {"dir": None}


def _lines_file(lines):
    """the *_from_file operations carry their lines in the scenario; the file is written here (content-addressed)"""
    if _FILES["dir"] is None:
        _FILES["dir"] = tempfile.mkdtemp(prefix="c06_files_")
        atexit.register(shutil.rmtree, _FILES["dir"], True)
    text = "\n".join(lines) + ("\n" if lines else "")
    path = os.path.join(_FILES["dir"], hashlib.sha256(text.encode()).hexdigest()[:16] + ".txt")
    if not os.path.exists(path):
        with open(path, "w", encoding="utf-8") as f:
            f.write(text)
    return path


def _has(drv, op):
    n = op[0]
    if n.startswith("channel_"):
        return True
    return hasattr(drv, n)


def _finish(dev, drv, obs, errs=()):
    t = drv.transport
    return {
        "ops": obs,
        "errors": [list(x) for x in errs],       # [operation index, exception type, message class, types it was raised from]
        "transport_open": bool(t.opened),
        "writes": [w.hex() for w in t.writes],
        "sent": b"".join(t.writes).hex(),
        "device_log": [[m, l.hex(), o.hex()] for (m, l, o) in dev.log],
        "hidden": [h.hex() for h in dev.hidden_lines],
        "reads": b"".join(t.reads).hex(),
        "priv": getattr(getattr(drv, "_current_priv_level", None), "name", None),
        "device_mode": dev.mode,
        "dialogue": list(dev.dialog_trace) + (["open"] if dev.dlg is not None else []),
        "alive": bool(drv.isalive()),
        "timeout_ops": drv.timeout_ops,          # what the per-call overrides left behind
    }


# ------------------------------------------------------------------------------------------------
# two-object histories (scenario key "first"): a FIRST driver object of the same kind is constructed (its own device),
# optionally used, one of its privilege levels is edited IN PLACE (drv.privilege_levels[level].<field> = value, or
# .not_contains.append(value)), optionally update_privilege_levels() / more operations; then the scenario's own object (the
# SECOND one) is constructed and runs sc["ops"].  Observed on top of the usual fields: the second object's privilege levels
# right after its construction ("levels"), what the first object did ("first"), and "isolation": the ways in which the second
# object is NOT what it would have been without the first one's edit — (a) its levels differ from those of an object
# constructed before the edit, (b) its observations differ from a control run of the same history without the edit.  The
# property oracle for these histories is: "isolation" is empty in both stacks, and the two stacks agree.  Every edit is
# undone on the edited object itself when the run ends (whatever shares that object is thereby restored as well), and in
# the asyncio batch these histories run one after the other, never interleaved with other scenarios.
# ------------------------------------------------------------------------------------------------
LEVEL_FIELDS = ("pattern", "name", "previous_priv", "deescalate", "escalate", "escalate_auth", "escalate_prompt", "not_contains")
ISOLATION_KEYS = ("ops", "errors", "sent", "device_log", "priv", "device_mode", "levels", "reads")


def levels_dump(drv):
    lv = getattr(drv, "privilege_levels", None) or {}
    out = []
    for name in sorted(lv):
        row = [name]
        for f in LEVEL_FIELDS:
            v = getattr(lv[name], f, None)
            row.append(list(v) if isinstance(v, (list, tuple)) else v)
        out.append(row)
    return out


def _apply_edit(drv, e, undo):
    lvl = (getattr(drv, "privilege_levels", None) or {}).get(e[0])
    if lvl is None:
        return ["skip", "no level %s" % e[0]]
    if e[1] == "not_contains":
        lst = lvl.not_contains
        if not isinstance(lst, list):
            undo.append((lvl, "not_contains", lst))
            lvl.not_contains = [e[2]]
        else:
            undo.append((lst, None, list(lst)))
            lst.append(e[2])
    else:
        undo.append((lvl, e[1], getattr(lvl, e[1])))
        setattr(lvl, e[1], e[2])
    return ["ok", None]


def _undo_edits(undo):
    for obj, field, old in reversed(undo):
        if field is None:
            obj[:] = old
        else:
            setattr(obj, field, old)


def _isolation(out, ref_levels, ctl):
    iso = []
    got = {r[0]: r for r in out["levels"] or []}
    want = {r[0]: r for r in ref_levels}
    for name in sorted(set(got) | set(want)):
        if got.get(name) != want.get(name):
            fields = [f for f, x, y in zip(("name",) + LEVEL_FIELDS, got.get(name) or [], want.get(name) or []) if x != y]
            iso.append("level %s of the second object differs from an object constructed before the edit in %s" % (
                name, ",".join(fields) or "presence"))
    if ctl is not None:
        for k in ISOLATION_KEYS:
            if out.get(k) != ctl.get(k):
                iso.append("%s of the second object differ(s) from the same history without the edit" % k)
    return iso


def _first_sc(sc):
    f = dict(sc)
    f.pop("first", None)
    f["fault"] = None
    return f


# ------------------------------------------------------------------------------------------------
# with-block form (round 9): op ["with", [inner ops]] = `with drv as d: <inner ops>` / `async with drv as d: <inner ops>`.
# Observed: ["ok", [d is drv, inner observations, inner errors]] when the block was entered and left without an exception,
# ["exc", type name, stage (enter | body | exit), inner observations, inner errors] otherwise; an exception of __enter__ /
# __exit__ is recorded in "errors" like that of any operation (type, message class, explicit cause chain).  A failing inner
# operation is recorded and the body goes on (the caller catches it inside the block), so that the block is left normally.
# ------------------------------------------------------------------------------------------------
def _run_with(drv, op, obs, errs):
    idx, sub, sub_errs, st, alive = len(obs), [], [], ["enter", None], True
    try:
        with drv as d:
            st[0], st[1] = "body", d is drv
            alive = _run_ops(drv, op[1], sub, sub_errs)
            st[0] = "exit"
    except Starved:
        obs.append(["exc", "Starved", st[0], sub, sub_errs])
        return False
    except Exception as e:  # noqa
        obs.append(["exc", type(e).__name__, st[0], sub, sub_errs])
        errs.append([idx] + error_class(e))
        return alive
    obs.append(["ok", [st[1], sub, sub_errs]])
    return alive


async def _arun_with(drv, op, obs, errs):
    idx, sub, sub_errs, st, alive = len(obs), [], [], ["enter", None], True
    try:
        async with drv as d:
            st[0], st[1] = "body", d is drv
            alive = await _arun_ops(drv, op[1], sub, sub_errs)
            st[0] = "exit"
    except Starved:
        obs.append(["exc", "Starved", st[0], sub, sub_errs])
        return False
    except Exception as e:  # noqa
        obs.append(["exc", type(e).__name__, st[0], sub, sub_errs])
        errs.append([idx] + error_class(e))
        return alive
    obs.append(["ok", [st[1], sub, sub_errs]])
    return alive


def _run_ops(drv, ops, obs, errs):
    """sync: run the operations, -> False when the history ended in Starved"""
    for op in ops:
        if op[0] == "with":
            if not _run_with(drv, op, obs, errs):
                return False
            continue
        if not _has(drv, op):
            obs.append(["skip", op[0]])
            continue
        fn, a, kw = _call_args(drv, op)
        try:
            obs.append(["ok", canon(fn(*a, **kw))])
        except Starved:
            obs.append(["exc", "Starved"])
            return False
        except Exception as e:  # noqa
            obs.append(["exc", type(e).__name__])
            errs.append([len(obs) - 1] + error_class(e))
    return True


async def _arun_ops(drv, ops, obs, errs):
    for op in ops:
        if op[0] == "with":
            if not await _arun_with(drv, op, obs, errs):
                return False
            continue
        if not _has(drv, op):
            obs.append(["skip", op[0]])
            continue
        fn, a, kw = _call_args(drv, op)
        try:
            r = fn(*a, **kw)
            if asyncio.iscoroutine(r):
                r = await r
            obs.append(["ok", canon(r)])
        except Starved:
            obs.append(["exc", "Starved"])
            return False
        except Exception as e:  # noqa
            obs.append(["exc", type(e).__name__])
            errs.append([len(obs) - 1] + error_class(e))
    return True


def _first_obs(dev1, drv1, obs1):
    return {"ops": obs1, "sent": b"".join(drv1.transport.writes).hex(),
            "device_log": [[m, l.hex(), o.hex()] for (m, l, o) in dev1.log], "levels": levels_dump(drv1)}


def _not_constructed(e):
    """observation of a history whose (second) object could not even be constructed"""
    return {"ops": [["exc-constructing", type(e).__name__]], "errors": [[-1] + error_class(e)], "transport_open": False, "writes": [],
            "sent": "", "device_log": [], "hidden": [], "reads": "", "priv": None, "device_mode": None, "dialogue": [], "alive": False,
            "timeout_ops": None}


def _run_sync_one(sc, control=False):
    first = sc.get("first")
    undo, out = [], None
    try:
        if first:
            ref = levels_dump(build(_first_sc(sc), "sync")[1])
            dev1, drv1 = build(_first_sc(sc), "sync")
            obs1 = []
            alive = _run_ops(drv1, first.get("ops_before", []), obs1, [])
            if not control:
                for e in first.get("edits", []):
                    obs1.append(_apply_edit(drv1, e, undo))
            if alive:
                _run_ops(drv1, first.get("ops_after", []), obs1, [])
        try:
            dev, drv = build(sc, "sync")
        except Exception as e:  # noqa
            if not first:
                raise
            out, lv = _not_constructed(e), None
        else:
            lv = levels_dump(drv) if first else None
            obs, errs = [], []
            _run_ops(drv, sc["ops"], obs, errs)
            out = _finish(dev, drv, obs, errs)
        if first:
            out["levels"] = lv
            out["first"] = _first_obs(dev1, drv1, obs1)
    finally:
        _undo_edits(undo)
    if first and not control:
        out["isolation"] = _isolation(out, ref, _run_sync_one(sc, control=True))
    return out


def run_sync(sc):
    with scripted_timers():
        return _run_sync_one(sc)


async def _run_async(sc, control=False):
    first = sc.get("first")
    undo, out = [], None
    try:
        if first:
            ref = levels_dump(build(_first_sc(sc), "async")[1])
            dev1, drv1 = build(_first_sc(sc), "async")
            obs1 = []
            alive = await _arun_ops(drv1, first.get("ops_before", []), obs1, [])
            if not control:
                for e in first.get("edits", []):
                    obs1.append(_apply_edit(drv1, e, undo))
            if alive:
                await _arun_ops(drv1, first.get("ops_after", []), obs1, [])
        try:
            dev, drv = build(sc, "async")
        except Exception as e:  # noqa
            if not first:
                raise
            out, lv = _not_constructed(e), None
        else:
            lv = levels_dump(drv) if first else None
            obs, errs = [], []
            await _arun_ops(drv, sc["ops"], obs, errs)
            out = _finish(dev, drv, obs, errs)
        if first:
            out["levels"] = lv
            out["first"] = _first_obs(dev1, drv1, obs1)
    finally:
        _undo_edits(undo)
    if first and not control:
        out["isolation"] = _isolation(out, ref, await _run_async(sc, control=True))
    return out


def run_async_batch(scs):
    async def go():
        res = {}
        loop = asyncio.get_running_loop()
        for i, sc in enumerate(scs):          # two-object histories edit objects in place: one at a time, nothing interleaved
            if sc.get("first"):
                # each history starts at scripted time 0: every "blocks for ever" read costs HORIZON scripted seconds, and a
                # clock beyond ~1e7 s no longer resolves the loop's 1 ns timer slack (a due timer would never fire)
                if isinstance(loop, VirtualLoop) and not any(not h._cancelled for h in loop._scheduled):
                    loop._vt = 0.0
                res[i] = await _run_async(sc)
        if isinstance(loop, VirtualLoop) and not any(not h._cancelled for h in loop._scheduled):
            loop._vt = 0.0
        rest = [i for i in range(len(scs)) if i not in res]
        for i, r in zip(rest, await asyncio.gather(*(asyncio.ensure_future(_run_async(scs[i])) for i in rest))):
            res[i] = r
        return [res[i] for i in range(len(scs))]
    loop = VirtualLoop()
    try:
        return loop.run_until_complete(go())
    finally:
        loop.close()


def diff_obs(a, b):
    """names of the observation fields that differ"""
    out = []
    for k in sorted(a):
        if a[k] != b.get(k):
            out.append(k)
    # two-object histories: either stack failing the isolation expectation is a failure by itself (even when both fail alike)
    if (a.get("isolation") or b.get("isolation")) and "isolation" not in out:
        out = sorted(out + ["isolation"])
    return out


SIG_AND_READ_TIMEOUT = "c06-send-and-read-ops-timeout-exception-class"


def known_signature(sc, a, b, d):
    """signature of the listed finding a difference belongs to, or None.  Listed: when timeout_ops expires inside
    send_and_read, the sync stack's SIGALRM handler raises ScrapliTimeout inside `with suppress(ScrapliTimeout)` of
    Channel._read_until_prompt_or_time (meant for the transport's read timeout), the loop reads again from the transport the
    handler has closed and ScrapliConnectionNotOpened comes out; the asyncio stack raises ScrapliTimeout.  Recognised by its
    observation only: nothing but the operation results differ, and the first differing operation is a send_and_read with
    exactly these two exception classes."""
    if d not in (["ops"], ["errors", "ops"]) or len(a["ops"]) != len(b["ops"]):
        return None
    for op, x, y in zip(sc["ops"], a["ops"], b["ops"]):
        if x != y:
            if op[0] == "send_and_read" and x == ["exc", "ScrapliConnectionNotOpened"] and y == ["exc", "ScrapliTimeout"]:
                return SIG_AND_READ_TIMEOUT
            return None
    return None


# ------------------------------------------------------------------------------------------------
# generators
# ------------------------------------------------------------------------------------------------
SHOW = ["show version", "show ip interface brief", "show run | i hostname", "show clock", "SHOW Users", "ping 10.0.0.1"]
CONF = ["interface Loopback0", "description x y z", "no shutdown", "ip address 10.0.0.1 255.255.255.255", "hostname r9"]
INVALID = {"cisco_iosxe": "% Invalid input detected at '^' marker.", "cisco_iosxr": "% Invalid input detected at '^' marker.",
           "cisco_nxos": "% Invalid command at '^' marker.", "arista_eos": "% Invalid input", "juniper_junos": "unknown command.",
           "generic": "unknown command", "network": "% Invalid input detected at '^' marker."}
OUTPUTS = ["", "line one", "Cisco IOS XE Software, Version 17.3.4\nuptime is 1 week", "a\n\nb\n", "x" * 300,
           "col1   col2\n----   ----\n1      2", "tab\there", "caf\xe9"]
CONF_LEVEL = {"cisco_iosxe": "configuration", "cisco_iosxr": "configuration", "cisco_nxos": "configuration",
              "arista_eos": "configuration", "juniper_junos": "configuration", "network": "configuration"}
PRIVS = {"cisco_iosxe": ["exec", "privilege_exec", "configuration", "tclsh"],
         "network": ["exec", "privilege_exec", "configuration", "tclsh"],
         "cisco_iosxr": ["privilege_exec", "configuration", "configuration_exclusive"],
         "cisco_nxos": ["exec", "privilege_exec", "configuration", "tclsh"],
         "arista_eos": ["exec", "privilege_exec", "configuration"],
         "juniper_junos": ["exec", "configuration", "configuration_exclusive", "configuration_private", "shell"],
         "generic": []}
ENABLE = {"cisco_iosxe", "cisco_nxos", "arista_eos", "network"}


def gen_policy(rng):
    k = rng.choice(["whole", "whole", "bytes", "bytes", "random", "random"])
    if k == "whole":
        return ["whole"]
    if k == "bytes":
        return ["bytes", rng.choice([1, 1, 2, 3, 5, 8, 64])]
    return ["random", rng.randint(0, 10 ** 6), rng.choice([3, 7, 20])]


# ------------------------------------------------------------------------------------------------
# interactive dialogues (send_interactive / send_inputs_interact)
# ------------------------------------------------------------------------------------------------
# (question text, the response a client would wait for, hidden answer)
QUESTIONS = [
    ("Clear all counters? [confirm]", "[confirm]", False), ("Proceed with reload? [confirm]", "[confirm]", False),
    ("Clear logging buffer [confirm]", "[confirm]", False), ("Delete flash:/x.bin? [confirm]", "[confirm]", False),
    ("Continue? (y/n) ", "(y/n)", False), ("Are you sure? (y/n) ", "(y/n)", False),
    ("Source filename []?", "Source filename []?", False), ("Address or name of remote host []?", "[]?", False),
    ("Destination filename [startup-config]?", "Destination filename", False),
    ("Password:", "Password:", True), ("Enter passphrase: ", "passphrase:", True), ("Old password: ", "assword:", True),
]
TRIGGERS = ["clear counters", "reload", "copy flash: scp:", "delete flash:/x.bin", "clear logging", "request system reboot",
            "write erase"]
ANSWERS = ["y", "y", "", "yes", "n", "test1.txt", "172.31.254.100", "s3cr3t"]
DIALOG_OUT = ["", "", "done", "[OK]", "Erase of nvram: complete", "% Unknown command", "1 file(s) copied [confirm] no more"]
ANY_PROMPT = r"^[a-z0-9.\-_@()/:{}\[\]]{1,63}[#>$%]\s?$"      # what a caller would pass as "we are back at a prompt"
PROMPT_TAIL = {"juniper_junos": ">"}


def gen_dialog(rng):
    """device side of a dialogue; the questions asked are independent of what the client expects"""
    n = rng.choice([1, 2, 2, 3, 3, 4])
    r = rng.random()
    if r < 0.45:        # the same expected response several times in a row
        tok = rng.choice(["[confirm]", "[confirm]", "(y/n)"])
        pool = [q for q in QUESTIONS if q[1] == tok]
        qs = [rng.choice(pool) for _ in range(n)]
    elif r < 0.6:       # exactly the same question twice, then others
        q = rng.choice(QUESTIONS)
        qs = ([q, q] + [rng.choice(QUESTIONS) for _ in range(n)])[:max(n, 2)]
    else:
        qs = [rng.choice(QUESTIONS) for _ in range(n)]
    steps = []
    for i, (q, _tok, hid) in enumerate(qs):
        st = {"q": q}
        if hid:
            st["hidden"] = True
        if rng.random() > (0.9 if i == 0 else 0.6):
            st["ask"] = False
        if rng.random() < 0.15:
            st["accept"] = ["y", "yes", ""]
        if rng.random() < 0.15:
            st["info"] = rng.choice(["Building configuration...", "System configuration has been modified.", "router1#show",
                                     "this will [confirm] nothing"])
        steps.append(st)
    return {"steps": steps, "out": rng.choice(DIALOG_OUT), "abort_out": rng.choice(["% aborted", "", "Command aborted"])}, qs


def gen_interactive(rng, kind, dev, channel_level=False):
    """one interactive operation + the dialogue it talks to (added to the device description)"""
    dialogs = dev.setdefault("dialogs", {})
    free = [t for t in TRIGGERS if t not in dialogs and t not in dev.get("outputs", {})]
    if not free:
        return ["get_prompt"]
    trig = rng.choice(free)
    spec, qs = gen_dialog(rng)
    dialogs[trig] = spec
    tail = PROMPT_TAIL.get(kind, "#")
    # client side: one event per question it believes the device asks, then the final answer
    inputs = [trig] + [rng.choice(ANSWERS) for _ in qs]
    hidden = [False] + [bool(q[2]) for q in qs]
    expects = [q[1] for q in qs] + [rng.choice(["", "", tail, dev.get("host", "router1") + tail])]
    r = rng.random()
    if r < 0.06 and len(qs) > 1:          # the client knows fewer questions than the device asks
        k = rng.randint(1, len(qs) - 1)
        inputs, hidden, expects = inputs[:k + 1], hidden[:k + 1], expects[:k] + [expects[-1]]
    elif r < 0.12:                        # the client expects one more question than the device has
        inputs.append(rng.choice(ANSWERS))
        hidden.append(False)
        expects.insert(len(expects) - 1, rng.choice(QUESTIONS)[1])
    events = []
    for i, (inp, exp, hid) in enumerate(zip(inputs, expects, hidden)):
        if rng.random() < 0.04:
            hid = not hid                 # the caller is wrong about the echo
        events.append([inp, exp] if (not hid and rng.random() < 0.3) else [inp, exp, hid])
    kw = {}
    r = rng.random()
    if r < 0.8:
        pats = [rng.choice([ANY_PROMPT, ANY_PROMPT, tail, "^" + dev.get("host", "router1").replace(".", "\\.") + "[#>]\\s?$"])]
        if rng.random() < 0.3:            # a completion pattern that is already in an earlier event's output
            pats.insert(rng.randint(0, 1), rng.choice([qs[0][1], trig.split()[0], "[confirm]", inputs[0]]))
        if rng.random() < 0.2:
            pats.append(rng.choice(["% aborted", "Command aborted", "[OK]", "done"]))
        kw["interaction_complete_patterns"] = pats
    elif r < 0.85:
        kw["interaction_complete_patterns"] = []
    if channel_level:
        return ["channel_send_inputs_interact", events, kw]
    if rng.random() < 0.15:
        kw["failed_when_contains"] = rng.choice([["% aborted"], "Unknown", ["zzz"]])
    return ["send_interactive", events, kw]


# scenario families: what a scenario mostly consists of.  FN_FAMILY maps a paired function (the name behind the
# class in the twin table) to the families whose scenarios reach it; c06.py searches those families first when the
# twin-diff obligation of that function breaks.
FAMILIES = ["interactive", "commands", "and_read", "prompt", "configs", "priv", "lifecycle", "lists", "timeouts", "errors",
            "ansi", "two_objects", "with_open"]
_LISTS = ["commands", "lists", "timeouts"]
_CONFS = ["configs", "lists", "timeouts"]
FN_FAMILY = {
    "send_inputs_interact": ["interactive", "priv", "timeouts"], "send_interactive": ["interactive", "timeouts"],
    "_read_until_explicit_prompt": ["interactive", "priv"], "_read_until_input": ["interactive", "commands", "configs", "lists"],
    "_read_until_prompt": ["commands", "prompt", "configs", "lists"], "_read_until_prompt_or_time": ["and_read", "timeouts"],
    "send_input_and_read": ["and_read", "timeouts"], "send_and_read": ["and_read", "timeouts"],
    "send_input": ["commands", "configs", "priv", "lists", "timeouts"], "_send_command": _LISTS, "send_command": ["commands", "timeouts"],
    "send_commands": _LISTS, "send_commands_from_file": ["lists", "timeouts"],
    "get_prompt": ["prompt", "priv", "timeouts"], "read": ["ansi", "ansi"] + FAMILIES, "_channel_lock": FAMILIES,
    "send_config": _CONFS, "send_configs": _CONFS, "send_configs_from_file": ["lists", "timeouts"], "_abort_config": ["configs", "lists"],
    "_acquire_appropriate_privilege_level": ["priv", "configs", "interactive", "errors"], "_escalate": ["errors", "priv"],
    "_deescalate": ["errors", "priv"], "acquire_priv": ["errors", "priv"], "register_configuration_session": ["priv", "configs"],
    "open": ["lifecycle", "errors", "with_open"], "close": ["lifecycle", "errors", "with_open"], "__init__": ["lifecycle", "two_objects"],
    "update_privilege_levels": ["two_objects", "priv"], "__enter__": ["with_open", "lifecycle"], "__exit__": ["with_open", "lifecycle"],
    "channel_authenticate_telnet": ["with_open"],
    "commandeer": ["lifecycle"],
    # the two variants (function / coroutine) of the decorators of scrapli/decorators.py, paired by gen_twins as
    # "decorators:timeout_modifier" / "decorators:timeout_wrapper"
    "timeout_modifier": ["timeouts", "lists"], "timeout_wrapper": ["timeouts", "prompt"],
}


def families_of(fn):
    """scenario families for a twin-table function name like 'channel:Channel.send_inputs_interact'"""
    name = fn.split(":", 1)[-1].split(".")[-1]
    if name.endswith("_on_open") or name.endswith("_on_close"):
        return ["lifecycle", "priv", "errors", "with_open"]
    return list(FN_FAMILY.get(name, FAMILIES))


# ------------------------------------------------------------------------------------------------
# lists with repeated entries (send_commands / send_configs / send_config / the *_from_file variants), eager on / off
# ------------------------------------------------------------------------------------------------
# lines after which a device prints NO prompt (it waits for more text): the reason `eager` exists.  Device side =
# a dialogue whose "questions" are the device's silent waiting for the next line of text.
PROMPTLESS = {
    "banner motd ^": {"steps": [{"q": "Enter TEXT message.  End with the character '^'."}, {"q": ""}], "out": ""},
    "crypto pki certificate chain ca": {"steps": [{"q": ""}, {"q": ""}, {"q": ""}], "out": ""},
    "macro name m1": {"steps": [{"q": "Enter macro commands one per line. End with the character '@'."}], "out": ""},
}
REPEAT_SHAPES = ["adjacent", "apart", "last_earlier", "last_earlier", "all_same", "first_last", "none", "variant"]


def gen_repeat_list(rng, pool):
    """a list of lines from `pool` with a given shape of repetition; -> (lines, shape)"""
    shape = rng.choice(REPEAT_SHAPES)
    n = rng.choice([2, 3, 3, 4, 5, 6])
    x = rng.choice(pool)
    others = [p for p in pool if p != x] or [x]
    fill = lambda k: [rng.choice(others) for _ in range(k)]      # noqa: E731
    if shape == "adjacent":
        i = rng.randint(0, n - 2)
        lines = fill(i) + [x, x] + fill(n - 2 - i)
    elif shape == "apart":
        n = max(n, 3)
        i = rng.randint(0, n - 3)
        j = rng.randint(i + 2, n - 1)
        lines = fill(n)
        lines[i] = lines[j] = x
    elif shape == "last_earlier":
        lines = fill(n - 1) + [x]
        lines[rng.randint(0, n - 2)] = x
        if rng.random() < 0.3 and n > 2:
            lines[rng.randint(0, n - 2)] = x
    elif shape == "all_same":
        lines = [x] * n
    elif shape == "first_last":
        lines = [x] + fill(max(n - 2, 0)) + [x]
    elif shape == "variant":      # the same line up to case / surrounding blanks: the device runs the same thing
        v = rng.choice([x + " ", " " + x, x.upper(), x.capitalize()])
        lines = fill(n - 2) + [v]
        lines.insert(rng.randint(0, len(lines) - 1), x)
    else:
        lines = rng.sample(pool, min(n, len(pool)))
    return lines, shape


def gen_list_op(rng, kind, dev):
    outputs = dev["outputs"]
    net = kind != "generic"
    kw = {}
    r = rng.random()
    if r < 0.6:
        kw["eager"] = True
    elif r < 0.8:
        kw["eager"] = False
    if rng.random() < 0.3:
        kw["stop_on_failed"] = True
    if rng.random() < 0.15:
        kw["strip_prompt"] = False
    if rng.random() < 0.08:
        kw["eager_input"] = True
    conf = net and rng.random() < 0.5
    pool = (CONF + ["bogus line"]) if conf else (list(outputs) or SHOW)
    lines, shape = gen_repeat_list(rng, pool)
    if kw.get("eager") and rng.random() < 0.25:
        # a block of text after whose lines the device prints no prompt, its lines repeating each other / the last entry
        free = [t for t in sorted(PROMPTLESS) if t not in dev.get("dialogs", {})]
        if free:
            trig = rng.choice(free)
            dev.setdefault("dialogs", {})[trig] = PROMPTLESS[trig]
            k = len([st for st in PROMPTLESS[trig]["steps"]])
            text = rng.choice([lines[-1], "^", "@", "quit", lines[-1]])
            at = rng.randint(0, len(lines) - 1)
            lines = lines[:at] + [trig] + [text] * k + lines[at:]
    if not conf and not net and rng.random() < 0.3:
        kw["failed_when_contains"] = [INVALID[kind]]
    if conf:
        if kind in ("cisco_iosxr", "juniper_junos") and rng.random() < 0.2:
            kw["privilege_level"] = "configuration_exclusive"
        name = rng.choice(["send_configs", "send_configs", "send_config", "send_configs_from_file"])
        if name == "send_config":
            return ["send_config", "\n".join(lines), kw]
        return [name, lines, kw]
    return [rng.choice(["send_commands", "send_commands", "send_commands_from_file"]), lines, kw]


# ------------------------------------------------------------------------------------------------
# per-call timeout_ops x device latency (scripted time, see VClock / VirtualLoop above)
# ------------------------------------------------------------------------------------------------
CONN_TIMEOUTS = [0, 0.35, 2.1, 2.1, 20.1, 20.1]           # never a multiple of 0.25 s (no ties with the latencies)
CALL_TIMEOUTS = [0, 0.0, 0.05, 0.35, 2.1, 20.1, 200.1]
LATENCIES = [0.25, 1.0, 1.0, 10.0, 10.0, 100.0]           # multiples of 0.25 s
TIMED_OPS = ("send_command", "send_commands", "send_commands_from_file", "send_config", "send_configs", "send_configs_from_file",
             "send_and_read", "send_interactive")


def setup_time(rng, kind, dev, drv_kw):
    """connection timeout_ops + which device lines are slow"""
    plat = "cisco_iosxe" if kind == "network" else kind
    drv_kw["timeout_ops"] = rng.choice(CONN_TIMEOUTS)
    lat = dev.setdefault("latency", {})
    cands = list(dev["outputs"])
    for c in rng.sample(cands, rng.randint(1, min(3, len(cands)))):
        lat[c] = rng.choice(LATENCIES)
    if kind != "generic":
        for c in rng.sample(CONF, rng.randint(0, 2)):
            lat[c] = rng.choice(LATENCIES)
        if rng.random() < 0.2:
            t = simdevice.PLATFORMS[plat]()["trans"]
            lines = sorted({l for m in t for l in t[m]})
            lat[rng.choice(lines)] = rng.choice(LATENCIES[:4])


def call_timeout(rng, conn):
    """a per-call timeout_ops value: not given / None / 0 / the connection's / smaller / larger / fractional"""
    r = rng.random()
    if r < 0.15:
        return "absent"
    if r < 0.25:
        return None
    if r < 0.5:
        return rng.choice([0, 0, 0.0])
    if r < 0.6:
        return conn
    return rng.choice(CALL_TIMEOUTS)


def gen_timed_op(rng, kind, dev, drv_kw):
    conn = drv_kw.get("timeout_ops", 0)
    slow = sorted(dev.get("latency", {}))
    cmds = list(dev["outputs"]) or SHOW
    net = kind != "generic"
    pick = lambda: rng.choice([c for c in slow if c in dev["outputs"]] or cmds) if rng.random() < 0.7 else rng.choice(cmds)  # noqa: E731
    r = rng.random()
    if r < 0.25:
        op = ["send_command", pick(), {}]
    elif r < 0.45:
        op = gen_list_op(rng, kind, dev)
    elif r < 0.55:
        kw = {"read_duration": 120}
        if rng.random() < 0.6:
            kw["expected_outputs"] = [rng.choice(["one", "zz", "Version", "#"])]
        # (kept away from the listed finding SIG_AND_READ_TIMEOUT: a quick line, or no timeout for this call)
        quick = [c for c in cmds if c not in slow]
        op = ["send_and_read", rng.choice(quick) if quick else pick(), kw]
        if not quick:
            kw["timeout_ops"] = 0
            return op
    elif r < 0.7:
        if rng.random() < 0.5:
            op = gen_interactive(rng, kind, dev)
            if op[0] == "send_interactive" and rng.random() < 0.5:      # the dialogue's first line is slow
                dev.setdefault("latency", {})[op[1][0][0]] = rng.choice(LATENCIES)
        else:
            op = ["send_interactive", [[pick(), PROMPT_TAIL.get(kind, "#"), False]], {}]
    elif r < 0.85 and net:
        lines = [rng.choice(CONF + ["bogus line"]) for _ in range(rng.choice([1, 2, 3]))]
        name = rng.choice(["send_configs", "send_config", "send_configs_from_file"])
        op = [name, "\n".join(lines) if name == "send_config" else lines, {"stop_on_failed": True} if rng.random() < 0.3 else {}]
    elif r < 0.9:
        return ["get_prompt"]
    elif r < 0.95:
        return ["channel_send_input", pick(), {}]
    elif net:
        return ["acquire_priv", rng.choice(PRIVS[kind])]
    else:
        op = ["send_command", pick(), {}]
    if op[0] in TIMED_OPS:
        v = call_timeout(rng, conn)
        if v != "absent":
            if len(op) < 3:
                op.append({})
            op[2]["timeout_ops"] = v
    return op


def gen_family_op(rng, kind, dev, family, drv_kw=None):
    outputs = dev["outputs"]
    cmds = list(outputs) or SHOW
    net = kind != "generic"
    if family == "lists":
        op = gen_list_op(rng, kind, dev)
        if drv_kw and "timeout_ops" in drv_kw:
            v = call_timeout(rng, drv_kw["timeout_ops"])
            if v != "absent":
                op[2]["timeout_ops"] = v
        return op
    if family == "timeouts":
        return gen_timed_op(rng, kind, dev, drv_kw if drv_kw is not None else {})
    if family == "interactive":
        return gen_interactive(rng, kind, dev, channel_level=rng.random() < 0.3)
    if family == "commands":
        r = rng.random()
        if r < 0.2:
            return ["channel_send_input", rng.choice(cmds), {"strip_prompt": rng.random() < 0.5, "eager": rng.random() < 0.2}]
    elif family == "and_read":
        kw = {"read_duration": 120}
        if rng.random() < 0.7:
            kw["expected_outputs"] = [rng.choice(["one", "zz", "Version", "#"])]
        if rng.random() < 0.3:
            kw["strip_prompt"] = False
        return ["send_and_read", rng.choice(cmds), kw]
    elif family == "prompt":
        return ["get_prompt"] if rng.random() < 0.6 else ["send_command", rng.choice(cmds), {}]
    elif family == "configs" and net:
        kw = {"stop_on_failed": True} if rng.random() < 0.4 else {}
        if kind in ("cisco_iosxr", "juniper_junos") and rng.random() < 0.3:
            kw["privilege_level"] = "configuration_exclusive"
        if rng.random() < 0.3:
            return ["send_config", "\n".join(rng.choice(CONF + ["bogus line"]) for _ in range(rng.choice([1, 2, 3]))), kw]
        return ["send_configs", [rng.choice(CONF + ["bogus line"]) for _ in range(rng.choice([1, 2, 3]))], kw]
    elif family == "priv" and net:
        r = rng.random()
        if r < 0.6:
            return ["acquire_priv", rng.choice(PRIVS[kind])]
        if r < 0.75 and kind in ("arista_eos", "cisco_nxos"):
            return ["register_configuration_session", rng.choice(["s1", "mysess", "abcdefgh"])]
        if r < 0.9:
            return ["send_configs", [rng.choice(CONF)], {}]
    elif family == "lifecycle":
        return rng.choice([["close"], ["open"], ["get_prompt"]])
    return gen_op(rng, kind, outputs)


def gen_op(rng, kind, outputs):
    cmds = list(outputs) or SHOW
    net = kind != "generic"
    r = rng.random()
    if r < 0.25:
        kw = {}
        if rng.random() < 0.3:
            kw["strip_prompt"] = False
        if rng.random() < 0.2:
            kw["failed_when_contains"] = rng.choice([["line"], "uptime", ["zzz", "%"]])
        if rng.random() < 0.1:
            kw["eager_input"] = True
        return ["send_command", rng.choice(cmds), kw]
    if r < 0.4:
        n = rng.choice([1, 2, 3])
        kw = {"stop_on_failed": True} if rng.random() < 0.4 else {}
        if rng.random() < 0.2:
            kw["eager_input"] = True
        if rng.random() < 0.2:
            kw["strip_prompt"] = False
        return ["send_commands", [rng.choice(cmds + ["bogus line"]) for _ in range(n)], kw]
    if r < 0.45:
        return ["get_prompt"]
    if r < 0.5:
        return ["send_and_read", rng.choice(cmds), {"read_duration": 120, "expected_outputs": [rng.choice(["one", "zz", "Version"])]}]
    if not net:
        if r < 0.7:
            return ["send_interactive", [[rng.choice(cmds), "#", False]]]
        if r < 0.85:
            return ["channel_send_input", rng.choice(cmds), {"strip_prompt": rng.random() < 0.5}]
        return ["send_command", rng.choice(cmds), {}]
    if r < 0.65:
        n = rng.choice([1, 2, 3])
        kw = {}
        if rng.random() < 0.4:
            kw["stop_on_failed"] = True
        if kind in ("cisco_iosxr", "juniper_junos") and rng.random() < 0.3:
            kw["privilege_level"] = "configuration_exclusive"
        return ["send_configs", [rng.choice(CONF + ["bogus line"]) for _ in range(n)], kw]
    if r < 0.72:
        return ["send_config", "\n".join(rng.choice(CONF) for _ in range(rng.choice([1, 2]))), {}]
    if r < 0.85:
        return ["acquire_priv", rng.choice(PRIVS[kind])]
    if r < 0.9 and kind in ("arista_eos", "cisco_nxos"):
        return ["register_configuration_session", rng.choice(["s1", "mysess", "abcdefgh"])]
    if r < 0.95:
        return ["send_interactive", [[rng.choice(cmds), "#", False]], {}]
    return ["close"]


# ------------------------------------------------------------------------------------------------
# error paths (family "errors"): what happens when an operation FAILS must be the same in both stacks too — the
# exception's type and message class, the bytes written up to the failure and the state afterwards (cached privilege
# level, device mode, transport open or closed, what the next operations do, a re-open).  Device side:
#   auth        a password dialogue behind the escalation line (enable / start shell user root) x secondary password
#               right / wrong / empty / not given x the device re-prompting 3 / 2 times, refusing at once, hanging after a
#               wrong / after any password, refusing or ignoring the escalation line, going silent after it;
#   deescalate  the device refuses / ignores / goes silent after a line that leads DOWN (disable, end, exit, abort, tclquit,
#               exit configuration-mode) while the operations walk up and down the privilege levels;
#   on_open     the user's own on_open / on_close hooks fail (raise, ask for an unknown level, send a command / a config to
#               a device that hangs on a session set-up line), incl. close and re-open afterwards.
# The connection's timeout_ops is armed in most of them, so that silence ends in the operation timeout of the real
# decorators (see HORIZON above) and the code behind `except ScrapliTimeout` runs.
# ------------------------------------------------------------------------------------------------
ERR_KINDS = ["cisco_iosxe", "cisco_iosxe", "cisco_nxos", "arista_eos", "network", "network", "juniper_junos", "cisco_iosxr", "generic"]
ERR_TIMEOUTS = [0.35, 2.1, 2.1, 20.1, 20.1, 0]
AUTH_LINE = {"cisco_iosxe": ("exec", "enable", "privilege_exec"), "network": ("exec", "enable", "privilege_exec"),
             "cisco_nxos": ("exec", "enable", "privilege_exec"), "arista_eos": ("exec", "enable", "privilege_exec"),
             "juniper_junos": ("exec", "start shell user root", "root_shell")}
AUTH_BEHAVIOURS = ["reprompt", "reprompt", "two", "refuse_now", "hang_wrong", "hang_always", "refuse_line", "ignore_line", "mute_line"]
DOWN_LINES = ("disable", "end", "exit", "abort", "tclquit", "exit configuration-mode")
SETUP_LINES = ["terminal length 0", "terminal width 512", "terminal width 511", "set cli screen-length 0",
               "set cli screen-width 511", "set cli complete-on-space off", "exit"]


def _line_fault(rng, dev, pair, how):
    dev.setdefault({"refuse": "refuse", "ignore": "ignore", "mute": "mute"}[how], []).append(list(pair))


def gen_error_scenario(rng, kind=None, mode=None):
    kind = kind or rng.choice(ERR_KINDS)
    plat = "cisco_iosxe" if kind == "network" else kind
    outputs = {c: rng.choice(OUTPUTS) for c in rng.sample(SHOW, rng.randint(1, 2))}
    cmds = list(outputs)
    dev = {"host": rng.choice(["router1", "r1", "core-sw.lab"]), "outputs": outputs, "nl": rng.choice(["\r\n", "\r\n", "\n"])}
    kw = {"timeout_ops": rng.choice(ERR_TIMEOUTS)}
    modes = ["on_open"] if kind == "generic" else (["deescalate", "on_open"] if kind not in AUTH_LINE else
                                                   ["auth", "auth", "auth", "deescalate", "deescalate", "on_open", "on_open"])
    mode = mode if mode in modes else rng.choice(modes)
    meta = {"mode": mode}
    ops = [["open"]]
    levels = PRIVS[kind] + (["root_shell"] if kind == "juniper_junos" else [])
    post = lambda: rng.choice([["get_prompt"], ["send_command", rng.choice(cmds), {}], ["close"], ["open"]] + (      # noqa: E731
        [["acquire_priv", rng.choice(levels)], ["send_configs", [rng.choice(CONF)], {}]] if kind != "generic" else []))
    if mode == "auth":
        m, line, target = AUTH_LINE[kind]
        if "exec" in simdevice.PLATFORMS[plat]()["login_modes"]:
            dev["login_mode"] = "exec"
        if rng.random() < 0.85:
            dev["secret"] = "s3cr3t"
        sec = rng.choice(["wrong", "wrong", "wrong", "", "absent", "s3cr3t"])
        if sec != "absent":
            kw["auth_secondary"] = sec
        how = rng.choice(AUTH_BEHAVIOURS)
        meta.update(secondary={"wrong": "wrong", "": "empty", "absent": "absent", "s3cr3t": "right"}[sec], behaviour=how,
                    device_asks=("secret" in dev))
        if how == "two":
            dev["auth_attempts"] = 2
        elif how == "refuse_now":
            dev["auth_attempts"] = 1
        elif how in ("hang_wrong", "hang_always"):
            dev["auth_hang"] = how[5:]
        elif how != "reprompt":
            _line_fault(rng, dev, (m, line), how.split("_")[0])
        # the platforms' own on_open escalates already (the failure is then inside open); "none": it is the operation's
        if rng.random() < 0.55:
            kw["on_open"] = "none"
        elif rng.random() < 0.2:
            kw["on_open"] = "escalate"
        meta["on_open"] = kw.get("on_open", "default")
        r = rng.random()
        if kind == "juniper_junos":
            ops.append(["acquire_priv", "root_shell"])
        elif r < 0.45:
            ops.append(["acquire_priv", target])
        elif r < 0.6:
            ops.append(["acquire_priv", "configuration"])
        elif r < 0.8:
            ops.append(["send_command", rng.choice(cmds), {}])
        elif r < 0.9:
            ops.append(["send_configs", [rng.choice(CONF)], {}])
        else:
            ops.append(["send_interactive", [[rng.choice(cmds), "#", False]], {"privilege_level": target}])
    elif mode == "deescalate":
        t = simdevice.PLATFORMS[plat]()["trans"]
        pairs = [[m, l] for m in sorted(t) for l in sorted(t[m]) if l in DOWN_LINES and m in levels]
        m, line = rng.choice(pairs)
        how = rng.choice(["refuse", "ignore", "mute", "mute"])
        _line_fault(rng, dev, (m, line), how)
        meta.update(behaviour=how, line=line)
        if kind in ENABLE:
            dev["login_mode"] = rng.choice(["exec", "privilege_exec", "privilege_exec"])
            if rng.random() < 0.4:
                dev["secret"] = "s3cr3t"
                kw["auth_secondary"] = "s3cr3t"
        if rng.random() < 0.3:
            kw["on_open"] = "none"
        ops.append(["send_configs", [rng.choice(CONF)], {}] if (m.startswith("configuration") and rng.random() < 0.5)
                   else ["acquire_priv", m])
        r = rng.random()
        lower = levels[:max(1, levels.index(m))]
        if r < 0.5:
            ops.append(["acquire_priv", rng.choice(lower)])
        elif r < 0.8:
            ops.append(["send_command", rng.choice(cmds), {}])
        else:
            ops.append(["close"])
    else:
        names = HOOK_NAMES["generic" if kind == "generic" else "network"]
        h = rng.choice(names + ["default"])
        if h != "default":
            kw["on_open"] = h
        hc = rng.choice(["default", "default", "raise_value", "raise_own", "cmd", "none"])
        if hc != "default":
            kw["on_close"] = hc
        meta.update(on_open=h, on_close=hc)
        if kind in ENABLE:
            dev["login_mode"] = rng.choice(["exec", "privilege_exec", "privilege_exec"])
        r = rng.random()
        if r < 0.45:          # the device hangs on a session set-up line (a hook's own command or the platform's)
            dev["mute"] = [["*", rng.choice(SETUP_LINES)]]
            meta["behaviour"] = "mute_setup_line"
        elif r < 0.55 and kind != "generic":
            dev["ignore"] = [["privilege_exec", "configure terminal"]] if kind != "juniper_junos" else [["exec", "configure"]]
            meta["behaviour"] = "ignore_configure"
        else:
            meta["behaviour"] = "healthy"
        ops.append(rng.choice([["get_prompt"], ["send_command", rng.choice(cmds), {}], ["close"]]))
        if rng.random() < 0.6:
            ops += [["close"], ["open"]]
    for _ in range(rng.choice([1, 1, 2, 3])):
        ops.append(post())
    return {"kind": kind, "device": dev, "driver_kwargs": kw, "policy": gen_policy(rng) if rng.random() < 0.6 else ["whole"],
            "fault": None, "family": "errors", "err": meta, "ops": ops}


# ------------------------------------------------------------------------------------------------
# family "and_read": send_and_read / channel.send_input_and_read with expected_outputs against STREAMING devices.  The
# device's answer goes on after the place where an expected output occurs (and, for the endless lines, never ends in a
# prompt: ping / monitor / tail -f style, simulated as a dialogue step that waits for the next line), so WHERE a stack stops
# reading is visible in what it returns, in what is left unread for the next operation, and in ok / "blocks for ever".
# expected_outputs entries are drawn from three classes per stream: plain text that occurs in it, text with regex
# metacharacters that occurs in it literally (and means something else, or nothing, as a pattern), and real patterns that
# occur in it only as a pattern; plus entries that occur nowhere and entries that are not a valid pattern at all.
# ------------------------------------------------------------------------------------------------
STREAMS = [
    {"text": "PING 10.0.0.1 (10.0.0.1): 56 data bytes\n64 bytes from 10.0.0.1: seq=0 ttl=64 time=1.2 ms\n"
             "64 bytes from 10.0.0.1: seq=1 ttl=64 time=1.1 ms\n64 bytes from 10.0.0.1: seq=2 ttl=64 time=1.3 ms\n"
             "--- 10.0.0.1 ping statistics ---\n3 packets transmitted, 3 received (100%)\nrtt min/avg/max = 1.1/1.2/1.3 ms",
     "plain": ["seq=1", "bytes from", "statistics", "TTL=64"],
     "meta": ["(100%)", "(10.0.0.1)", "1.1/1.2/1.3", "---", "10.0.0.1:"],
     "pattern": [r"seq=[12]", r"\d+ packets transmitted", r"time=\d\.\d ms$", r"^rtt .*ms", r"received \(\d+%\)", r"seq=\d ttl"]},
    {"text": "Building configuration...\n[OK]\nCurrent configuration : 1200 bytes\n!\nversion 17.3\nhostname r9\n!\n"
             "interface Loopback0 [up/up]\n ip address 10.0.0.1 255.255.255.255\n!\nend",
     "plain": ["Current configuration", "hostname", "loopback0", "end"],
     "meta": ["[OK]", "[up/up]", "configuration...", "17.3", "!"],
     "pattern": [r"version \d+\.\d+", r"^hostname \S+$", r"\d+ bytes", r"Loopback\d", r"ip address (\d+\.){3}\d+", r"^end$"]},
    {"text": "Clear all counters? [confirm] assumed\ncounters cleared (y/n) a|b c++ $5 ^top\nline one\nline two\n"
             "total: 42 items\nuptime is 1 week\nmore text follows here\nand here",
     "plain": ["counters", "line two", "items", "UPTIME"],
     "meta": ["[confirm]", "(y/n)", "a|b", "c++", "$5", "^top", "counters?"],
     "pattern": [r"line (one|two)", r"up(time)? is \d", r"total: \d+", r"^more \w+", r"\bitems$", r"[0-9]{2} items"]},
]
NOWHERE = ["zz", "no such text", "(yes/no)", "[never]", r"\d{9}"]
BAD_PATTERNS = ["(yes/no", "[confirm", "*", "a)b"]
ENDLESS_LINES = ["ping 10.0.0.1 repeat 100000", "monitor interface", "tail -f /var/log/messages", "terminal monitor"]


def gen_expected(rng, stream):
    """-> (expected_outputs list, classes of its entries)"""
    out, classes = [], []
    for _ in range(rng.choice([1, 1, 1, 2, 2, 3])):
        r = rng.random()
        if r < 0.22:
            c = "plain"
        elif r < 0.52:
            c = "meta"
        elif r < 0.82:
            c = "pattern"
        elif r < 0.93:
            c = "nowhere"
        else:
            c = "invalid"
        out.append(rng.choice(NOWHERE if c == "nowhere" else BAD_PATTERNS if c == "invalid" else stream[c]))
        classes.append(c)
    return out, classes


def gen_and_read_scenario(rng, kind=None):
    kind = kind or rng.choice(PLATFORMS)
    outputs, which = {}, {}
    for c in rng.sample(SHOW, rng.randint(1, 3)):
        which[c] = rng.choice(STREAMS)
        outputs[c] = which[c]["text"]
    dev = {"host": rng.choice(["router1", "r1", "core-sw.lab", "R_2"]), "outputs": outputs, "nl": rng.choice(["\r\n", "\r\n", "\n"])}
    kw = {}
    if kind in ENABLE:
        dev["login_mode"] = rng.choice(["exec", "privilege_exec", "privilege_exec"])
    if rng.random() < 0.5:        # lines whose answer never ends in a prompt
        for line in rng.sample(ENDLESS_LINES, rng.randint(1, 2)):
            which[line] = rng.choice(STREAMS)
            dev.setdefault("dialogs", {})[line] = {"steps": [{"q": which[line]["text"] + "\n"}], "out": rng.choice(["", "stopped"])}
    ops, meta = [["open"]], []
    for _ in range(rng.choice([1, 1, 2, 3])):
        line = rng.choice(sorted(which))
        okw = {"read_duration": 120}
        exp, classes = gen_expected(rng, which[line])
        if rng.random() < 0.92:
            okw["expected_outputs"] = exp
            meta.append(classes)
        else:
            meta.append([])
        if rng.random() < 0.3:
            okw["strip_prompt"] = False
        ops.append([rng.choice(["send_and_read", "send_and_read", "channel_send_input_and_read"]), line, okw])
        r = rng.random()
        if r < 0.35:
            ops.append(["get_prompt"])
        elif r < 0.6:
            ops.append(["send_command", rng.choice(sorted(outputs)), {}])
    if rng.random() < 0.3:
        ops.append(["close"])
    return {"kind": kind, "device": dev, "driver_kwargs": kw, "policy": gen_policy(rng) if rng.random() < 0.85 else ["whole"],
            "fault": None, "family": "and_read", "expected_classes": meta, "ops": ops}


# ------------------------------------------------------------------------------------------------
# family "ansi": escape sequences in what the device prints (inside command output and at arbitrary places of the stream:
# in front of / inside prompts and echoes) x the chunking policy "esccut" (see EscChunker): every cut position inside a
# sequence, the chunk behind the cut with and without a further ESC.
# ------------------------------------------------------------------------------------------------
ESC_SEQS = ["\x1b[0m", "\x1b[0m", "\x1b[?25h", "\x1b[?25h", "\x1b[2;37;41m", "\x1b[K", "\x1b]0;router1 title\x07", "\x1b]2;x\x07",
            "\x1b[1;32m", "\x1b[?2004l", "\x1b7", "\x1b[6n"]
ESC_AFTER = ["rest", "rest", "plain", "plain", "all"]


def _sprinkle(rng, text):
    for _ in range(rng.choice([1, 1, 2, 3])):
        at = rng.choice([0, len(text), rng.randint(0, len(text))])
        seq = rng.choice(ESC_SEQS)
        if rng.random() < 0.2:
            seq += rng.choice(ESC_SEQS)          # two sequences back to back
        text = text[:at] + seq + text[at:]
    return text


def gen_ansi_scenario(rng, kind=None):
    kind = kind or rng.choice(PLATFORMS)
    outputs = {}
    for c in rng.sample(SHOW, rng.randint(1, 3)):
        o = rng.choice(OUTPUTS[1:7])
        outputs[c] = _sprinkle(rng, o) if rng.random() < 0.8 else o
    dev = {"host": rng.choice(["router1", "r1", "core-sw.lab"]), "outputs": outputs, "nl": rng.choice(["\r\n", "\r\n", "\n"])}
    kw = {}
    if kind in ENABLE:
        dev["login_mode"] = rng.choice(["exec", "privilege_exec", "privilege_exec"])
        if rng.random() < 0.3:
            dev["secret"] = "s3cr3t"
            kw["auth_secondary"] = "s3cr3t"
    if rng.random() < 0.6:        # sequences anywhere in the stream: prompts, echoes, line ends
        dev["insertions"] = {str(rng.choice([0, 1, 7, 8, 9, rng.randint(0, 60), rng.randint(0, 400)])): rng.choice(ESC_SEQS)
                             for _ in range(rng.choice([1, 1, 2, 3]))}
    if rng.random() < 0.75:
        policy = ["esccut", rng.choice([1, 1, 2, 2, 3, 3, 4, 5, 6, 9, -1, -1]), rng.choice(ESC_AFTER)]
    else:
        policy = gen_policy(rng)
    ops = [["open"]]
    cmds = sorted(outputs)
    for _ in range(rng.choice([1, 2, 3, 4])):
        r = rng.random()
        if r < 0.45:
            ops.append(["send_command", rng.choice(cmds), {"strip_prompt": False} if rng.random() < 0.2 else {}])
        elif r < 0.6:
            ops.append(["send_commands", [rng.choice(cmds) for _ in range(rng.choice([2, 3]))], {}])
        elif r < 0.7:
            ops.append(["get_prompt"])
        elif r < 0.8:
            ops.append(["channel_send_input", rng.choice(cmds), {}])
        elif r < 0.88:
            ops.append(["send_and_read", rng.choice(cmds), {"read_duration": 120, "expected_outputs": [rng.choice(["one", "zz", "Version"])]}])
        else:
            ops.append(gen_op(rng, kind, outputs))
    return {"kind": kind, "device": dev, "driver_kwargs": kw, "policy": policy, "fault": None, "family": "ansi", "ops": ops}


# ------------------------------------------------------------------------------------------------
# family "two_objects" (see _run_sync_one): per platform driver, edit a DEFAULT privilege level in place on a first object,
# then construct and use a second one.
# ------------------------------------------------------------------------------------------------
TWO_KINDS = ["cisco_iosxe", "cisco_iosxr", "cisco_nxos", "arista_eos", "juniper_junos"]
EDIT_VALUES = {
    "pattern": [r"^never-matches-\d+#$", r"^[\w.\-@/:]{1,63}[#>]\s?$", r"^.*$", r"^edited[#>]$"],
    "escalate": ["configure terminal force", "conf t", "", "enable 15"],
    "deescalate": ["quit", "exit all", "", "disable"],
    "not_contains": ["#", "(", "config", ">", "r", "tcl"],
    "escalate_prompt": [r"^[Pp]assphrase:\s?$", ""],
    "escalate_auth": [True, False],
    "previous_priv": ["", "privilege_exec", "exec"],
}
EDIT_FIELDS = ["pattern", "pattern", "pattern", "escalate", "escalate", "not_contains", "not_contains", "deescalate", "escalate_prompt",
               "escalate_auth", "previous_priv"]


def gen_two_objects_scenario(rng, kind=None):
    kind = kind if kind in TWO_KINDS else rng.choice(TWO_KINDS)
    outputs = {c: rng.choice(OUTPUTS[1:6]) for c in rng.sample(SHOW, rng.randint(1, 2))}
    cmds = sorted(outputs)
    dev = {"host": rng.choice(["router1", "r1", "core-sw.lab"]), "outputs": outputs, "nl": rng.choice(["\r\n", "\n"])}
    kw = {}
    if kind in ENABLE:
        dev["login_mode"] = rng.choice(["exec", "privilege_exec", "privilege_exec"])
    levels = PRIVS[kind]
    use = lambda: rng.choice([["get_prompt"], ["send_command", rng.choice(cmds), {}], ["acquire_priv", rng.choice(levels)],      # noqa: E731
                              ["send_configs", [rng.choice(CONF)], {}], ["acquire_priv", "configuration"]])
    edits = []
    for _ in range(rng.choice([1, 1, 2])):
        f = rng.choice(EDIT_FIELDS)
        edits.append([rng.choice(levels), f, rng.choice(EDIT_VALUES[f])])
    first = {"ops_before": [], "edits": edits, "ops_after": []}
    r = rng.random()
    if r < 0.4:
        first["ops_before"] = [["open"]] + ([use()] if rng.random() < 0.5 else [])
    if rng.random() < 0.5:
        first["ops_after"].append(["update_privilege_levels"])
    if rng.random() < 0.4:
        first["ops_after"] += ([] if first["ops_before"] else [["open"]]) + [use()]
    ops = [["open"]] + [use() for _ in range(rng.choice([1, 2, 3]))]
    if rng.random() < 0.3:
        ops.append(["close"])
    return {"kind": kind, "device": dev, "driver_kwargs": kw, "policy": gen_policy(rng) if rng.random() < 0.4 else ["whole"],
            "fault": None, "family": "two_objects", "first": first, "ops": ops}


# ------------------------------------------------------------------------------------------------
# family "with_open" (round 9): the CONTEXT-MANAGER form of opening — `with drv:` / `async with drv:` (op ["with", body]) —
# against every way the open inside __enter__ / __aenter__ can fail, and the healthy case:
#   login      in-band telnet login (auth_bypass off; DialogDevice login): right / wrong / empty password or wrong user against a
#              device that re-asks for ever (=> the channel gives up with ScrapliAuthenticationFailed), or that hangs after
#              the user name / the password with the operation timeout armed;
#   transport  the transport's open() raises (OpenFaultMixin): ScrapliAuthenticationFailed (what the ssh transports raise for
#              refused credentials), ScrapliConnectionNotOpened, ScrapliConnectionError, ScrapliTimeout, OSError,
#              ConnectionRefusedError; every open or only the first one (a later re-open / second with-block succeeds);
#   escalation the platform's own (or an escalating) on_open fails to authenticate to privilege_exec: gen_error_scenario mode auth;
#   on_open    failing user hooks on_open x on_close: gen_error_scenario mode on_open;
#   timeout    the device hangs on a session set-up line of on_open with timeout_ops armed;
#   healthy    nothing fails (the block is entered; a failing operation inside it; __exit__ closes).
# After the block: 1-3 of get_prompt / send_command / open / close / a second with-block.  Compared like every error path:
# exception type + message class + explicit cause chain of what __enter__ / __exit__ raised, bytes written, transport open or
# closed, isalive, cached privilege level, and what the later operations do.
# ------------------------------------------------------------------------------------------------
WITH_CAUSES = ["login", "login", "login", "transport", "transport", "transport", "escalation", "escalation", "on_open", "on_open",
               "timeout", "healthy"]


def _with_form(ops):
    """[open, a, b, close|open, ...] -> [[with, [a, b]], ...]: the leading open and what follows it up to the next close / open
    become one with-block"""
    k = 1
    while k < len(ops) and ops[k][0] not in ("open", "close", "with"):
        k += 1
    return [["with", ops[1:k]]] + ops[k:]


def gen_with_scenario(rng, kind=None):
    kind = kind or rng.choice(ERR_KINDS)
    cause = rng.choice(WITH_CAUSES)
    if kind == "generic" and cause == "escalation":
        cause = "on_open"
    if kind not in AUTH_LINE and cause == "escalation":
        cause = "transport"
    if cause in ("escalation", "on_open", "timeout"):
        sc = gen_error_scenario(rng, kind, mode="auth" if cause == "escalation" else "on_open")
        dev, kw = sc["device"], sc["driver_kwargs"]
        if cause == "escalation":
            # the failure has to be inside open: the platform's on_open escalates (the bare network driver gets a hook that does)
            if kind == "network":
                kw["on_open"] = "escalate"
            elif kind != "juniper_junos" and rng.random() < 0.8:
                kw.pop("on_open", None)
        if cause == "timeout":
            kw["timeout_ops"] = rng.choice([0.35, 2.1, 20.1])
            dev["mute"] = [["*", l] for l in SETUP_LINES[:6]]
            if kind in ("generic", "network"):
                kw["on_open"] = rng.choice(["cmd", "cmd_then_raise"])
            else:
                kw.pop("on_open", None)
        ops = sc["ops"]
    else:
        outputs = {c: rng.choice(OUTPUTS) for c in rng.sample(SHOW, rng.randint(1, 2))}
        cmds = list(outputs)
        dev = {"host": rng.choice(["router1", "r1", "core-sw.lab"]), "outputs": outputs, "nl": rng.choice(["\r\n", "\r\n", "\n"])}
        kw = {"timeout_ops": rng.choice(ERR_TIMEOUTS)}
        if kind in ENABLE:
            dev["login_mode"] = rng.choice(["exec", "privilege_exec", "privilege_exec"])
        sc = {"kind": kind, "device": dev, "driver_kwargs": kw, "policy": gen_policy(rng) if rng.random() < 0.6 else ["whole"],
              "fault": None}
        if cause == "login":
            pw = rng.choice(["pw", "pw", "bad", "bad", "bad", ""])
            user = rng.choice(["admin", "admin", "admin", "nobody"])
            dev["login"] = {"password": "pw"}
            r = rng.random()
            # the asyncio login loop sleeps 0.1 s per iteration (committed difference "auth read polling") while a scripted
            # sync read costs no time: the in-band login runs without an operation timeout or with one far beyond
            # 0.1 s x the number of reads of the dialogue, so that only a HANGING login ends in the timeout
            kw["timeout_ops"] = rng.choice([0, 200.1, 200.1])
            if r < 0.25:
                dev["login"]["hang"] = rng.choice(["user", "password"])
                kw["timeout_ops"] = 200.1
            kw.update(auth_bypass=False, auth_username=user, auth_password=pw)
            if rng.random() < 0.3:
                dev["motd"] = rng.choice(["\r\nUser Access Verification\r\n\r\n", "Welcome\r\n"])
        elif cause == "transport":
            sc["fault"] = {"open_exc": rng.choice(OPEN_EXC)}
            if rng.random() < 0.5:
                sc["fault"]["open_fails"] = 1
        if rng.random() < 0.3:
            kw["on_close"] = rng.choice(["raise_value", "raise_own", "cmd", "none"])
        ops = [["open"]]
        for _ in range(rng.choice([1, 1, 2])):
            ops.append(rng.choice([["get_prompt"], ["send_command", rng.choice(cmds), {}], ["send_command", "bogus line", {}]] + (
                [["acquire_priv", rng.choice(PRIVS[kind])], ["send_configs", [rng.choice(CONF)], {}]] if kind != "generic" else [])))
    cmds = list(sc["device"]["outputs"]) or SHOW
    ops = _with_form(ops)
    # later with-blocks: the same object is entered again after a failed / a finished block
    out = [ops[0]]
    for op in ops[1:]:
        out.append(["with", [["get_prompt"]]] if (op[0] == "open" and rng.random() < 0.5) else op)
    for _ in range(rng.choice([0, 1, 1, 2])):
        out.append(rng.choice([["get_prompt"], ["send_command", rng.choice(cmds), {}], ["open"], ["close"],
                               ["with", [["send_command", rng.choice(cmds), {}]]], ["with", []]]))
    sc.update(family="with_open", ops=out, with_open={"cause": cause})
    return sc


def gen_scenario(rng, kind=None, faulty=None, family=None):
    """family: one of FAMILIES -> most operations of the scenario come from that family"""
    if family == "errors":
        return gen_error_scenario(rng, kind)
    if family == "with_open":
        return gen_with_scenario(rng, kind)
    if family == "and_read" and rng.random() < 0.8:
        return gen_and_read_scenario(rng, kind)
    if family == "ansi":
        return gen_ansi_scenario(rng, kind)
    if family == "two_objects":
        return gen_two_objects_scenario(rng, kind)
    kind = kind or rng.choice(PLATFORMS)
    plat = "cisco_iosxe" if kind == "network" else kind
    outputs = {}
    for c in rng.sample(SHOW, rng.randint(1, 4)):
        o = rng.choice(OUTPUTS)
        if rng.random() < 0.15:
            o = INVALID[kind]
        outputs[c] = o
    dev = {"host": rng.choice(["router1", "r1", "core-sw.lab", "R_2"]), "outputs": outputs,
           "nl": rng.choice(["\r\n", "\r\n", "\n"])}
    if "bogus line" not in outputs:
        outputs["bogus line"] = INVALID[kind]
    kw = {}
    if kind in ENABLE:
        dev["login_mode"] = rng.choice(["exec", "privilege_exec", "privilege_exec"])
        if rng.random() < 0.5:
            dev["secret"] = "s3cr3t"
            kw["auth_secondary"] = "s3cr3t" if rng.random() < 0.8 else "wrong"
    if kind == "juniper_junos" and rng.random() < 0.3:
        dev["banner"] = "{master}"
    sc = {"kind": kind, "device": dev, "driver_kwargs": kw, "policy": gen_policy(rng), "fault": None}
    if family == "timeouts" or (family == "lists" and rng.random() < 0.25):
        setup_time(rng, kind, dev, kw)
    ops = [["open"]]
    for _ in range(rng.choice([1, 2, 3, 4, 6])):
        if family is not None and rng.random() < (0.85 if family in ("lists", "timeouts") else 0.7):
            ops.append(gen_family_op(rng, kind, dev, family, kw))
        else:
            ops.append(gen_op(rng, kind, outputs))
    if family is not None:
        sc["family"] = family
    if rng.random() < 0.5:
        ops.append(["close"])
    sc["ops"] = ops
    faulty = rng.random() < 0.35 if faulty is None else faulty
    if faulty:
        f = rng.choice(["drop", "drop", "write", "silent", "once", "refuse", "ignore"])
        off = rng.choice([0, 1, 5, 20, 60, 120, 250, 400, 800])
        if f == "drop":
            sc["fault"] = {"drop_at": off, "exc": rng.choice(["ScrapliConnectionError", "ConnectionResetError", "OSError"])}
        elif f == "write":
            sc["fault"] = {"write_exc_at": rng.choice([1, 2, 3, 5, 8, 13, 21]),
                           "exc": rng.choice(["ScrapliConnectionError", "OSError"])}
        elif f == "silent":
            dev["silent_after"] = off
        elif f == "once":
            sc["fault"] = {"read_exc_once_at": off, "exc": "ScrapliConnectionError"}
        elif f in ("refuse", "ignore") and plat != "generic":
            t = simdevice.PLATFORMS[plat]()["trans"]
            pairs = [[m, l] for m in t for l in t[m]]
            if pairs:
                dev[f] = [rng.choice(pairs)]
    return sc


def corpus():
    """fixed boundary scenarios that always run first"""
    out = []
    for kind in PLATFORMS:
        out.append({"kind": kind, "device": {"outputs": {"show version": "v1\nv2"}}, "driver_kwargs": {}, "policy": ["whole"],
                    "fault": None, "ops": [["open"], ["send_command", "show version", {}], ["get_prompt"], ["close"]]})
        out.append({"kind": kind, "device": {"outputs": {"show version": "v1\nv2"}}, "driver_kwargs": {}, "policy": ["bytes", 1],
                    "fault": None, "ops": [["open"], ["send_commands", ["show version", "show version"], {}]]})
    out.append({"kind": "cisco_iosxe", "device": {"login_mode": "exec", "secret": "s3c", "outputs": {}},
                "driver_kwargs": {"auth_secondary": "s3c"}, "policy": ["bytes", 3], "fault": None,
                "ops": [["open"], ["send_configs", ["interface Loopback0", "no shutdown"], {}], ["acquire_priv", "exec"]]})
    out.append({"kind": "cisco_iosxe", "device": {"login_mode": "exec", "secret": "s3c", "outputs": {}},
                "driver_kwargs": {"auth_secondary": "bad"}, "policy": ["whole"], "fault": None, "ops": [["open"]]})
    out.append({"kind": "juniper_junos", "device": {"outputs": {"show version": "Junos: 21.1"}, "banner": "{master}"},
                "driver_kwargs": {}, "policy": ["random", 7, 7], "fault": None,
                "ops": [["open"], ["send_command", "show version", {}], ["send_configs", ["set system host-name x", "bogus line"],
                                                                       {"stop_on_failed": True}]]})
    out.append({"kind": "arista_eos", "device": {"outputs": {}}, "driver_kwargs": {}, "policy": ["whole"], "fault": None,
                "ops": [["open"], ["register_configuration_session", "mysess"],
                        ["send_configs", ["interface Loopback0"], {"privilege_level": "mysess"}]]})
    out.append({"kind": "generic", "device": {"outputs": {"show clock": "12:00"}}, "driver_kwargs": {}, "policy": ["bytes", 2],
                "fault": {"read_exc_once_at": 30, "exc": "ScrapliConnectionError"},
                "ops": [["open"], ["send_command", "show clock", {}], ["send_command", "show clock", {}]]})
    # interactive dialogues: the same response expected twice in a row / asked once only / hidden answer / a completion
    # pattern that is already in the first event's output / refused answer with events still queued
    two = {"steps": [{"q": "Clear all counters? [confirm]"}, {"q": "Really clear? [confirm]"}], "out": "done"}
    once = {"steps": [{"q": "Clear all counters? [confirm]"}, {"q": "Really clear? [confirm]", "ask": False}], "out": "done"}
    ev2 = [["clear counters", "[confirm]", False], ["y", "[confirm]", False], ["y", "", False]]
    for kind, pol in (("generic", ["whole"]), ("cisco_iosxe", ["bytes", 1]), ("juniper_junos", ["random", 3, 7])):
        for spec in (two, once):
            for kw in ({}, {"interaction_complete_patterns": [ANY_PROMPT]},
                       {"interaction_complete_patterns": ["clear", ANY_PROMPT]}):
                out.append({"kind": kind, "device": {"outputs": {"show clock": "12:00"}, "dialogs": {"clear counters": spec}},
                            "driver_kwargs": {}, "policy": pol, "fault": None, "family": "interactive",
                            "ops": [["open"], ["send_interactive", ev2, kw], ["get_prompt"], ["send_command", "show clock", {}]]})
    copy = {"steps": [{"q": "Address or name of remote host []?"}, {"q": "Password:", "hidden": True},
                      {"q": "Destination filename [x]?", "ask": False}], "out": "1 file copied"}
    evc = [["copy flash: scp:", "[]?"], ["10.0.0.9", "Password:"], ["s3cr3t", "Destination filename", True], ["x", "", False]]
    refuse = {"steps": [{"q": "Continue? (y/n) ", "accept": ["y"]}, {"q": "Are you sure? (y/n) "}], "out": "ok", "abort_out": "% aborted"}
    evr = [["reload", "(y/n)", False], ["n", "(y/n)", False], ["y", "", False]]
    for kind in ("generic", "network", "arista_eos"):
        for name, spec, evs in (("copy flash: scp:", copy, evc), ("reload", refuse, evr)):
            for op in ("send_interactive", "channel_send_inputs_interact"):
                out.append({"kind": kind, "device": {"outputs": {}, "dialogs": {name: spec}}, "driver_kwargs": {}, "policy": ["bytes", 2],
                            "fault": None, "family": "interactive",
                            "ops": [["open"], [op, evs, {"interaction_complete_patterns": [ANY_PROMPT]}], ["get_prompt"]]})
    # lists with repeated entries under eager on / off: adjacent, apart, the last entry earlier in the list, a block of
    # text after whose lines the device prints no prompt
    outs = {"show version": "v1\nv2", "show clock": "12:00"}
    for kind, pol in (("generic", ["whole"]), ("network", ["bytes", 3]), ("cisco_nxos", ["random", 5, 7])):
        for eager in (True, False):
            for lines in (["show clock", "show clock", "show version"], ["show clock", "show version", "show clock"],
                          ["show version", "show version"], ["show clock"] * 3):
                for name in ("send_commands", "send_commands_from_file"):
                    out.append({"kind": kind, "device": {"outputs": outs}, "driver_kwargs": {}, "policy": pol, "fault": None,
                                "family": "lists", "ops": [["open"], [name, lines, {"eager": eager}], ["get_prompt"]]})
            if kind == "generic":
                continue
            conf = ["interface Loopback0", "no shutdown", "interface Loopback1", "no shutdown"]
            out.append({"kind": kind, "device": {"outputs": outs}, "driver_kwargs": {}, "policy": pol, "fault": None, "family": "lists",
                        "ops": [["open"], ["send_configs", conf, {"eager": eager}], ["send_config", "\n".join(conf), {"eager": eager}],
                                ["send_configs_from_file", conf + conf[:2], {"eager": eager, "stop_on_failed": True}]]})
            if eager:
                out.append({"kind": kind, "device": {"outputs": outs, "dialogs": {"banner motd ^": PROMPTLESS["banner motd ^"]}},
                            "driver_kwargs": {}, "policy": pol, "fault": None, "family": "lists",
                            "ops": [["open"], ["send_configs", ["banner motd ^", "^", "^", "hostname r9", "^"], {"eager": True}],
                                    ["get_prompt"]]})
    # per-call timeout_ops (not given, None, 0, the connection's, smaller, larger, fractional) x a slow line x connection timeout
    slow = {"outputs": outs, "latency": {"show version": 10.0, "no shutdown": 10.0}}
    for kind in ("generic", "cisco_iosxe"):
        for conn in (0, 2.1, 20.1):
            for v in ("absent", None, 0, 0.0, conn, 0.35, 2.1, 20.1, 200.1):
                kw = {} if v == "absent" else {"timeout_ops": v}
                ops = [["open"], ["send_command", "show version", dict(kw)], ["send_commands", ["show clock", "show version"], dict(kw)],
                       ["send_and_read", "show version", dict(kw, read_duration=120)],
                       ["send_interactive", [["show version", "#", False]], dict(kw)]]
                if kind != "generic":
                    ops += [["send_configs", ["interface Loopback0", "no shutdown"], dict(kw)], ["send_config", "no shutdown", dict(kw)],
                            ["send_configs_from_file", ["no shutdown"], dict(kw)]]
                ops.append(["send_commands_from_file", ["show version"], dict(kw)])
                for op in ops[1:]:       # one timed operation per scenario: a timeout closes the connection
                    out.append({"kind": kind, "device": slow, "driver_kwargs": {"timeout_ops": conn}, "policy": ["bytes", 5],
                                "fault": None, "family": "timeouts", "ops": [["open"], op, ["get_prompt"]]})
    # error paths: wrong / empty / missing secondary password against a device that re-prompts, refuses at once, hangs;
    # a refused / ignored / unanswered de-escalation; failing on_open / on_close hooks; the operation timeout armed or not
    for kind in ("cisco_iosxe", "network", "arista_eos", "cisco_nxos"):
        for T in (2.1, 0):
            for sec in ("wrong", "", None):
                for extra in ({}, {"auth_attempts": 1}, {"auth_hang": "wrong"}, {"mute": [["exec", "enable"]]}):
                    dkw = {"timeout_ops": T, "on_open": "none"}
                    if sec is not None:
                        dkw["auth_secondary"] = sec
                    out.append({"kind": kind, "device": dict({"login_mode": "exec", "secret": "s3cr3t", "outputs": dict(outs)}, **extra),
                                "driver_kwargs": dkw, "policy": ["whole"], "fault": None, "family": "errors",
                                "ops": [["open"], ["acquire_priv", "privilege_exec"], ["get_prompt"], ["open"], ["get_prompt"]]})
            for how in ("refuse", "ignore", "mute"):
                out.append({"kind": kind, "device": {"login_mode": "privilege_exec", "outputs": dict(outs), how: [["configuration", "end"]]},
                            "driver_kwargs": {"timeout_ops": T}, "policy": ["bytes", 3], "fault": None, "family": "errors",
                            "ops": [["open"], ["send_configs", ["no shutdown"], {}], ["send_command", "show clock", {}], ["get_prompt"]]})
    out.append({"kind": "juniper_junos", "device": {"secret": "s3cr3t", "outputs": dict(outs)},
                "driver_kwargs": {"timeout_ops": 2.1, "auth_secondary": "wrong"}, "policy": ["whole"], "fault": None, "family": "errors",
                "ops": [["open"], ["acquire_priv", "root_shell"], ["get_prompt"]]})
    for kind in ("generic", "cisco_iosxe", "juniper_junos"):
        for h in HOOK_NAMES["generic" if kind == "generic" else "network"]:
            for hc in ("raise_own", None):
                dkw = {"timeout_ops": 2.1, "on_open": h}
                if hc:
                    dkw["on_close"] = hc
                out.append({"kind": kind, "device": {"outputs": dict(outs)}, "driver_kwargs": dkw, "policy": ["whole"], "fault": None,
                            "family": "errors", "ops": [["open"], ["get_prompt"], ["close"], ["open"], ["send_command", "show clock", {}]]})
        out.append({"kind": kind, "device": {"outputs": dict(outs), "mute": [["*", "terminal length 0"], ["*", "set cli screen-length 0"]]},
                    "driver_kwargs": {"timeout_ops": 2.1, "on_open": "cmd" if kind == "generic" else "cmd_then_raise"},
                    "policy": ["whole"], "fault": None, "family": "errors", "ops": [["open"], ["get_prompt"], ["close"]]})
    # send_and_read / channel.send_input_and_read against a streaming answer: expected outputs that are plain text, text with regex
    # metacharacters, real patterns, nowhere in the stream, not a valid pattern — chunked, so that where the read stops shows
    st = STREAMS[2]
    for kind, pol in (("generic", ["bytes", 3]), ("cisco_iosxe", ["bytes", 5]), ("juniper_junos", ["random", 11, 7])):
        for exp in (["line two"], ["[confirm]"], ["(y/n)"], ["c++"], ["$5"], ["a|b"], [r"line (one|two)"], [r"total: \d+"], [r"up(time)? is \d"],
                    ["zz"], ["(yes/no"], ["zz", "[never]", r"^more \w+"]):
            for name in ("send_and_read", "channel_send_input_and_read"):
                out.append({"kind": kind, "device": {"outputs": {"show counters": st["text"]},
                                                     "dialogs": {"monitor interface": {"steps": [{"q": st["text"] + "\n"}], "out": ""}}},
                            "driver_kwargs": {}, "policy": pol, "fault": None, "family": "and_read",
                            "ops": [["open"], [name, "show counters", {"expected_outputs": exp, "read_duration": 120}], ["get_prompt"],
                                    [name, "monitor interface", {"expected_outputs": exp, "read_duration": 120}], ["get_prompt"]]})
    # every cut position inside ESC[0m, ESC[?25h and an OSC title sequence, the chunk behind the cut carrying only the rest of
    # the sequence / the rest and plain text / everything (further sequences included)
    n = 0
    for seq in ("\x1b[0m", "\x1b[?25h", "\x1b]0;t1\x07"):
        for k in range(1, len(seq)):
            for after in ("rest", "plain", "all"):
                kind = ("generic", "cisco_iosxe", "cisco_iosxr", "juniper_junos")[n % 4]
                n += 1
                out.append({"kind": kind, "device": {"outputs": {"show version": "v1 " + seq + "v2\nv3" + seq, "show clock": seq + "12:00"},
                                                     "insertions": {"0": seq} if n % 3 == 0 else {}},
                            "driver_kwargs": {}, "policy": ["esccut", k, after], "fault": None, "family": "ansi",
                            "ops": [["open"], ["send_command", "show version", {}], ["send_command", "show clock", {"strip_prompt": False}],
                                    ["get_prompt"]]})
    # with-block form of the open failures: refused in-band login, failing transport open, failing escalation in on_open,
    # failing user hook, set-up line that hangs with the timeout armed, healthy; then the object is used / entered again
    for kind in ("generic", "cisco_iosxe", "network", "juniper_junos"):
        tail = [["get_prompt"], ["with", [["get_prompt"]]]]
        for pw in ("pw", "bad"):
            out.append({"kind": kind, "device": {"outputs": dict(outs), "login": {"password": "pw"}},
                        "driver_kwargs": {"timeout_ops": 200.1, "auth_bypass": False, "auth_username": "admin", "auth_password": pw},
                        "policy": ["bytes", 3], "fault": None, "family": "with_open", "with_open": {"cause": "login"},
                        "ops": [["with", [["send_command", "show clock", {}]]]] + tail})
        for exc in OPEN_EXC:
            out.append({"kind": kind, "device": {"outputs": dict(outs)}, "driver_kwargs": {"timeout_ops": 2.1}, "policy": ["whole"],
                        "fault": {"open_exc": exc, "open_fails": 1}, "family": "with_open", "with_open": {"cause": "transport"},
                        "ops": [["with", [["get_prompt"]]]] + tail})
        for h in ("raise_own", "raise_scrapli", "cmd"):
            out.append({"kind": kind, "device": {"outputs": dict(outs), "mute": [["*", "terminal length 0"]]},
                        "driver_kwargs": {"timeout_ops": 2.1, "on_open": h}, "policy": ["whole"], "fault": None, "family": "with_open",
                        "with_open": {"cause": "on_open"}, "ops": [["with", [["get_prompt"]]]] + tail})
        if kind in ("cisco_iosxe", "network"):
            for extra in ({}, {"auth_attempts": 1}, {"auth_hang": "wrong"}):
                out.append({"kind": kind, "device": dict({"login_mode": "exec", "secret": "s3cr3t", "outputs": dict(outs)}, **extra),
                            "driver_kwargs": dict({"timeout_ops": 2.1, "auth_secondary": "wrong"},
                                                  **({"on_open": "escalate"} if kind == "network" else {})),
                            "policy": ["whole"], "fault": None, "family": "with_open", "with_open": {"cause": "escalation"},
                            "ops": [["with", [["get_prompt"]]]] + tail})
    # two objects of each platform driver: a default level of the first edited in place, then the second constructed and used
    for kind in TWO_KINDS:
        top = "configuration"
        for edit in ([top, "pattern", r"^never-matches-\d+#$"], [top, "escalate", "configure terminal force"], [top, "not_contains", "#"],
                     [PRIVS[kind][0], "pattern", r"^edited[#>]$"]):
            for upd in ([], [["update_privilege_levels"]]):
                out.append({"kind": kind, "device": {"outputs": {"show clock": "12:00"}}, "driver_kwargs": {}, "policy": ["whole"],
                            "fault": None, "family": "two_objects", "first": {"ops_before": [], "edits": [edit], "ops_after": upd},
                            "ops": [["open"], ["get_prompt"], ["send_configs", ["no shutdown"], {}], ["send_command", "show clock", {}]]})
    return out
